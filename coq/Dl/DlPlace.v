(** Placement theorem T5.2 for [dlw] (DlWrite.v): a well-formed single-range payload —
    the stored bytes of the requested chunks, concatenated in range-index order — fed in
    one call or split into arbitrary non-empty fragments leaves every requested chunk at
    [doff + c_start] in the file, flagged [VValid], and every call reports its whole
    fragment as consumed. *)
From ZV Require Import Base.Bytes Dl.DlWrite Dl.FileLemmas Dl.DlProofs.
Local Open Scope N_scope.

(** * Generic list facts *)
Lemma set_flag_cons_S c0 tab t v : set_flag (c0 :: tab) (S t) v = c0 :: set_flag tab t v.
Proof. unfold set_flag. cbn [nth_error]. destruct (nth_error tab t); reflexivity. Qed.

Lemma nth_error_set_flag_same : forall t tab v c, nth_error tab t = Some c ->
  nth_error (set_flag tab t v) t = Some (mkChunk (c_start c) (c_len c) (c_digest c) v).
Proof.
  induction t as [|t IH]; intros [|c0 tab] v c Hc; try discriminate.
  - cbn in Hc. inversion Hc; subst. reflexivity.
  - rewrite set_flag_cons_S. cbn [nth_error] in *. apply IH. exact Hc.
Qed.

Lemma nth_error_set_flag_other : forall t tab v t', t' <> t ->
  nth_error (set_flag tab t v) t' = nth_error tab t'.
Proof.
  induction t as [|t IH]; intros [|c0 tab] v t' Hne; try reflexivity.
  - destruct t' as [|t']; [congruence|]. reflexivity.
  - rewrite set_flag_cons_S. destruct t' as [|t']; [reflexivity|]. cbn [nth_error].
    apply IH. congruence.
Qed.

Lemma app_split {A} : forall (d inp q rest : list A),
  inp ++ q = d ++ rest -> (length d <= length inp)%nat ->
  exists inp', inp = d ++ inp' /\ inp' ++ q = rest.
Proof.
  induction d as [|x d IH]; intros inp q rest He Hl.
  - exists inp. split; [reflexivity|exact He].
  - destruct inp as [|y inp]; cbn [length] in Hl; [lia|].
    cbn [app] in He. inversion He; subst.
    destruct (IH inp q rest H1 ltac:(lia)) as (i' & Hi & E).
    exists i'. split; [cbn [app]; congruence|exact E].
Qed.

Lemma skipn_app_cons {A} : forall (pre : list A) e rest,
  skipn (S (length pre)) (pre ++ e :: rest) = rest.
Proof. induction pre as [|x pre IH]; intros e rest; [reflexivity|]. cbn [length app skipn]. apply IH. Qed.

Lemma Forall2_nth_error {A B} (R : A -> B -> Prop) : forall l l' j a b,
  Forall2 R l l' -> nth_error l j = Some a -> nth_error l' j = Some b -> R a b.
Proof.
  intros l l' j a b HF. revert j. induction HF as [|x y l l' Hxy HF IH]; intros j Ha Hb.
  - destruct j; discriminate.
  - destruct j as [|j]; cbn [nth_error] in *.
    + inversion Ha; inversion Hb; subst. exact Hxy.
    + eapply IH; eauto.
Qed.

Lemma Forall2_len {A B} (R : A -> B -> Prop) l l' : Forall2 R l l' -> length l = length l'.
Proof. induction 1; cbn [length]; congruence. Qed.

Lemma Forall2_nonnil_inv {A B} (R : A -> B -> Prop) l l' : Forall2 R l l' -> l <> [] ->
  exists a b l1 l1', l = a :: l1 /\ l' = b :: l1' /\ R a b /\ Forall2 R l1 l1'.
Proof.
  intros HF Hn. destruct HF as [|a b l1 l1' Hab HF]; [congruence|].
  exists a, b, l1, l1'. repeat split; assumption.
Qed.

Lemma len_pos_nonnil (l : bytes) : 0 < len l -> l <> [].
Proof. intros Hl ->. cbn in Hl. lia. Qed.

Lemma nonnil_len_pos (l : bytes) : l <> [] -> 0 < len l.
Proof. destruct l; [congruence|]. rewrite len_cons. lia. Qed.

Section Place.
Variable H : bytes -> bytes.
Variable doff : N.
Variable ridx : list rentry.

Notation dlw_f := (dlw_f H doff ridx).
Notation dlw := (dlw H doff ridx).
Notation dstep := (dstep H doff ridx).
Notation settle := (settle H doff ridx).
Notation set_chunk_valid := (set_chunk_valid H doff).
Notation select := (select doff ridx).

Ltac prj := cbn [d_err d_pos d_wic d_tgt d_cur d_acc d_fpos d_file d_tab].
Ltac prj_in Hx := cbn [d_err d_pos d_wic d_tgt d_cur d_acc d_fpos d_file d_tab] in Hx.

(** * The setting *)
Fixpoint starts_ok (es : list rentry) (p : N) : Prop :=
  match es with [] => True | e :: es' => r_start e = p /\ starts_ok es' (p + r_len e) end.

Definition in_ext (c : chunk) (x : N) : Prop :=
  doff + c_start c <= x < doff + c_start c + c_len c.

Definition disjoint_tab (tab0 : list chunk) : Prop :=
  forall t1 t2 c1 c2 x, t1 <> t2 -> nth_error tab0 t1 = Some c1 -> nth_error tab0 t2 = Some c2 ->
    in_ext c1 x -> in_ext c2 x -> False.

(** the request is consistent with the target table *)
Definition req_ok (tab0 : list chunk) : Prop :=
  NoDup (map r_tgt ridx) /\ starts_ok ridx 0 /\ disjoint_tab tab0 /\ ridx <> [] /\
  forall e, In e ridx -> exists c, nth_error tab0 (r_tgt e) = Some c /\ c_valid c <> VValid /\
     r_len e = c_len c /\ r_digest e = c_digest c /\ 0 < r_len e.

(** [datas]: the true bytes of the requested chunks, in order *)
Definition datas_ok (tab0 : list chunk) (datas : list bytes) : Prop :=
  Forall2 (fun e d => len d = r_len e /\
     exists c, nth_error tab0 (r_tgt e) = Some c /\ chunk_digest_ok H c d = true) ridx datas.

Definition init (fpos : N) (file : bytes) (tab0 : list chunk) : dlstate :=
  mkDl false 0 0 None None None fpos file tab0.

(** feeding fragments the way the transport does *)
Fixpoint feed (s : dlstate) (frags : list bytes) : dlstate * bool :=
  match frags with
  | [] => (s, true)
  | fr :: rest => match dlw s fr with
                  | (s', DOk n) => if n =? len fr then feed s' rest else (s', false)
                  | (s', _) => (s', false)
                  end
  end.

(** * Offsets of the range index *)
Lemma starts_next : forall pre p e e' post,
  starts_ok (pre ++ e :: e' :: post) p -> r_start e' = r_start e + r_len e.
Proof.
  induction pre as [|x pre IH]; intros p e e' post Hs; cbn [app starts_ok] in Hs.
  - destruct Hs as (H1 & H2 & _). lia.
  - destruct Hs as (_ & Hs). eapply IH. exact Hs.
Qed.

Lemma starts_last : forall pre p e,
  starts_ok (pre ++ [e]) p -> (forall x, In x (pre ++ [e]) -> 0 < r_len x) ->
  forall x, In x (pre ++ [e]) -> p <= r_start x /\ r_start x < r_start e + r_len e.
Proof.
  induction pre as [|a pre IH]; intros p e Hs Hpos x Hx; cbn [app starts_ok] in *.
  - destruct Hx as [Hx|[]]. subst x. destruct Hs as [Hs _]. specialize (Hpos e (or_introl eq_refl)). lia.
  - destruct Hs as [Ha Hs].
    assert (Hpos' : forall y, In y (pre ++ [e]) -> 0 < r_len y).
    { intros y Hy. apply Hpos. right. exact Hy. }
    assert (He : In e (pre ++ [e])) by (apply in_or_app; right; left; reflexivity).
    pose proof (IH _ _ Hs Hpos' e He) as [He1 _].
    pose proof (Hpos a (or_introl eq_refl)) as Hpa.
    destruct Hx as [Hx|Hx].
    + subst x. lia.
    + pose proof (IH _ _ Hs Hpos' x Hx) as [Hx1 Hx2]. lia.
Qed.

(** * Primitive steps *)
Lemma entry_matches_ok tab pos e c :
  r_start e = pos -> nth_error tab (r_tgt e) = Some c -> c_valid c <> VValid ->
  r_len e = c_len c -> r_digest e = c_digest c -> entry_matches tab pos e = Some c.
Proof.
  intros Hs Hn Hv Hl Hd. unfold entry_matches.
  replace (r_start e =? pos) with true by (symmetry; apply N.eqb_eq; exact Hs).
  rewrite Hn.
  replace (is_valid (c_valid c)) with false by (destruct (c_valid c); [reflexivity|congruence|reflexivity]).
  replace (r_len e =? c_len c) with true by (symmetry; apply N.eqb_eq; exact Hl).
  replace (bytes_eqb (r_digest e) (c_digest c)) with true
    by (symmetry; apply bytes_eqb_eq; exact Hd).
  reflexivity.
Qed.

Lemma search_none tab pos : forall es k,
  (forall x, In x es -> r_start x <> pos) -> search tab pos es k = None.
Proof.
  induction es as [|e es IH]; intros k Hne; cbn [search]; [reflexivity|].
  unfold entry_matches.
  replace (r_start e =? pos) with false
    by (symmetry; apply N.eqb_neq; apply Hne; left; reflexivity).
  apply IH. intros x Hx. apply Hne. right. exact Hx.
Qed.

Lemma select_found s k0 e' rest c' :
  k0 = match d_cur s with None => 0%nat | Some k => k end ->
  skipn k0 ridx = e' :: rest ->
  entry_matches (d_tab s) (d_pos s) e' = Some c' ->
  select s = mkDl (d_err s) (d_pos s) (r_len e') (Some (r_tgt e'))
                  (if (S k0 <? length ridx)%nat then Some (S k0) else None)
                  (Some []) (doff + c_start c') (d_file s) (d_tab s).
Proof.
  intros Hk Hsk Hem. unfold DlWrite.select. rewrite <- Hk, Hsk. cbn [search]. rewrite Hem.
  reflexivity.
Qed.

Lemma select_none s :
  d_cur s = None -> (forall x, In x ridx -> r_start x <> d_pos s) ->
  select s = mkDl (d_err s) (d_pos s) (d_wic s) (d_tgt s) (Some 0%nat) (d_acc s) (d_fpos s)
                  (d_file s) (d_tab s).
Proof.
  intros Hc Hne. unfold DlWrite.select. rewrite Hc. cbn [skipn].
  rewrite (search_none _ _ _ _ Hne). reflexivity.
Qed.

(** the state right after an entry has been selected *)
Definition selst (e : rentry) (c : chunk) (cur : option nat) (file : bytes) (tab : list chunk)
  : dlstate :=
  mkDl false (r_start e) (r_len e) (Some (r_tgt e)) cur (Some []) (doff + c_start c) file tab.

(** the state after the whole chunk has been written and validated, before [select] *)
Definition donest (e : rentry) (c : chunk) (cur : option nat) (file : bytes) (tab : list chunk)
  (d : bytes) : dlstate :=
  mkDl false (r_start e + len d) 0 None cur None (doff + c_start c + len d)
       (file_write file (doff + c_start c) d) (set_flag tab (r_tgt e) VValid).

Lemma dstep_sel_short e c cur file tab inp :
  ridx <> [] -> tab <> [] -> inp <> [] -> len inp < r_len e ->
  exists s', dstep (selst e c cur file tab) inp = SDone s' (DOk (len inp)).
Proof.
  intros Hr Ht Hi Hl.
  destruct (dstep_long H doff ridx (selst e c cur file tab) inp [0] [])
    as [Hd _]; try assumption; try reflexivity; try discriminate.
  eexists. exact Hd.
Qed.

Lemma dstep_sel_full e c cur file tab d inp' :
  ridx <> [] -> d <> [] -> len d = r_len e -> nth_error tab (r_tgt e) = Some c ->
  chunk_digest_ok H c d = true ->
  dstep (selst e c cur file tab) (d ++ inp') =
    let s2 := select (donest e c cur file tab d) in
    if (0 <? d_wic s2) && (len d <? len (d ++ inp')) then SMore s2 (len d)
    else SDone s2 (DOk (len d)).
Proof.
  intros Hr Hd Hl Hn Hdig.
  assert (Ht : tab <> []) by (intros ->; destruct (r_tgt e); discriminate).
  assert (Hg : guard ridx (selst e c cur file tab) = false) by (apply guard_false; split; assumption).
  assert (Hpos : 0 < len d) by (apply nonnil_len_pos; exact Hd).
  assert (Hwb : wbf (selst e c cur file tab) (len (d ++ inp')) = len d).
  { unfold wbf, selst. prj. rewrite <- Hl, len_app.
    replace (0 <? len d) with true by (symmetry; apply N.ltb_lt; exact Hpos). lia. }
  assert (Hw : dl_write (selst e c cur file tab) (d ++ inp') =
    (mkDl false (r_start e + len d) 0 (Some (r_tgt e)) cur (Some d) (doff + c_start c + len d)
          (file_write file (doff + c_start c) d) tab, true)).
  { unfold dl_write, selst. prj. rewrite <- Hl, len_app.
    replace (0 <? len d) with true by (symmetry; apply N.ltb_lt; exact Hpos).
    replace (N.min (len d) (len d + len inp')) with (len d) by lia.
    replace (N.to_nat (len d)) with (length d) by (unfold len; lia).
    rewrite firstn_app, Nat.sub_diag, firstn_all. cbn [firstn]. rewrite app_nil_r.
    rewrite N.sub_diag. destruct d as [|d0 d']; [congruence|]. reflexivity. }
  unfold DlProofs.dstep. rewrite Hg, Hwb, Hw. unfold selst at 1. prj. cbn [negb].
  rewrite N.eqb_refl.
  unfold DlWrite.settle, DlWrite.set_chunk_valid. prj. rewrite Hn, Hdig. cbn [negb].
  reflexivity.
Qed.


(** * The run from a selected entry *)
Section WithTab.
Variable tab0 : list chunk.
Hypothesis Hreq : req_ok tab0.

Definition dat_ok (e : rentry) (d : bytes) : Prop :=
  len d = r_len e /\ exists c, nth_error tab0 (r_tgt e) = Some c /\ chunk_digest_ok H c d = true.

(** targets of [pre] are flagged valid, everything else is as in [tab0] *)
Definition tab_spec (pre : list rentry) (tab : list chunk) : Prop :=
  (forall t, ~ In t (map r_tgt pre) -> nth_error tab t = nth_error tab0 t) /\
  (forall e c, In e pre -> nth_error tab0 (r_tgt e) = Some c ->
     nth_error tab (r_tgt e) = Some (mkChunk (c_start c) (c_len c) (c_digest c) VValid)).

(** the bytes of [pre] are in place *)
Definition file_spec (pre : list rentry) (dpre : list bytes) (f : bytes) : Prop :=
  forall j e d c, nth_error pre j = Some e -> nth_error dpre j = Some d ->
    nth_error tab0 (r_tgt e) = Some c -> fread f (doff + c_start c) (length d) = d.

Lemma req_nodup : NoDup (map r_tgt ridx).
Proof. exact (proj1 Hreq). Qed.
Lemma req_starts : starts_ok ridx 0.
Proof. exact (proj1 (proj2 Hreq)). Qed.
Lemma req_disj : disjoint_tab tab0.
Proof. exact (proj1 (proj2 (proj2 Hreq))). Qed.
Lemma req_nonnil : ridx <> [].
Proof. exact (proj1 (proj2 (proj2 (proj2 Hreq)))). Qed.
Lemma req_entry e : In e ridx -> exists c, nth_error tab0 (r_tgt e) = Some c /\
  c_valid c <> VValid /\ r_len e = c_len c /\ r_digest e = c_digest c /\ 0 < r_len e.
Proof. exact (proj2 (proj2 (proj2 (proj2 Hreq))) e). Qed.

Lemma req_nz : nz_ridx ridx.
Proof. intros e He. destruct (req_entry e He) as (c & _ & _ & _ & _ & Hp). exact Hp. Qed.

Lemma tgt_fresh pre e post : ridx = pre ++ e :: post -> ~ In (r_tgt e) (map r_tgt pre).
Proof.
  intros Hr Hin. pose proof req_nodup as Hnd. rewrite Hr, map_app in Hnd. cbn [map] in Hnd.
  apply NoDup_remove_2 in Hnd. apply Hnd. apply in_or_app. left. exact Hin.
Qed.

Lemma tgt_fresh2 pre e e' post :
  ridx = pre ++ e :: e' :: post -> ~ In (r_tgt e') (map r_tgt (pre ++ [e])).
Proof.
  intros Hr. apply (tgt_fresh (pre ++ [e]) e' post). rewrite <- app_assoc. exact Hr.
Qed.

Lemma sel_facts pre e post d c tab :
  ridx = pre ++ e :: post -> dat_ok e d -> nth_error tab0 (r_tgt e) = Some c -> tab_spec pre tab ->
  In e ridx /\ len d = r_len e /\ 0 < r_len e /\ r_len e = c_len c /\ r_digest e = c_digest c /\
  c_valid c <> VValid /\ chunk_digest_ok H c d = true /\ nth_error tab (r_tgt e) = Some c.
Proof.
  intros Hr (Hl & c1 & Hc1 & Hdig) Hc [Ht1 _].
  assert (Hin : In e ridx) by (rewrite Hr; apply in_or_app; right; left; reflexivity).
  destruct (req_entry e Hin) as (c2 & Hc2 & Hv & Hlen & Hdg & Hp).
  assert (c1 = c) by congruence. assert (c2 = c) by congruence. subst c1 c2.
  repeat split; try assumption.
  rewrite Ht1; [exact Hc|]. eapply tgt_fresh; eauto.
Qed.

Lemma tab_spec_snoc pre e post c tab :
  ridx = pre ++ e :: post -> nth_error tab0 (r_tgt e) = Some c -> tab_spec pre tab ->
  tab_spec (pre ++ [e]) (set_flag tab (r_tgt e) VValid).
Proof.
  intros Hr Hc [Ht1 Ht2].
  assert (Hfresh : ~ In (r_tgt e) (map r_tgt pre)) by (eapply tgt_fresh; eauto).
  split.
  - intros t Ht. rewrite map_app in Ht. cbn [map] in Ht.
    rewrite nth_error_set_flag_other.
    + apply Ht1. intros Hx. apply Ht. apply in_or_app. left. exact Hx.
    + intros ->. apply Ht. apply in_or_app. right. left. reflexivity.
  - intros x cx Hx Hcx. apply in_app_or in Hx. destruct Hx as [Hx|[Hx|[]]].
    + rewrite nth_error_set_flag_other; [apply Ht2; assumption|].
      intros Heq. apply Hfresh. rewrite <- Heq. apply in_map. exact Hx.
    + subst x. assert (cx = c) by congruence. subst cx.
      apply nth_error_set_flag_same. rewrite Ht1; assumption.
Qed.

Lemma file_spec_snoc pre dpre e post d c file :
  ridx = pre ++ e :: post -> Forall2 dat_ok pre dpre -> dat_ok e d ->
  nth_error tab0 (r_tgt e) = Some c -> file_spec pre dpre file ->
  file_spec (pre ++ [e]) (dpre ++ [d]) (file_write file (doff + c_start c) d).
Proof.
  intros Hr Hpre Hd Hc Hf j ej dj cj Hej Hdj Hcj.
  pose proof (Forall2_len _ _ _ Hpre) as Hlen.
  destruct (Nat.lt_ge_cases j (length pre)) as [Hj|Hj].
  - rewrite nth_error_app1 in Hej by exact Hj.
    rewrite nth_error_app1 in Hdj by (rewrite <- Hlen; exact Hj).
    rewrite <- (Hf j ej dj cj Hej Hdj Hcj) at 2.
    apply fread_ext. intros x Hx. rewrite fget_file_write.
    destruct ((doff + c_start c <=? x) && (x <? doff + c_start c + len d)) eqn:E; [|reflexivity].
    exfalso. apply andb_prop in E. destruct E as [E1 E2].
    apply N.leb_le in E1. apply N.ltb_lt in E2.
    pose proof (Forall2_nth_error _ _ _ _ _ _ Hpre Hej Hdj) as (Hlj & _).
    assert (Hinj : In ej ridx).
    { rewrite Hr. apply in_or_app. left. eapply nth_error_In. exact Hej. }
    assert (Hine : In e ridx) by (rewrite Hr; apply in_or_app; right; left; reflexivity).
    destruct (req_entry ej Hinj) as (cj' & Hcj' & _ & Hlenj & _).
    destruct (req_entry e Hine) as (c' & Hc' & _ & Hlene & _).
    assert (cj' = cj) by congruence. assert (c' = c) by congruence. subst cj' c'.
    destruct Hd as (Hld & _).
    apply (req_disj (r_tgt ej) (r_tgt e) cj c x); try assumption.
    + intros Heq. apply (tgt_fresh pre e post Hr). rewrite <- Heq. apply in_map.
      eapply nth_error_In. exact Hej.
    + unfold in_ext. unfold len in Hlj. lia.
    + unfold in_ext. lia.
  - rewrite nth_error_app2 in Hej by exact Hj.
    rewrite nth_error_app2 in Hdj by (rewrite <- Hlen; exact Hj).
    rewrite <- Hlen in Hdj.
    destruct (j - length pre)%nat as [|m]; cbn [nth_error] in Hej, Hdj.
    + inversion Hej; inversion Hdj; subst. assert (cj = c) by congruence. subst cj.
      apply fread_file_write.
    + destruct m; discriminate.
Qed.

Lemma run_from_sel : forall post pre e dpre d dpost c cur file tab fuel inp q,
  ridx = pre ++ e :: post ->
  Forall2 dat_ok pre dpre -> dat_ok e d -> Forall2 dat_ok post dpost ->
  nth_error tab0 (r_tgt e) = Some c ->
  cur = (if (S (length pre) <? length ridx)%nat then Some (S (length pre)) else None) ->
  tab_spec pre tab -> file_spec pre dpre file ->
  inp <> [] -> inp ++ q = d ++ concat dpost ->
  (length inp < fuel)%nat ->
  exists s', dlw_f fuel (selst e c cur file tab) inp = (s', DOk (len inp)) /\
     (q = [] -> tab_spec ridx (d_tab s') /\ file_spec ridx (dpre ++ d :: dpost) (d_file s')).
Proof.
  induction post as [|e' post IH]; intros pre e dpre d dpost c cur file tab fuel inp q
    Hr Hpre Hd Hpost Hc Hcur Htab Hfile Hinp Hq Hfuel.
  all: destruct fuel as [|f]; [lia|]; rewrite dlw_f_S.
  all: destruct (sel_facts _ _ _ _ _ _ Hr Hd Hc Htab)
         as (Hin & Hld & Hpos & Hlc & Hdg & Hv & Hdig & Hnth).
  all: assert (Htne : tab <> []) by (intros ->; destruct (r_tgt e); discriminate).
  all: assert (Hdne : d <> []) by (apply len_pos_nonnil; lia).
  all: destruct (N.lt_ge_cases (len inp) (r_len e)) as [Hshort|Hfull].
  (* short input: the call ends inside the current chunk *)
  1,3: destruct (dstep_sel_short e c cur file tab inp req_nonnil Htne Hinp Hshort) as (s' & Hs');
       rewrite Hs'; exists s'; split; [reflexivity|];
       intros ->; exfalso; rewrite app_nil_r in Hq; apply (f_equal (@length _)) in Hq;
       rewrite app_length in Hq; unfold len in *; lia.
  (* last entry *)
  - destruct (app_split d inp q (concat dpost) Hq ltac:(unfold len in *; lia)) as (inp' & -> & Hq').
    inversion Hpost; subst dpost. cbn [concat] in Hq'.
    apply app_eq_nil in Hq'. destruct Hq' as [-> ->].
    rewrite (dstep_sel_full e c cur file tab d [] req_nonnil Hdne Hld Hnth Hdig). cbv zeta.
    assert (Hlenr : length ridx = S (length pre)).
    { rewrite Hr, app_length. cbn [length]. lia. }
    assert (Hcn : cur = None).
    { rewrite Hcur, Hlenr. rewrite Nat.ltb_irrefl. reflexivity. }
    rewrite select_none.
    + unfold donest. prj. rewrite N.ltb_irrefl. cbn [andb]. rewrite app_nil_r.
      eexists. split; [reflexivity|]. intros _. prj.
      split.
      * rewrite Hr at 1. eapply tab_spec_snoc; eauto.
      * rewrite Hr at 1. eapply file_spec_snoc; eauto.
    + unfold donest. prj. exact Hcn.
    + unfold donest. prj. intros x Hx.
      pose proof req_starts as Hst. rewrite Hr in Hst, Hx.
      pose proof (starts_last pre 0 e Hst) as Hsl.
      assert (Hp : forall y, In y (pre ++ [e]) -> 0 < r_len y).
      { intros y Hy. rewrite <- Hr in Hy. apply req_nz. exact Hy. }
      destruct (Hsl Hp x Hx) as [_ Hlt]. lia.
  (* an entry follows *)
  - destruct (app_split d inp q (concat dpost) Hq ltac:(unfold len in *; lia)) as (inp' & -> & Hq').
    inversion Hpost as [|e1 d' post1 dpost' Hd' Hpost' E1 E2]; subst dpost. clear E1.
    cbn [concat] in Hq'.
    rewrite (dstep_sel_full e c cur file tab d inp' req_nonnil Hdne Hld Hnth Hdig). cbv zeta.
    assert (Hlenr : length ridx = (length pre + S (S (length post)))%nat).
    { rewrite Hr, app_length. reflexivity. }
    assert (Hcs : cur = Some (S (length pre))).
    { rewrite Hcur. replace (S (length pre) <? length ridx)%nat with true
        by (symmetry; apply Nat.ltb_lt; lia). reflexivity. }
    assert (Hin' : In e' ridx).
    { rewrite Hr. apply in_or_app. right. right. left. reflexivity. }
    destruct (req_entry e' Hin') as (c' & Hc' & Hv' & Hlc' & Hdg' & Hpos').
    assert (Hsk : skipn (S (length pre)) ridx = e' :: post).
    { rewrite Hr. apply skipn_app_cons. }
    assert (Hnext : r_start e' = r_start e + len d).
    { pose proof req_starts as Hst. rewrite Hr in Hst. rewrite Hld. eapply starts_next. exact Hst. }
    pose proof (tab_spec_snoc pre e (e' :: post) c tab Hr Hc Htab) as Htab'.
    pose proof (file_spec_snoc pre dpre e (e' :: post) d c file Hr Hpre Hd Hc Hfile) as Hfile'.
    assert (Hem : entry_matches (set_flag tab (r_tgt e) VValid) (r_start e + len d) e' = Some c').
    { apply entry_matches_ok; try assumption.
      destruct Htab' as [Ht1 _]. rewrite Ht1; [exact Hc'|]. eapply tgt_fresh2; eauto. }
    rewrite (select_found (donest e c cur file tab d) (S (length pre)) e' post c').
    2:{ unfold donest. prj. rewrite Hcs. reflexivity. }
    2:{ exact Hsk. }
    2:{ unfold donest. prj. exact Hem. }
    unfold donest. prj. rewrite <- Hnext.
    replace (0 <? r_len e') with true by (symmetry; apply N.ltb_lt; exact Hpos').
    cbn [andb]. rewrite len_app.
    set (cur' := if (S (S (length pre)) <? length ridx)%nat then Some (S (S (length pre))) else None).
    fold (selst e' c' cur' (file_write file (doff + c_start c) d) (set_flag tab (r_tgt e) VValid)).
    destruct inp' as [|b0 inp0].
    + (* the input ends exactly at the chunk boundary *)
      replace (len d <? len d + len []) with false
        by (symmetry; apply N.ltb_ge; cbn [len length N.of_nat]; lia).
      change (len []) with 0. rewrite N.add_0_r. eexists. split; [reflexivity|].
      intros ->. exfalso. cbn [app] in Hq'. symmetry in Hq'. apply app_eq_nil in Hq'.
      destruct Hq' as [Hd0 _]. destruct Hd' as (Hld' & _). subst d'. cbn in Hld'. lia.
    + set (inp' := b0 :: inp0) in *.
      assert (Hlp : 0 < len inp') by (unfold inp'; rewrite len_cons; lia).
      replace (len d <? len d + len inp') with true by (symmetry; apply N.ltb_lt; lia).
      replace (N.to_nat (len d)) with (length d) by (unfold len; lia).
      rewrite skipn_app, skipn_all, Nat.sub_diag. cbn [skipn app].
      destruct (IH (pre ++ [e]) e' (dpre ++ [d]) d' dpost' c' cur'
                   (file_write file (doff + c_start c) d) (set_flag tab (r_tgt e) VValid)
                   f inp' q) as (s' & Hrun & Hfin).
      * rewrite <- app_assoc. exact Hr.
      * apply Forall2_app; [exact Hpre|]. constructor; [exact Hd|constructor].
      * exact Hd'.
      * exact Hpost'.
      * exact Hc'.
      * unfold cur'. rewrite app_length. cbn [length]. rewrite Nat.add_1_r. reflexivity.
      * exact Htab'.
      * exact Hfile'.
      * unfold inp'. discriminate.
      * exact Hq'.
      * rewrite app_length in Hfuel. assert (0 < length d)%nat by (unfold len in Hpos, Hld; lia). lia.
      * rewrite Hrun. unfold wrap.
        replace (len inp' =? 0) with false by (symmetry; apply N.eqb_neq; lia).
        exists s'. split; [reflexivity|].
        intros Hqn. specialize (Hfin Hqn). rewrite <- app_assoc in Hfin. exact Hfin.
Qed.

(** * From the initial state *)
Lemma payload_nonnil datas : datas_ok tab0 datas -> concat datas <> [].
Proof.
  intros Hd. unfold datas_ok in Hd.
  destruct (Forall2_nonnil_inv _ _ _ Hd req_nonnil) as (e & d & es & ds & Hr & -> & (Hl & _) & _).
  assert (Hin : In e ridx) by (rewrite Hr; left; reflexivity).
  cbn [concat]. intros Hx. apply app_eq_nil in Hx. destruct Hx as [Hx _]. subst d.
  pose proof (req_nz e Hin) as Hp. cbn in Hl. lia.
Qed.

(** PREFIX LEMMA: every non-empty prefix of the payload is swallowed whole; the whole
    payload ends with all targets valid and all bytes placed *)
Lemma dlw_prefix datas fpos file p q :
  datas_ok tab0 datas -> p <> [] -> p ++ q = concat datas ->
  exists s', dlw (init fpos file tab0) p = (s', DOk (len p)) /\
    (q = [] -> tab_spec ridx (d_tab s') /\ file_spec ridx datas (d_file s')).
Proof.
  intros Hd Hp Hq. change (Forall2 dat_ok ridx datas) in Hd.
  destruct (Forall2_nonnil_inv _ _ _ Hd req_nonnil) as (e0 & d0 & post & dpost & Hr & -> & Hd0 & Hpost).
  assert (Hr' : ridx = [] ++ e0 :: post) by exact Hr.
  assert (Hin0 : In e0 ridx) by (rewrite Hr; left; reflexivity).
  destruct (req_entry e0 Hin0) as (c0 & Hc0 & Hv0 & Hlc0 & Hdg0 & Hpos0).
  assert (Ht0 : tab0 <> []) by (intros Hx; rewrite Hx in Hc0; destruct (r_tgt e0); discriminate).
  assert (Hst0 : r_start e0 = 0).
  { pose proof req_starts as Hst. rewrite Hr in Hst. cbn [starts_ok] in Hst. tauto. }
  set (cur := if (1 <? length ridx)%nat then Some 1%nat else None).
  assert (Hstep : dstep (init fpos file tab0) p = SMore (selst e0 c0 cur file tab0) 0).
  { unfold DlProofs.dstep, init. prj.
    replace (guard ridx _) with false by (symmetry; apply guard_false; split; [apply req_nonnil|exact Ht0]).
    unfold dl_write, wbf. prj. rewrite N.ltb_irrefl. cbn [negb]. prj. rewrite N.eqb_refl.
    unfold DlWrite.settle, DlWrite.set_chunk_valid. prj. cbn [negb].
    rewrite (select_found _ 0%nat e0 post c0).
    - prj. unfold selst, cur. rewrite Hst0.
      replace (0 <? r_len e0) with true by (symmetry; apply N.ltb_lt; exact Hpos0).
      replace (0 <? len p) with true by (symmetry; apply N.ltb_lt; apply nonnil_len_pos; exact Hp).
      reflexivity.
    - reflexivity.
    - cbn [skipn]. exact Hr.
    - prj. apply entry_matches_ok; assumption. }
  unfold DlWrite.dlw. rewrite dlw_f_S, Hstep. cbn [N.to_nat skipn].
  destruct (run_from_sel post [] e0 [] d0 dpost c0 cur file tab0 (S (length p)) p q)
    as (s' & Hrun & Hfin); try assumption.
  - constructor.
  - reflexivity.
  - split; [intros t _; reflexivity|intros e c []].
  - intros j e d c Hj. destruct j; discriminate.
  - lia.
  - rewrite Hrun. unfold wrap.
    replace (len p =? 0) with false
      by (symmetry; apply N.eqb_neq; pose proof (nonnil_len_pos p Hp); lia).
    exists s'. split; [reflexivity|]. exact Hfin.
Qed.

Lemma feed_prefix datas fpos file : datas_ok tab0 datas ->
  forall frags p s, p <> [] -> Forall (fun fr => fr <> []) frags ->
  dlw (init fpos file tab0) p = (s, DOk (len p)) ->
  p ++ concat frags = concat datas ->
  feed s frags = (fst (dlw (init fpos file tab0) (concat datas)), true).
Proof.
  intros Hd. induction frags as [|fr rest IH]; intros p s Hp Hne Hrun Hcat.
  - cbn [concat] in Hcat. rewrite app_nil_r in Hcat. subst p. rewrite Hrun. reflexivity.
  - inversion Hne as [|x l Hfr Hrest]; subst.
    cbn [concat] in Hcat. rewrite app_assoc in Hcat.
    destruct (dlw_prefix datas fpos file (p ++ fr) (concat rest) Hd) as (s2 & Hrun2 & _).
    { destruct p; [congruence|discriminate]. }
    { exact Hcat. }
    pose proof (dlw_app H doff ridx req_nz (init fpos file tab0) p fr s (len p) Hp Hfr Hrun) as Hlaw.
    rewrite Hrun2 in Hlaw. cbn [feed].
    destruct (dlw s fr) as [s'' r]. inversion Hlaw as [[Hs Hres]].
    destruct r as [m| |]; cbn [dcomb] in Hres; try discriminate.
    inversion Hres as [Hm]. rewrite len_app in Hm.
    assert (m = len fr) by lia. subst m. subst s''. rewrite N.eqb_refl.
    apply (IH (p ++ fr)).
    + destruct p; [congruence|discriminate].
    + exact Hrest.
    + exact Hrun2.
    + exact Hcat.
Qed.

End WithTab.

(** * T5.2 *)
Theorem dlw_place_oneshot : forall tab0 datas fpos file s',
  req_ok tab0 -> datas_ok tab0 datas ->
  fst (dlw (init fpos file tab0) (concat datas)) = s' ->
  snd (dlw (init fpos file tab0) (concat datas)) = DOk (len (concat datas)) /\
  (forall k e d c, nth_error ridx k = Some e -> nth_error datas k = Some d ->
      nth_error tab0 (r_tgt e) = Some c ->
      (exists c', nth_error (d_tab s') (r_tgt e) = Some c' /\ c_valid c' = VValid) /\
      fread (d_file s') (doff + c_start c) (length d) = d) /\
  (forall t, ~ In t (map r_tgt ridx) -> nth_error (d_tab s') t = nth_error tab0 t).
Proof.
  intros tab0 datas fpos file s' Hreq Hd Hs.
  destruct (dlw_prefix tab0 Hreq datas fpos file (concat datas) [] Hd
              (payload_nonnil tab0 Hreq datas Hd) (app_nil_r _)) as (s1 & Hrun & Hfin).
  rewrite Hrun in Hs. cbn [fst] in Hs. subst s1. rewrite Hrun. cbn [snd].
  destruct (Hfin eq_refl) as [[Ht1 Ht2] Hf].
  split; [reflexivity|]. split.
  - intros k e d c He Hdk Hc. split.
    + eexists. split; [apply (Ht2 e c); [eapply nth_error_In; exact He|exact Hc]|reflexivity].
    + exact (Hf k e d c He Hdk Hc).
  - exact Ht1.
Qed.

Theorem dlw_place_any_partition : forall tab0 datas fpos file frags,
  req_ok tab0 -> datas_ok tab0 datas ->
  Forall (fun fr => fr <> []) frags -> concat frags = concat datas ->
  feed (init fpos file tab0) frags = (fst (dlw (init fpos file tab0) (concat datas)), true).
Proof.
  intros tab0 datas fpos file frags Hreq Hd Hne Hcat.
  destruct frags as [|fr rest].
  - exfalso. apply (payload_nonnil tab0 Hreq datas Hd). rewrite <- Hcat. reflexivity.
  - inversion Hne as [|x l Hfr Hrest]; subst. cbn [concat] in Hcat.
    destruct (dlw_prefix tab0 Hreq datas fpos file fr (concat rest) Hd Hfr Hcat) as (s1 & Hrun & _).
    cbn [feed]. rewrite Hrun, N.eqb_refl.
    apply (feed_prefix tab0 Hreq datas fpos file Hd rest fr s1 Hfr Hrest Hrun Hcat).
Qed.

End Place.

Print Assumptions dlw_place_oneshot.
Print Assumptions dlw_place_any_partition.

(** * Non-vacuity: a concrete instance
    Four chunks in the target, the range asks for chunk 2 and then chunk 0 (not in file
    order).  The hypotheses of the theorems hold, and the computed run agrees with them. *)
Module PlaceExample.
Definition toyH (bs : bytes) : bytes := [N.of_nat (length bs); fold_left N.add bs 0 mod 256].
Definition x0 : bytes := [1; 2; 3].
Definition x1 : bytes := [10; 20].
Definition x2 : bytes := [7; 7; 7; 7].
Definition x3 : bytes := [9].
Definition xtab : list chunk :=
  [mkChunk 0 3 (toyH x0) VUnknown; mkChunk 3 2 (toyH x1) VUnknown;
   mkChunk 5 4 (toyH x2) VFailed; mkChunk 9 1 (toyH x3) VUnknown].
Definition xridx : list rentry := [mkRentry 0 4 (toyH x2) 2; mkRentry 4 3 (toyH x0) 0].
Definition xdatas : list bytes := [x2; x0].
Definition xdoff : N := 5.
Definition xfile : bytes := [255; 254; 253].   (* a stub of the header, shorter than doff *)

Example x_req_ok : req_ok xdoff xridx xtab.
Proof.
  unfold req_ok. split; [|split; [|split; [|split]]].
  - cbn. repeat constructor; cbn; intuition discriminate.
  - cbn. repeat split.
  - intros t1 t2 c1 c2 x Hne H1 H2 [Ha Hb] [Hc Hd].
    repeat (destruct t1 as [|t1]; cbn [nth_error xtab] in H1; try discriminate);
    repeat (destruct t2 as [|t2]; cbn [nth_error xtab] in H2; try discriminate);
    try congruence; inversion H1; inversion H2; subst; unfold xdoff in *;
    cbn [c_start c_len] in *; lia.
  - discriminate.
  - intros e [<-|[<-|[]]]; eexists; (split; [reflexivity|]); cbn;
      repeat split; try discriminate; lia.
Qed.

Example x_datas_ok : datas_ok toyH xridx xtab xdatas.
Proof.
  unfold datas_ok, xridx, xdatas.
  repeat constructor; eexists; (split; [reflexivity|]); vm_compute; reflexivity.
Qed.

(** the one-shot run: 7 bytes consumed, chunks 2 and 0 valid, the others untouched,
    the bytes where they belong (the gap behind the short file is zero-filled) *)
Example x_oneshot :
  let r := dlw toyH xdoff xridx (init 0 xfile xtab) (concat xdatas) in
  snd r = DOk 7 /\
  map c_valid (d_tab (fst r)) = [VValid; VUnknown; VValid; VUnknown] /\
  d_file (fst r) = [255; 254; 253; 0; 0; 1; 2; 3; 0; 0; 7; 7; 7; 7].
Proof. vm_compute. repeat split; reflexivity. Qed.

(** one byte per call, and an uneven split: same final state, every call successful *)
Example x_bytewise :
  feed toyH xdoff xridx (init 0 xfile xtab) (map (fun b => [b]) (concat xdatas))
  = (fst (dlw toyH xdoff xridx (init 0 xfile xtab) (concat xdatas)), true) /\
  feed toyH xdoff xridx (init 0 xfile xtab) [[7; 7]; [7; 7; 1]; [2; 3]]
  = (fst (dlw toyH xdoff xridx (init 0 xfile xtab) (concat xdatas)), true).
Proof. vm_compute. split; reflexivity. Qed.

(** the same facts as instances of the theorems *)
Example x_oneshot_thm :
  let s' := fst (dlw toyH xdoff xridx (init 0 xfile xtab) (concat xdatas)) in
  fread (d_file s') (xdoff + 5) 4 = x2 /\ fread (d_file s') (xdoff + 0) 3 = x0.
Proof.
  cbv zeta.
  destruct (dlw_place_oneshot toyH xdoff xridx xtab xdatas 0 xfile _ x_req_ok x_datas_ok eq_refl)
    as (_ & Hp & _).
  split.
  - exact (proj2 (Hp 0%nat _ x2 (mkChunk 5 4 (toyH x2) VFailed) eq_refl eq_refl eq_refl)).
  - exact (proj2 (Hp 1%nat _ x0 (mkChunk 0 3 (toyH x0) VUnknown) eq_refl eq_refl eq_refl)).
Qed.
End PlaceExample.
