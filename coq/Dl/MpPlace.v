(** Placement through the multipart layer: [multipart_extract], instantiated with the
    literal matcher, hands a well-formed multipart/byteranges body to the chunk writer
    exactly — for EVERY partition of the body into callback invocations.  Proof only; the
    models are in DlWrite.v / Multipart.v, the body generator in MpGrammar.v.

    The two facts about the literal matcher ([lit_exec_next], [next_match_wf]) are section
    hypotheses here; they are proved in LiteralProofs.v. *)
From ZV Require Import Base.Bytes Dl.DlWrite Dl.Multipart Dl.FileLemmas Dl.DlProofs Dl.MpStream
  Dl.MpSafe Dl.DlInv Dl.DlPlace Dl.C05Final Dl.LiteralMatcher Dl.MpGrammar.
Local Open Scope N_scope.

(** * The scan, in terms of the positions of CR LF CR LF *)
Definition at4 (s : bytes) (k : nat) : Prop :=
  nth_error s k = Some 13 /\ nth_error s (S k) = Some 10 /\
  nth_error s (S (S k)) = Some 13 /\ nth_error s (S (S (S k))) = Some 10.

Lemma cond4_true (a b c d : N) :
  (a =? 13) && (b =? 10) && (c =? 13) && (d =? 10) = true <->
  a = 13 /\ b = 10 /\ c = 13 /\ d = 10.
Proof.
  rewrite !andb_true_iff, !N.eqb_eq. tauto.
Qed.

Lemma scan_none_spec : forall (s : bytes) (j : N),
  (forall k, (k + 4 < length s)%nat -> ~ at4 s k) -> scan s (len s) j = ScanNone.
Proof.
  induction s as [|a t IH]; intros j Hn.
  - reflexivity.
  - rewrite scan_cons. destruct (len (a :: t) <=? 4) eqn:E; [reflexivity|].
    apply N.leb_gt in E.
    destruct t as [|b [|c [|d t']]]; try (exfalso; unfold len in E; cbn [length] in E; lia).
    destruct ((a =? 13) && (b =? 10) && (c =? 13) && (d =? 10)) eqn:Eb.
    + exfalso. apply (Hn 0%nat).
      * unfold len in E. cbn [length] in *. lia.
      * apply cond4_true in Eb. destruct Eb as (-> & -> & -> & ->).
        unfold at4. cbn [nth_error]. auto.
    + replace (len (a :: b :: c :: d :: t') - 1) with (len (b :: c :: d :: t'))
        by (rewrite (len_cons a); lia).
      apply IH. intros k Hk Hat. apply (Hn (S k)).
      * cbn [length] in *. lia.
      * exact Hat.
Qed.

Lemma scan_found_spec : forall (k : nat) (s : bytes) (j : N),
  at4 s k -> (k + 4 < length s)%nat -> (forall i, (i < k)%nat -> ~ at4 s i) ->
  scan s (len s) j = ScanFound (j + N.of_nat k).
Proof.
  induction k as [|k IH]; intros s j Hat Hlen Hno.
  - destruct s as [|a [|b [|c [|d t']]]]; cbn [length] in Hlen; try lia.
    rewrite scan_cons.
    replace (len (a :: b :: c :: d :: t') <=? 4) with false
      by (symmetry; apply N.leb_gt; unfold len; cbn [length]; lia).
    destruct Hat as (E1 & E2 & E3 & E4). cbn [nth_error] in *.
    inversion E1; inversion E2; inversion E3; inversion E4; subst.
    cbn [N.eqb Pos.eqb andb]. f_equal. lia.
  - destruct s as [|a t]; cbn [length] in Hlen; try lia.
    rewrite scan_cons.
    replace (len (a :: t) <=? 4) with false
      by (symmetry; apply N.leb_gt; unfold len; cbn [length]; lia).
    destruct t as [|b [|c [|d t']]]; cbn [length] in Hlen; try lia.
    destruct ((a =? 13) && (b =? 10) && (c =? 13) && (d =? 10)) eqn:Eb.
    + exfalso. apply (Hno 0%nat); [lia|].
      apply cond4_true in Eb. destruct Eb as (-> & -> & -> & ->).
      unfold at4. cbn [nth_error]. auto.
    + replace (len (a :: b :: c :: d :: t') - 1) with (len (b :: c :: d :: t'))
        by (rewrite (len_cons a); lia).
      rewrite (IH (b :: c :: d :: t') (j + 1)).
      * f_equal. lia.
      * exact Hat.
      * cbn [length]. lia.
      * intros i Hi Hx. apply (Hno (S i)); [lia|]. exact Hx.
Qed.

Lemma at4_app (G t : bytes) : at4 (G ++ 13 :: 10 :: 13 :: 10 :: t) (length G).
Proof.
  induction G as [|a G IH]; cbn [app length].
  - unfold at4. cbn [nth_error]. auto.
  - exact IH.
Qed.

(** * Header-like byte strings: plain bytes and CRLFs, no CRLF directly followed by CR *)
Inductive hl : bytes -> Prop :=
| hl_nil : hl []
| hl_plain c s : plain_byte c -> hl s -> hl (c :: s)
| hl_crlf s : hd 0 s <> 13 -> hl s -> hl (13 :: 10 :: s).

Lemma hl_app_plain (a b : bytes) : Forall plain_byte a -> hl b -> hl (a ++ b).
Proof. induction 1; intros Hb; cbn [app]; [exact Hb|]. apply hl_plain; auto. Qed.

Lemma hl_app (a b : bytes) : hl a -> hl b -> hd 0 b <> 13 -> hl (a ++ b).
Proof.
  induction 1 as [|c s Hc Hs IH|s Hh Hs IH]; intros Hb Hhb; cbn [app].
  - exact Hb.
  - apply hl_plain; auto.
  - apply hl_crlf; [|auto]. destruct s; cbn [app hd] in *; auto.
Qed.

Lemma hl_nz (s : bytes) : hl s -> Forall (fun c => c <> 0) s.
Proof.
  induction 1 as [|c s Hc Hs IH|s Hh Hs IH].
  - constructor.
  - constructor; [exact (proj1 Hc)|exact IH].
  - constructor; [discriminate|]. constructor; [discriminate|exact IH].
Qed.

Lemma hl_no_lfcr (s : bytes) : hl s -> forall k,
  nth_error s k = Some 10 -> nth_error s (S k) = Some 13 -> False.
Proof.
  induction 1 as [|c s Hc Hs IH|s Hh Hs IH]; intros k H1 H2.
  - destruct k; discriminate.
  - destruct k as [|k]; cbn [nth_error] in *.
    + inversion H1; subst. destruct Hc as (_ & _ & Hx). congruence.
    + eapply IH; eauto.
  - destruct k as [|[|k]]; cbn [nth_error] in *.
    + discriminate.
    + destruct s as [|x s']; cbn [nth_error hd] in *; [discriminate|].
      inversion H2; subst. congruence.
    + eapply IH; eauto.
Qed.

Lemma nth_error_prefix (y q : bytes) k c : nth_error y k = Some c -> nth_error (y ++ q) k = Some c.
Proof.
  intros Hk. rewrite nth_error_app1; [exact Hk|]. apply nth_error_Some. congruence.
Qed.

Lemma no_at4 (X y q z : bytes) k :
  hl X -> y ++ q = X ++ z -> (k + 2 < length X)%nat -> ~ at4 y k.
Proof.
  intros Hhl E Hk (_ & H1 & H2 & _).
  apply (nth_error_prefix y q) in H1. apply (nth_error_prefix y q) in H2.
  rewrite E in H1, H2. rewrite nth_error_app1 in H1, H2 by lia.
  eapply hl_no_lfcr; eauto.
Qed.

(** a truncated header-like region holds no complete terminator *)
Lemma scan_none_hl (X y q z : bytes) :
  hl X -> y ++ q = X ++ z -> (length y <= length X + 2)%nat -> scan y (len y) 0 = ScanNone.
Proof.
  intros Hhl E Hl. apply scan_none_spec. intros k Hk. eapply no_at4; eauto. lia.
Qed.

Lemma cstr_nz (s r : bytes) : Forall (fun c => c <> 0) s -> cstr (s ++ 0 :: r) = Some s.
Proof.
  induction 1 as [|c s Hc Hs IH]; cbn [app cstr].
  - reflexivity.
  - replace (c =? 0) with false by (symmetry; apply N.eqb_neq; exact Hc).
    rewrite IH. reflexivity.
Qed.

(** * The generator's header region *)
Lemma plain_lower c : plain_byte (lower c) -> plain_byte c.
Proof.
  unfold lower, plain_byte. destruct ((65 <=? c) && (c <=? 90)) eqn:E; [|tauto].
  apply andb_true_iff in E. destruct E as [E _]. apply N.leb_le in E. intros _. lia.
Qed.

Lemma plain_map_lower (l k : bytes) : map lower l = k -> Forall plain_byte k -> Forall plain_byte l.
Proof.
  intros <-. induction l as [|c l IH]; cbn [map]; intros Hf; [constructor|].
  inversion Hf; subst. constructor; [apply plain_lower; assumption|auto].
Qed.

Lemma plain_kw_cr : Forall plain_byte kw_cr.
Proof. unfold kw_cr. repeat constructor; unfold plain_byte; lia. Qed.

Lemma plain_kw_bytes : Forall plain_byte kw_bytes.
Proof. unfold kw_bytes. repeat constructor; unfold plain_byte; lia. Qed.

Lemma plain_sp n : Forall plain_byte (sp n).
Proof.
  unfold sp. induction n; cbn [repeat]; constructor; [unfold plain_byte; lia|assumption].
Qed.

Lemma plain_digits d : digits_ok d -> Forall plain_byte d.
Proof.
  intros [_ Hd]. induction Hd as [|c l Hc Hl IH]; constructor; [|exact IH].
  unfold is_dg in Hc. apply andb_true_iff in Hc. destruct Hc as [H1 H2].
  apply N.leb_le in H1. apply N.leb_le in H2. unfold plain_byte. lia.
Qed.

Lemma plain_cr_line p : part_hdr_ok p -> Forall plain_byte (cr_line p) /\ cr_line p <> [].
Proof.
  intros (_ & _ & _ & Hkw & Hby & Hda & Hdb & Hdt & _). split.
  - unfold cr_line. repeat (apply Forall_app; split);
      try apply plain_sp; try (apply plain_digits; assumption).
    + eapply plain_map_lower; [exact Hkw|apply plain_kw_cr].
    + eapply plain_map_lower; [exact Hby|apply plain_kw_bytes].
    + repeat constructor; unfold plain_byte; lia.
    + repeat constructor; unfold plain_byte; lia.
  - unfold cr_line. destruct (p_kw p); [discriminate Hkw|discriminate].
Qed.

Lemma hd_plain_app (l z : bytes) : l <> [] -> Forall plain_byte l -> hd 0 (l ++ z) <> 13.
Proof.
  intros Hn Hf. destruct l as [|c l]; [congruence|]. inversion Hf; subst. cbn [app hd].
  match goal with Hc : plain_byte c |- _ => destruct Hc as (_ & Hc & _); exact Hc end.
Qed.

Lemma render_lines_cons l ls : render_lines (l :: ls) = l ++ crlf ++ render_lines ls.
Proof. unfold render_lines. cbn [map concat]. rewrite <- app_assoc. reflexivity. Qed.

Lemma hd_lines ls z : Forall line_ok ls -> hd 0 z <> 13 -> hd 0 (render_lines ls ++ z) <> 13.
Proof.
  intros Hl Hz. destruct ls as [|l ls]; [exact Hz|].
  inversion Hl as [|x y [Hn Hp] Hrest]; subst. rewrite render_lines_cons, <- app_assoc.
  apply hd_plain_app; assumption.
Qed.

Lemma hd_lines0 ls : Forall line_ok ls -> hd 0 (render_lines ls) <> 13.
Proof.
  intros Hl. rewrite <- (app_nil_r (render_lines ls)). apply hd_lines; [exact Hl|].
  cbn [hd]. discriminate.
Qed.

Lemma hl_lines ls : Forall line_ok ls -> hl (render_lines ls).
Proof.
  induction 1 as [|l ls [Hn Hp] Hls IH]; [constructor|].
  rewrite render_lines_cons. apply hl_app_plain; [exact Hp|].
  unfold crlf. cbn [app]. apply hl_crlf; [apply hd_lines0; exact Hls|exact IH].
Qed.

Lemma lines_end : forall ls (w : bytes), exists w', w ++ crlf ++ render_lines ls = w' ++ crlf.
Proof.
  induction ls as [|l ls IH]; intros w.
  - exists w. unfold render_lines. cbn [map concat]. rewrite app_nil_r. reflexivity.
  - rewrite render_lines_cons. destruct (IH (w ++ crlf ++ l)) as [w' Hw'].
    exists w'. rewrite <- Hw'. rewrite <- !app_assoc. reflexivity.
Qed.

(** the part header without the last two bytes of the blank line *)
Definition hdr_x (B : bytes) (p : mpart) : bytes :=
  hdr_head B p ++ cr_line p ++ crlf ++ render_lines (p_after p).

Lemma hl_hdr_x B p : boundary_ok B -> part_hdr_ok p -> hl (hdr_x B p).
Proof.
  intros HB Hh. destruct (plain_cr_line p Hh) as [Hcp Hcn].
  destruct Hh as (Hpre & Hbef & Haft & _).
  unfold hdr_x, hdr_head, p_lead. rewrite <- !app_assoc.
  apply hl_app_plain; [exact Hpre|].
  assert (Hmain : hl ([45; 45] ++ B ++ crlf ++ render_lines (p_before p) ++ cr_line p ++ crlf ++
                      render_lines (p_after p))).
  { apply hl_app_plain; [repeat constructor; unfold plain_byte; lia|].
    apply hl_app_plain; [exact HB|].
    unfold crlf at 1. cbn [app]. apply hl_crlf.
    - apply hd_lines; [exact Hbef|]. apply hd_plain_app; assumption.
    - apply hl_app; [apply hl_lines; exact Hbef| |apply hd_plain_app; assumption].
      apply hl_app_plain; [exact Hcp|].
      unfold crlf. cbn [app]. apply hl_crlf; [apply hd_lines0; exact Haft|apply hl_lines; exact Haft]. }
  destruct (p_crlf p).
  - unfold crlf at 1. cbn [app]. apply hl_crlf; [cbn [hd]; lia|exact Hmain].
  - cbn [app]. exact Hmain.
Qed.

Lemma hdr_shape B p : boundary_ok B -> part_hdr_ok p ->
  exists G, hstr B p = G ++ [13; 10; 13] /\ part_header B p = G ++ [13; 10; 13; 10] /\
            hl (G ++ [13; 10]).
Proof.
  intros HB Hh. pose proof (hl_hdr_x B p HB Hh) as Hx.
  destruct (lines_end (p_after p) (hdr_head B p ++ cr_line p)) as [G HG].
  assert (Ex : hdr_x B p = G ++ crlf).
  { rewrite <- HG. unfold hdr_x. rewrite <- !app_assoc. reflexivity. }
  exists G. split; [|split].
  - transitivity (hdr_x B p ++ [13]).
    + unfold hstr, hdr_x. rewrite <- !app_assoc. reflexivity.
    + rewrite Ex. rewrite <- app_assoc. reflexivity.
  - transitivity (hdr_x B p ++ crlf).
    + unfold part_header, hdr_x. rewrite <- !app_assoc. reflexivity.
    + rewrite Ex. rewrite <- app_assoc. reflexivity.
  - rewrite Ex in Hx. exact Hx.
Qed.

Lemma hl_closing B : boundary_ok B -> hl (closing B).
Proof.
  intros HB. unfold closing, crlf. cbn [app]. apply hl_crlf; [cbn [hd]; lia|].
  apply hl_plain; [unfold plain_byte; lia|]. apply hl_plain; [unfold plain_byte; lia|].
  apply hl_app_plain; [exact HB|].
  apply hl_plain; [unfold plain_byte; lia|]. apply hl_plain; [unfold plain_byte; lia|].
  apply hl_crlf; [cbn [hd]; lia|constructor].
Qed.

Lemma closing_nonnil B : closing B <> [].
Proof. unfold closing, crlf. cbn [app]. discriminate. Qed.

(** * [dlw] reporting success never leaves the sticky error set *)
Lemma settle_err H doff ridx s1 s2 : settle H doff ridx s1 = (s2, true) -> d_err s2 = d_err s1.
Proof.
  unfold settle. destruct (set_chunk_valid H doff s1) as [sv ok] eqn:Ev.
  destruct ok; [|discriminate]. intros E; inversion E; subst.
  destruct (scv_ok _ _ _ _ Ev) as (He & _).
  rewrite <- He. unfold select. destruct (search _ _ _ _) as [[[k e] c]|]; reflexivity.
Qed.

Lemma dlw_f_ok_err H doff ridx : forall f s bs s' n,
  dlw_f H doff ridx f s bs = (s', DOk n) -> d_err s' = false.
Proof.
  induction f as [|f IH]; intros s bs s' n Hrun.
  - cbn [dlw_f] in Hrun. discriminate.
  - rewrite dlw_f_S in Hrun. destruct (dstep H doff ridx s bs) as [s2 r|s2 wb] eqn:Es.
    + inversion Hrun; subst s2 r. clear Hrun.
      destruct (dstep_done_facts _ _ _ _ _ _ _ Es) as (He & _ & s1 & Hw & _ & Hset & _).
      destruct (dl_write_ok _ _ _ Hw) as (He1 & _).
      destruct Hset as [[_ Hst]|[_ ->]].
      * rewrite (settle_err _ _ _ _ _ Hst). congruence.
      * congruence.
    + destruct (dlw_f H doff ridx f s2 (skipn (N.to_nat wb) bs)) as [s3 r3] eqn:E3.
      unfold wrap in Hrun. destruct r3 as [m| |]; try discriminate.
      destruct (m =? 0); [discriminate|]. inversion Hrun; subst.
      eapply IH; eauto.
Qed.

Lemma dlw_ok_err H doff ridx s bs s' n :
  dlw H doff ridx s bs = (s', DOk n) -> d_err s' = false.
Proof. unfold dlw. apply dlw_f_ok_err. Qed.

(** * [mpx] never touches the boundary *)
Lemma mpx_boundary H doff ridx rx_comp rx_exec x b :
  x_boundary (fst (mpx H doff ridx rx_comp rx_exec x b)) = x_boundary x.
Proof.
  unfold mpx. destruct (d_err (x_dl x)); [reflexivity|]. cbv zeta.
  destruct (match x_rx x with Some r => Some r | None => _ end) as [[pn pe]|]; [|reflexivity].
  destruct (mp_loop _ _ _ _ _ _ _ _ _ _ _) as [[dl' mp'] r]. reflexivity.
Qed.

Section MpPlace.
Variable H : bytes -> bytes.
Variable doff : N.
Variable ridx : list rentry.

Hypothesis lit_exec_next : forall B str, lit_exec (pat_next B) str = next_match B str.
Hypothesis next_match_wf : forall B p rest,
  boundary_ok B -> part_hdr_ok p ->
  exists so1 eo1 so2 eo2,
    next_match B (hstr B p) = Some ((so1, eo1), (so2, eo2)) /\
    take_exact (hstr B p ++ rest) so1 (eo1 - so1) = Some (p_da p) /\
    take_exact (hstr B p ++ rest) so2 (eo2 - so2) = Some (p_db p).

Definition x_init (B : bytes) (fpos : N) (file : bytes) (tab0 : list chunk) : xstate :=
  mkX (init fpos file tab0) (mkMp false 0 []) (Some B) None.
Definition wf_body (B : bytes) (parts : list mpart) (datas : list bytes) : Prop :=
  boundary_ok B /\ Forall part_ok parts /\ parts <> [] /\ concat (map p_data parts) = concat datas.
Notation mpxL := (mpx H doff ridx lit_comp lit_exec).

Notation loop := (mp_loop H doff ridx lit_exec).
Notation step := (mp_step H doff ridx lit_exec).
Notation dlw' := (dlw H doff ridx).

(** ** One iteration *)
Lemma loop_inl fuel pn pe dl st mlen isuf r :
  step pn pe dl st mlen isuf = inl r ->
  snd (loop fuel pn pe dl st mlen isuf) <> MFuel ->
  loop fuel pn pe dl st mlen isuf = r.
Proof.
  intros Es Hf. destruct fuel as [|f]; [cbn [mp_loop snd] in Hf; congruence|].
  rewrite mp_loop_S, Es. reflexivity.
Qed.

Lemma loop_inr fuel pn pe dl st mlen isuf dl' st' mlen' i' :
  step pn pe dl st mlen isuf = inr (dl', st', mlen', i') ->
  snd (loop fuel pn pe dl st mlen isuf) <> MFuel ->
  exists f, loop fuel pn pe dl st mlen isuf = loop f pn pe dl' st' mlen' i' /\
            snd (loop f pn pe dl' st' mlen' i') <> MFuel.
Proof.
  intros Es Hf. destruct fuel as [|f]; [cbn [mp_loop snd] in Hf; congruence|].
  rewrite mp_loop_S, Es in Hf. cbn [mp_next] in Hf.
  exists f. split; [|exact Hf]. rewrite mp_loop_S, Es. reflexivity.
Qed.

(** header iteration on a buffer that ends inside a header-like region: save and leave *)
Lemma step_hdr_none pn pe dl mlen y :
  y <> [] -> scan y (len y) 0 = ScanNone ->
  step pn pe dl false mlen y = inl ((dl, mkMp false mlen y), MOk).
Proof.
  intros Hy Hs. rewrite mp_step_ne by exact Hy. unfold hdr_step. rewrite Hs. reflexivity.
Qed.

(** header iteration on a complete part header followed by at least one byte *)
Lemma step_hdr_found B p dl mlen d :
  boundary_ok B -> part_ok p -> d <> [] ->
  step (pat_next B) (pat_end B) dl false mlen (part_header B p ++ d) =
  inr (dl, true, len (p_data p), d).
Proof.
  intros HB (Hh & Hdn & Hlen) Hd.
  destruct (hdr_shape B p HB Hh) as (G & Ehs & Eph & Hhl).
  assert (Hnz : Forall (fun c => c <> 0) (hstr B p)).
  { rewrite Ehs. apply hl_nz in Hhl. apply Forall_app in Hhl. destruct Hhl as [HG _].
    apply Forall_app. split; [exact HG|]. repeat constructor; discriminate. }
  assert (Hlh : length (hstr B p) = (length G + 3)%nat).
  { rewrite Ehs, app_length. reflexivity. }
  assert (Ebuf : part_header B p ++ d = hstr B p ++ 10 :: d).
  { rewrite Eph, Ehs, <- !app_assoc. reflexivity. }
  assert (Hdl : (0 < length d)%nat) by (destruct d; [congruence|cbn [length]; lia]).
  assert (Es : scan (part_header B p ++ d) (len (part_header B p ++ d)) 0 =
               ScanFound (0 + N.of_nat (length G))).
  { apply scan_found_spec.
    - rewrite Eph, <- app_assoc. cbn [app]. apply at4_app.
    - rewrite Eph, !app_length. cbn [length]. lia.
    - intros i Hi. apply (no_at4 (G ++ [13; 10]) _ [] ([13; 10] ++ d) i Hhl).
      + rewrite app_nil_r, Eph, <- !app_assoc. reflexivity.
      + rewrite app_length. cbn [length]. lia. }
  rewrite mp_step_ne by (apply app_ne_l; rewrite Eph; destruct G; discriminate).
  unfold hdr_step. rewrite Es. rewrite Ebuf.
  replace (N.to_nat (0 + N.of_nat (length G) + 3)) with (length (hstr B p)) by lia.
  replace (N.to_nat (0 + N.of_nat (length G) + 4)) with (S (length (hstr B p))) by lia.
  rewrite firstn_app_le by lia. rewrite firstn_all.
  replace (skipn (S (length (hstr B p))) (hstr B p ++ 10 :: d)) with d.
  2:{ rewrite skipn_app, skipn_all2 by lia.
      replace (S (length (hstr B p)) - length (hstr B p))%nat with 1%nat by lia. reflexivity. }
  rewrite (cstr_nz _ _ Hnz). rewrite lit_exec_next.
  destruct (next_match_wf B p (0 :: d) HB Hh) as (so1 & eo1 & so2 & eo2 & En & Et1 & Et2).
  rewrite En, Et1, Et2. rewrite <- Hlen. reflexivity.
Qed.

(** data iteration with the whole rest of the part in the buffer *)
Lemma step_data_full pn pe dl dl' mlen d r :
  d <> [] -> mlen = len d -> dlw' dl d = (dl', DOk (len d)) ->
  step pn pe dl true mlen (d ++ r) = inr (dl', false, 0, r).
Proof.
  intros Hd -> Hw. rewrite mp_step_ne by (apply app_ne_l; exact Hd).
  unfold data_step, dsize, dst, dmlen.
  replace (len d <=? len (d ++ r)) with true
    by (symmetry; apply N.leb_le; rewrite len_app; lia).
  rewrite to_nat_len. rewrite firstn_app_le by lia. rewrite firstn_all.
  rewrite skipn_app, skipn_all, Nat.sub_diag. cbn [skipn app].
  rewrite Hw. cbn [dret]. rewrite N.eqb_refl. reflexivity.
Qed.

(** data iteration with the buffer ending inside the part *)
Lemma step_data_part pn pe dl dl' mlen y :
  y <> [] -> len y < mlen -> dlw' dl y = (dl', DOk (len y)) ->
  step pn pe dl true mlen y = inr (dl', true, mlen - len y, []).
Proof.
  intros Hy Hlt Hw. rewrite mp_step_ne by exact Hy.
  unfold data_step, dsize, dst, dmlen.
  replace (mlen <=? len y) with false by (symmetry; apply N.leb_gt; exact Hlt).
  rewrite to_nat_len, firstn_all, skipn_all.
  rewrite Hw. cbn [dret]. rewrite N.eqb_refl. reflexivity.
Qed.

(** ** The chunk-writer side: [pl] is the payload delivered so far, [s] the state it left *)
Definition dl_inv (tab0 : list chunk) (fpos : N) (file : bytes) (pl : bytes) (s : dlstate) : Prop :=
  (pl = [] /\ s = init fpos file tab0) \/
  (pl <> [] /\ dlw' (init fpos file tab0) pl = (s, DOk (len pl))).

Lemma dl_inv_err tab0 fpos file pl s : dl_inv tab0 fpos file pl s -> d_err s = false.
Proof.
  intros [[_ ->]|[_ Hrun]]; [reflexivity|]. eapply dlw_ok_err; eauto.
Qed.

Lemma dl_inv_final tab0 datas fpos file s :
  req_ok doff ridx tab0 -> datas_ok H ridx tab0 datas ->
  dl_inv tab0 fpos file (concat datas) s ->
  s = fst (dlw' (init fpos file tab0) (concat datas)).
Proof.
  intros Hreq Hd [[Hnil _]|[_ Hrun]].
  - exfalso. exact (payload_nonnil H doff ridx tab0 Hreq datas Hd Hnil).
  - rewrite Hrun. reflexivity.
Qed.

Lemma dl_step tab0 datas fpos file pl s fr q :
  req_ok doff ridx tab0 -> datas_ok H ridx tab0 datas ->
  dl_inv tab0 fpos file pl s -> fr <> [] -> (pl ++ fr) ++ q = concat datas ->
  exists s', dlw' s fr = (s', DOk (len fr)) /\ dl_inv tab0 fpos file (pl ++ fr) s'.
Proof.
  intros Hreq Hd Hinv Hfr Hq.
  assert (Hne : pl ++ fr <> []) by (destruct pl; [exact Hfr|discriminate]).
  destruct (dlw_prefix H doff ridx tab0 Hreq datas fpos file (pl ++ fr) q Hd Hne Hq)
    as (s2 & Hrun2 & _).
  destruct Hinv as [[-> ->]|[Hpl Hrun]].
  - cbn [app] in *. exists s2. split; [exact Hrun2|]. right. split; assumption.
  - pose proof (dlw_app H doff ridx (req_nz doff ridx tab0 Hreq) (init fpos file tab0) pl fr s
                        (len pl) Hpl Hfr Hrun) as Hlaw.
    rewrite Hrun2 in Hlaw.
    destruct (dlw' s fr) as [s'' r] eqn:Es. inversion Hlaw as [[Hs Hres]].
    destruct r as [m| |]; cbn [dcomb] in Hres; try discriminate.
    inversion Hres as [Hm]. rewrite len_app in Hm.
    assert (m = len fr) by lia. subst m. subst s''.
    exists s2. split; [reflexivity|]. right. split; assumption.
Qed.

(** ** The loop over the remaining parts *)
Definition rest_body (B : bytes) (parts : list mpart) : bytes :=
  concat (map (render_part B) parts) ++ closing B.

Lemma rest_body_cons B p ps :
  rest_body B (p :: ps) = part_header B p ++ p_data p ++ rest_body B ps.
Proof.
  unfold rest_body, render_part. cbn [map concat]. rewrite <- !app_assoc. reflexivity.
Qed.

Lemma rest_body_nonnil B ps : rest_body B ps <> [].
Proof.
  unfold rest_body. intros Hx. apply app_eq_nil in Hx. destruct Hx as [_ Hx].
  exact (closing_nonnil B Hx).
Qed.

Lemma loop_parts tab0 datas fpos file B :
  req_ok doff ridx tab0 -> datas_ok H ridx tab0 datas -> boundary_ok B ->
  forall parts pl s y q fuel,
  Forall part_ok parts -> dl_inv tab0 fpos file pl s ->
  pl ++ concat (map p_data parts) = concat datas ->
  y ++ q = rest_body B parts ->
  snd (loop fuel (pat_next B) (pat_end B) s false 0 y) <> MFuel ->
  exists s' mp', loop fuel (pat_next B) (pat_end B) s false 0 y = ((s', mp'), MOk) /\
    d_err s' = false /\
    (q = [] -> s' = fst (dlw' (init fpos file tab0) (concat datas))).
Proof.
  intros Hreq Hd HB.
  induction parts as [|p ps IH]; intros pl s y q fuel Hparts Hinv Hpl Hy Hfuel.
  - (* only the closing delimiter is left *)
    cbn [map concat] in Hpl. rewrite app_nil_r in Hpl. subst pl.
    unfold rest_body in Hy. cbn [map concat app] in Hy.
    assert (Hstep : exists mp', step (pat_next B) (pat_end B) s false 0 y = inl ((s, mp'), MOk)).
    { destruct (nil_dec y) as [->|Hyn].
      - eexists. apply mp_step_nil.
      - eexists. apply step_hdr_none; [exact Hyn|].
        apply (scan_none_hl (closing B) y q []); [apply hl_closing; exact HB| |].
        + rewrite app_nil_r. exact Hy.
        + apply (f_equal (@length _)) in Hy. rewrite app_length in Hy. lia. }
    destruct Hstep as [mp' Hstep].
    exists s, mp'. split; [apply loop_inl; assumption|].
    split; [eapply dl_inv_err; eauto|]. intros _. eapply dl_inv_final; eauto.
  - inversion Hparts as [|p0 ps0 Hp Hps]; subst p0 ps0.
    rewrite rest_body_cons in Hy. cbn [map concat] in Hpl.
    destruct (hdr_shape B p HB (proj1 Hp)) as (G & Ehs & Eph & Hhl).
    destruct (le_lt_dec (length y) (length (part_header B p))) as [Hle|Hgt].
    + (* the buffer ends inside the header: save it *)
      assert (Hstep : exists mp', step (pat_next B) (pat_end B) s false 0 y = inl ((s, mp'), MOk)).
      { destruct (nil_dec y) as [->|Hyn].
        - eexists. apply mp_step_nil.
        - eexists. apply step_hdr_none; [exact Hyn|].
          apply (scan_none_hl (G ++ [13; 10]) y q ([13; 10] ++ p_data p ++ rest_body B ps) Hhl).
          + rewrite Hy, Eph, <- !app_assoc. reflexivity.
          + rewrite Eph in Hle. rewrite !app_length in *. cbn [length] in *. lia. }
      destruct Hstep as [mp' Hstep].
      exists s, mp'. split; [apply loop_inl; assumption|].
      split; [eapply dl_inv_err; eauto|]. intros ->. exfalso.
      rewrite app_nil_r in Hy. apply (f_equal (@length _)) in Hy.
      rewrite !app_length in Hy. destruct Hp as (_ & Hdn & _).
      destruct (p_data p); [congruence|]. cbn [length] in Hy. lia.
    + (* the header is complete *)
      destruct (app_split (part_header B p) y q (p_data p ++ rest_body B ps) Hy ltac:(lia))
        as (y1 & -> & Hy1).
      assert (Hy1n : y1 <> []).
      { intros ->. rewrite app_nil_r in Hgt. lia. }
      destruct (loop_inr _ _ _ _ _ _ _ _ _ _ _ (step_hdr_found B p s 0 y1 HB Hp Hy1n) Hfuel)
        as (f1 & Hl1 & Hf1).
      rewrite Hl1. clear Hl1 Hfuel.
      pose proof Hp as (_ & Hdn & _).
      destruct (le_lt_dec (length (p_data p)) (length y1)) as [Hfull|Hpart].
      * (* the whole payload of the part is there *)
        destruct (app_split (p_data p) y1 q (rest_body B ps) Hy1 Hfull) as (y2 & -> & Hy2).
        destruct (dl_step tab0 datas fpos file pl s (p_data p) (concat (map p_data ps))
                          Hreq Hd Hinv Hdn) as (s1 & Hw & Hinv1).
        { rewrite <- app_assoc. exact Hpl. }
        destruct (loop_inr _ _ _ _ _ _ _ _ _ _ _
                    (step_data_full (pat_next B) (pat_end B) s s1 _ (p_data p) y2 Hdn eq_refl Hw) Hf1)
          as (f2 & Hl2 & Hf2).
        rewrite Hl2.
        apply (IH (pl ++ p_data p) s1 y2 q f2 Hps Hinv1); [|exact Hy2|exact Hf2].
        rewrite <- app_assoc. exact Hpl.
      * (* the buffer ends inside the payload *)
        destruct (app_split y1 (p_data p) (rest_body B ps) q (eq_sym Hy1) ltac:(lia))
          as (z & Ez & Hz).
        destruct (dl_step tab0 datas fpos file pl s y1 (z ++ concat (map p_data ps))
                          Hreq Hd Hinv Hy1n) as (s1 & Hw & Hinv1).
        { rewrite <- Hpl, Ez, <- !app_assoc. reflexivity. }
        assert (Hlt : len y1 < len (p_data p)) by (unfold len; lia).
        destruct (loop_inr _ _ _ _ _ _ _ _ _ _ _
                    (step_data_part (pat_next B) (pat_end B) s s1 _ y1 Hy1n Hlt Hw) Hf1)
          as (f2 & Hl2 & Hf2).
        rewrite Hl2.
        exists s1, (mkMp true (len (p_data p) - len y1) []).
        split; [apply loop_inl; [apply mp_step_nil|exact Hf2]|].
        split; [eapply dl_inv_err; eauto|]. intros ->. exfalso.
        apply app_eq_nil in Hz. destruct Hz as [_ Hz]. exact (rest_body_nonnil B ps Hz).
Qed.

(** ** [multipart_extract] on a prefix of the body *)
Lemma mpx_init_unfold B fpos file tab0 p :
  mpxL (x_init B fpos file tab0) p =
  let '((dl', mp'), r) :=
    loop (2 * length p + 4) (pat_next B) (pat_end B) (init fpos file tab0) false 0 p in
  (mkX dl' mp' (Some B) (Some (pat_next B, pat_end B)), r).
Proof. reflexivity. Qed.

(** every non-empty prefix of the body, given in ONE call, is accepted (normal exit of the
    loop, no error recorded); the whole body leaves the chunk writer in the state of the
    single dlw call on the payload *)
Theorem mp_prefix : forall tab0 datas B parts fpos file p q,
  req_ok doff ridx tab0 -> datas_ok H ridx tab0 datas -> wf_body B parts datas ->
  p <> [] -> p ++ q = mp_body B parts ->
  exists x', mpxL (x_init B fpos file tab0) p = (x', MOk) /\ d_err (x_dl x') = false /\
    (q = [] -> x_dl x' = fst (dlw H doff ridx (init fpos file tab0) (concat datas))).
Proof.
  intros tab0 datas B parts fpos file p q Hreq Hd (HB & Hparts & _ & Hcat) Hp Hpq.
  rewrite mpx_init_unfold.
  destruct (loop_parts tab0 datas fpos file B Hreq Hd HB parts [] (init fpos file tab0) p q
                       (2 * length p + 4)%nat Hparts)
    as (s' & mp' & Hl & He & Hfin).
  - left. split; reflexivity.
  - exact Hcat.
  - exact Hpq.
  - apply mp_suff. unfold mp_meas. lia.
  - rewrite Hl. eexists. split; [reflexivity|]. split; [exact He|exact Hfin].
Qed.

(** ** Every partition *)
Lemma write_cb_ok B x fr x1 :
  x_boundary x = Some B -> fr <> [] -> mpxL x fr = (x1, MOk) ->
  write_cb H doff ridx lit_comp lit_exec x fr = (x1, true, MOk).
Proof.
  intros Hb Hfr Hrun. unfold write_cb. rewrite Hb, Hrun.
  replace (len (m_buf (x_mp x) ++ fr) =? 0) with false; [reflexivity|].
  symmetry. apply N.eqb_neq. rewrite len_app. pose proof (nonnil_len_pos fr Hfr). lia.
Qed.

Lemma feed_from tab0 datas B parts fpos file :
  req_ok doff ridx tab0 -> datas_ok H ridx tab0 datas -> wf_body B parts datas ->
  forall frags p xp, p <> [] -> Forall (fun fr => fr <> []) frags ->
  p ++ concat frags = mp_body B parts ->
  mpxL (x_init B fpos file tab0) p = (xp, MOk) -> d_err (x_dl xp) = false ->
  exists x' rets,
    feed_frags H doff ridx lit_comp lit_exec xp frags = (x', rets, true) /\
    x_dl x' = fst (dlw H doff ridx (init fpos file tab0) (concat datas)).
Proof.
  intros Hreq Hd Hwf.
  induction frags as [|fr rest IH]; intros p xp Hp Hne Hcat Hrun Herr.
  - cbn [concat] in Hcat.
    destruct (mp_prefix tab0 datas B parts fpos file p [] Hreq Hd Hwf Hp Hcat)
      as (x' & Hrun' & _ & Hfin).
    rewrite Hrun in Hrun'. inversion Hrun'; subst x'.
    exists xp, []. split; [reflexivity|]. apply Hfin. reflexivity.
  - inversion Hne as [|x l Hfr Hrest]; subst.
    cbn [concat] in Hcat. rewrite app_assoc in Hcat.
    assert (Hpf : p ++ fr <> []) by (apply app_ne_l; exact Hp).
    destruct (mp_prefix tab0 datas B parts fpos file (p ++ fr) (concat rest) Hreq Hd Hwf Hpf Hcat)
      as (x2 & Hrun2 & Herr2 & _).
    rewrite (mpx_app_nz H doff ridx lit_comp lit_exec (req_nz doff ridx tab0 Hreq)
               (x_init B fpos file tab0) p fr xp Hp Hfr Hrun Herr) in Hrun2.
    assert (Hb : x_boundary xp = Some B).
    { pose proof (mpx_boundary H doff ridx lit_comp lit_exec (x_init B fpos file tab0) p) as Hx.
      rewrite Hrun in Hx. exact Hx. }
    destruct (IH (p ++ fr) x2 Hpf Hrest Hcat) as (x' & rets & Hfeed & Hfin).
    + rewrite (mpx_app_nz H doff ridx lit_comp lit_exec (req_nz doff ridx tab0 Hreq)
                 (x_init B fpos file tab0) p fr xp Hp Hfr Hrun Herr). exact Hrun2.
    + exact Herr2.
    + exists x', (true :: rets). split; [|exact Hfin].
      cbn [feed_frags]. rewrite (write_cb_ok B xp fr x2 Hb Hfr Hrun2). rewrite Hfeed. reflexivity.
Qed.

(** every partition into non-empty callback invocations: all callbacks succeed and the
    final chunk-writer state is that of the single dlw call on the payload *)
Theorem mp_place_any_partition : forall tab0 datas B parts fpos file frags,
  req_ok doff ridx tab0 -> datas_ok H ridx tab0 datas -> wf_body B parts datas ->
  Forall (fun fr => fr <> []) frags -> concat frags = mp_body B parts ->
  exists x' rets,
    feed_frags H doff ridx lit_comp lit_exec (x_init B fpos file tab0) frags = (x', rets, true) /\
    x_dl x' = fst (dlw H doff ridx (init fpos file tab0) (concat datas)).
Proof.
  intros tab0 datas B parts fpos file frags Hreq Hd Hwf Hne Hcat.
  destruct frags as [|fr rest].
  - exfalso. cbn [concat] in Hcat. symmetry in Hcat. unfold mp_body in Hcat.
    apply app_eq_nil in Hcat. destruct Hcat as [_ Hx]. exact (closing_nonnil B Hx).
  - inversion Hne as [|x l Hfr Hrest]; subst. cbn [concat] in Hcat.
    destruct (mp_prefix tab0 datas B parts fpos file fr (concat rest) Hreq Hd Hwf Hfr Hcat)
      as (x1 & Hrun1 & Herr1 & _).
    destruct (feed_from tab0 datas B parts fpos file Hreq Hd Hwf rest fr x1 Hfr Hrest Hcat Hrun1 Herr1)
      as (x' & rets & Hfeed & Hfin).
    exists x', (true :: rets). split; [|exact Hfin].
    cbn [feed_frags].
    rewrite (write_cb_ok B (x_init B fpos file tab0) fr x1 eq_refl Hfr Hrun1).
    rewrite Hfeed. reflexivity.
Qed.

(** ... hence placement, by DlPlace.dlw_place_oneshot *)
Theorem mp_place : forall tab0 datas B parts fpos file frags x' rets,
  req_ok doff ridx tab0 -> datas_ok H ridx tab0 datas -> wf_body B parts datas ->
  Forall (fun fr => fr <> []) frags -> concat frags = mp_body B parts ->
  feed_frags H doff ridx lit_comp lit_exec (x_init B fpos file tab0) frags = (x', rets, true) ->
  (forall k e d c, nth_error ridx k = Some e -> nth_error datas k = Some d ->
      nth_error tab0 (r_tgt e) = Some c ->
      (exists c', nth_error (d_tab (x_dl x')) (r_tgt e) = Some c' /\ c_valid c' = VValid) /\
      fread (d_file (x_dl x')) (doff + c_start c) (length d) = d) /\
  (forall t, ~ In t (map r_tgt ridx) -> nth_error (d_tab (x_dl x')) t = nth_error tab0 t).
Proof.
  intros tab0 datas B parts fpos file frags x' rets Hreq Hd Hwf Hne Hcat Hfeed.
  destruct (mp_place_any_partition tab0 datas B parts fpos file frags Hreq Hd Hwf Hne Hcat)
    as (x2 & rets2 & Hfeed2 & Hfin).
  rewrite Hfeed in Hfeed2. inversion Hfeed2; subst x2 rets2.
  destruct (dlw_place_oneshot H doff ridx tab0 datas fpos file (x_dl x') Hreq Hd (eq_sym Hfin))
    as (_ & Hplace & Hother).
  split; assumption.
Qed.

End MpPlace.

Print Assumptions mp_prefix.
Print Assumptions mp_place_any_partition.
Print Assumptions mp_place.
