(** LINK (c): the copy from the old file.  [Dl/Copy.v] [copy_chunks] is the byte-level model
    of zck_copy_chunks / write_and_verify_chunk / zero_chunk and of the uthash lookup
    (proved sound in Dl/CopyProofs.v: C08_copy_sound, C08_match_sound).  Here: the state
    after the byte-level copy abstracts - with the abstraction [abs] of Dl/UpdateLink.v -
    to [Update.copy_chunks] applied to the abstraction of the state before, where the old
    file is abstracted to its index entries with the bytes of their extents ([abs_old]).
    This covers the choice of the FIRST source entry with the target's digest bytes, the
    comparison of both sizes, the re-hash of what was copied, "valid iff it matches" and the
    zero-fill on a mismatch; [reset_flags] / [link_reset_failed] is the failed -> missing
    step (zck_reset_failed_chunks).

    Hypotheses beyond those of the C08 theorems:
    - [src_complete]: every extent of the source index lies inside the source file.  For a
      source file that ends inside an extent the code hashes and writes a partly stale
      buffer or stops early with the flag untouched; Update.v zero-fills and marks failed
      (documented there): both are "not valid", but the extent bytes differ.
    - [no_gap]: a chunk that will be written to (not valid, matched) starts at or before
      the end of the target file.  A write behind the end makes [write] fill the gap with
      zeros, so that skipped extents in the gap read as zeros afterwards while the
      chunk-level model leaves them as they were (not valid either way).
    - [sized]: digests have the size of their checksum type (true for parsed headers). *)
From ZV Require Import Base.Bytes Gen.GenConsts Format.Header Format.ParseProofs Read.Scan Read.ScanProofs
                       Dl.Copy Dl.CopyProofs Dl.UpdateLink.
From ZV Require Dl.FileLemmas.
Local Open Scope N_scope.

(* ------------------------------------------------------------------------------------ *)
(** * the old file, and the failed -> missing step *)

Definition abs_old (sh : header) (sf : bytes) : U.oldfile :=
  map (fun sc => (uchunk sc, sub sf (data_offset sh + c_start sc) (c_clen sc))) (h_chunks sh).

Definition src_complete (sh : header) (sf : bytes) : Prop :=
  Forall (fun sc => data_offset sh + c_start sc + c_clen sc <= len sf) (h_chunks sh).

Definition no_gap (sh th : header) (tcs : list chunk) (fl : list Z) (tf : bytes) : Prop :=
  forall i tc, nth_error tcs i = Some tc -> fillable sh th tc (nth i fl 0%Z) -> ext_lo th tc <= len tf.

(** zck_reset_failed_chunks (index_read.c): every flag -1 becomes 0 *)
Definition reset_flags (fl : list Z) : list Z := map (fun v => if (v =? -1)%Z then 0%Z else v) fl.

Lemma link_reset_failed doff fb f : forall cs fl,
  length fl = length cs -> Forall (fun v => v = 0 \/ v = 1 \/ v = -1)%Z fl ->
  abs_slots doff cs fb f (reset_flags fl) = U.reset_failed (abs_slots doff cs fb f fl).
Proof.
  induction cs as [|c cs IH]; intros fl L F; [reflexivity|].
  destruct fl as [|v fl]; [discriminate|]. inversion F as [|? ? F1 F2]; subst.
  cbn [abs_slots reset_flags map hd tl U.reset_failed U.s_flag].
  fold (reset_flags fl). fold (U.reset_failed (abs_slots doff cs fb f fl)).
  rewrite IH by (cbn in L; try lia; assumption). f_equal.
  destruct F1 as [->|[->| ->]]; reflexivity.
Qed.

(* ------------------------------------------------------------------------------------ *)
(** * files *)

Lemma len_sub' (f : bytes) off n : len (sub f off n) = N.min n (len f - off).
Proof. unfold sub. rewrite len_firstn, len_skipn. lia. Qed.

Lemma sub_eq_gen (f1 f2 : bytes) off n :
  (forall x, off <= x < off + n -> x < len f1 -> fget f1 x = fget f2 x) ->
  N.min n (len f1 - off) = N.min n (len f2 - off) ->
  sub f1 off n = sub f2 off n.
Proof.
  intros Hx Hl. apply (nth_ext _ _ 0 0).
  - pose proof (len_sub' f1 off n). pose proof (len_sub' f2 off n). unfold len, byte in *. lia.
  - intros i Hi. pose proof (len_sub' f1 off n) as L. unfold len, byte in L, Hi.
    assert (Hi' : (i < N.to_nat n)%nat) by lia.
    rewrite !nth_sub by exact Hi'. apply Hx; unfold len, byte; lia.
Qed.

Lemma len_file_write (f : bytes) off w :
  len (file_write f off w) = if len w =? 0 then len f else N.max (len f) (off + len w).
Proof.
  destruct w as [|b w]; [reflexivity|].
  unfold len. rewrite FileLemmas.file_write_length by discriminate. cbn [length]. 
  replace (N.of_nat (S (length w)) =? 0) with false by (symmetry; apply N.eqb_neq; lia). lia.
Qed.

(** a write that starts inside (or at the end of) the file leaves every extent in front of
    it and behind it as it was *)
Lemma sub_write_other (f : bytes) lo w off m :
  lo <= len f -> (off + m <= lo \/ lo + len w <= off) ->
  sub (file_write f lo w) off m = sub f off m.
Proof.
  intros Hlo Hd. apply sub_eq_gen.
  - intros x Hx _. apply fget_file_write_out. lia.
  - rewrite len_file_write. destruct (len w =? 0); lia.
Qed.

Lemma file_write_len_mono (f : bytes) lo w : len f <= len (file_write f lo w).
Proof. apply file_write_len_ge. Qed.

(* ------------------------------------------------------------------------------------ *)
Section Link.
Variable H : N -> bytes -> bytes.

(** the copy loop on a source extent that is completely there: the source bytes are hashed
    and written *)
Lemma copy_blocks_full : forall fuel srest tf tpos n buf acc,
  n <= len srest -> len buf = BUF_SIZE -> (length srest < fuel)%nat ->
  copy_blocks fuel srest tf tpos n buf acc =
  Some (true, file_write tf tpos (firstn (N.to_nat n) srest), acc ++ firstn (N.to_nat n) srest).
Proof.
  induction fuel as [|fuel IH]; intros srest tf tpos n buf acc Hn Hb Hf; [lia|].
  cbn [copy_blocks]. destruct (n =? 0) eqn:E0.
  - apply N.eqb_eq in E0. subst n. cbn [N.to_nat firstn]. rewrite app_nil_r. reflexivity.
  - apply N.eqb_neq in E0. pose proof BUF_pos as HB. set (rb := N.min BUF_SIZE n).
    assert (Hr : 0 < rb /\ rb <= n /\ rb <= BUF_SIZE) by (unfold rb; lia).
    set (got := firstn (N.to_nat rb) srest).
    assert (Lg : len got = rb) by (unfold got; rewrite len_firstn; lia).
    replace (len got =? 0) with false by (symmetry; apply N.eqb_neq; lia).
    set (buf' := got ++ skipn (length got) buf).
    assert (Hb' : len buf' = BUF_SIZE).
    { unfold buf'. rewrite len_app, len_skipn. unfold len in *. lia. }
    assert (Hd : firstn (N.to_nat rb) buf' = got).
    { unfold buf'. rewrite firstn_app. replace (N.to_nat rb - length got)%nat with O by (unfold len in Lg; lia).
      cbn [firstn]. rewrite app_nil_r. apply firstn_all2. unfold len in Lg. lia. }
    rewrite Hd.
    rewrite IH; [| rewrite len_skipn; lia | exact Hb' | rewrite skipn_length; unfold len in *; lia].
    f_equal. f_equal.
    + f_equal. rewrite <- Lg at 1. rewrite <- FileLemmas.file_write_app. f_equal.
      unfold got. rewrite <- firstn_add_split. f_equal. lia.
    + rewrite <- app_assoc. f_equal. unfold got. rewrite <- firstn_add_split. f_equal. lia.
Qed.

Lemma write_and_verify_full sh sf th tf sc tc :
  data_offset sh + c_start sc + c_clen sc <= len sf ->
  let data := sub sf (data_offset sh + c_start sc) (c_clen sc) in
  let lo := ext_lo th tc in
  write_and_verify H sh sf th tf sc tc =
  if memcmp_eq (ds_of (h_chash sh)) (H (h_chash sh) data) (c_digest sc)
  then Some (file_write tf lo data, Some 1%Z)
  else Some (file_write (file_write tf lo data) lo (repeat 0 (N.to_nat (c_clen tc))), Some (-1)%Z).
Proof.
  intros Hc data lo. unfold write_and_verify. rewrite seek_eq.
  set (srest := skipn (N.to_nat (data_offset sh + c_start sc)) sf).
  rewrite copy_blocks_full; [| unfold srest; rewrite len_skipn; lia | rewrite len_repeat; lia | lia].
  cbn [app]. fold (sub sf (data_offset sh + c_start sc) (c_clen sc)). fold data. fold (ext_lo th tc). fold lo.
  destruct (memcmp_eq _ _ _); [reflexivity|]. rewrite zero_chunk_spec. reflexivity.
Qed.

(* ---------------------------------------------------------------------------------- *)
(** * the lookup *)

Lemma bytes_eqb_len : forall a b, bytes_eqb a b = true -> length a = length b.
Proof.
  induction a as [|x a IH]; intros [|y b] E; cbn in E; try discriminate; [reflexivity|].
  apply andb_true_iff in E. destruct E as [_ E]. cbn [length]. f_equal. apply IH. exact E.
Qed.

Definition old_entry (sh : header) (sf : bytes) (sc : chunk) : U.chunk * bytes :=
  (uchunk sc, sub sf (data_offset sh + c_start sc) (c_clen sc)).

Lemma find_link sh sf tds key : len key = tds -> forall cs i0,
  Forall (fun c => len (c_digest c) = tds) cs ->
  U.find_digest (map (old_entry sh sf) cs) key =
  match find_i (fun c => memcmp_eq tds (c_digest c) key) cs i0 with
  | Some (_, sc) => Some (old_entry sh sf sc)
  | None => None
  end.
Proof.
  intros Lk. induction cs as [|c cs IH]; intros i0 F; [reflexivity|].
  inversion F as [|? ? F1 F2]; subst. cbn [map U.find_digest find_i old_entry fst uchunk U.c_digest].
  assert (memcmp_eq (len key) (c_digest c) key = U.bytes_eqb (c_digest c) key) as E.
  { rewrite (memcmp_sized H (len key) (c_digest c) key eq_refl).
    rewrite firstn_all2 by (unfold len in *; lia). reflexivity. }
  rewrite E. destruct (U.bytes_eqb (c_digest c) key); [reflexivity|]. apply IH. exact F2.
Qed.

Lemma find_none_sizes sh sf key : forall cs,
  Forall (fun c => length (c_digest c) <> length key) cs ->
  U.find_digest (map (old_entry sh sf) cs) key = None.
Proof.
  induction cs as [|c cs IH]; intros F; [reflexivity|]. inversion F as [|? ? F1 F2]; subst.
  cbn [map U.find_digest old_entry fst uchunk U.c_digest].
  destruct (U.bytes_eqb (c_digest c) key) eqn:E; [|apply IH; exact F2].
  rewrite ubytes_eqb_same in E. apply bytes_eqb_len in E. contradiction.
Qed.

Lemma lookup_link sh sf th tc :
  sized sh -> len (c_digest tc) = ds_of (h_chash th) ->
  U.find_digest (abs_old sh sf) (c_digest tc) =
  match lookup sh (ds_of (h_chash th)) (c_digest tc) with
  | Some (_, sc) => Some (old_entry sh sf sc)
  | None => None
  end.
Proof.
  intros [Ss _] Lk. unfold lookup, abs_old. fold (old_entry sh sf).
  destruct (ds_of (h_chash sh) =? ds_of (h_chash th)) eqn:E.
  - apply N.eqb_eq in E. apply find_link; [exact Lk|]. rewrite <- E. exact Ss.
  - apply N.eqb_neq in E. apply find_none_sizes.
    eapply Forall_impl; [|exact Ss]. cbn beta. intros c Lc. unfold len in *. lia.
Qed.

(* ---------------------------------------------------------------------------------- *)
(** * one chunk *)

Lemma flag_valid_iff v : flag_of_Z v = U.Valid <-> v = 1%Z.
Proof.
  unfold flag_of_Z. destruct (v =? 1)%Z eqn:E; [apply Z.eqb_eq in E; tauto|].
  apply Z.eqb_neq in E. destruct (v =? 0)%Z; split; intros X; try discriminate; contradiction.
Qed.

(** what [Update.copy_one] does to a slot that is not valid, in terms of [find_digest] *)
Definition ucopy_body (Hc : bytes -> bytes) (A : U.oldfile) (s : U.slot) : U.slot :=
  let c := U.s_chunk s in
  match U.find_digest A (U.c_digest c) with
  | Some (ca, data) =>
      if (U.c_ulen ca =? U.c_ulen c) && (U.c_clen ca =? U.c_clen c) then
        if (len data =? U.c_clen ca) && U.bytes_eqb (Hc data) (U.c_digest ca)
        then U.set_cur s data U.Valid
        else U.set_cur s (U.zeros (U.c_clen c)) U.Failed
      else s
  | None => s
  end.

Lemma ucopy_unfold Hc A s :
  U.copy_one Hc A s = match U.s_flag s with U.Valid => s | _ => ucopy_body Hc A s end.
Proof. unfold U.copy_one, ucopy_body. destruct (U.s_flag s); reflexivity. Qed.

Section Step.
Variables sh th : header.
Variables sf fb : bytes.
Hypothesis Ks : known (h_chash sh).
Hypothesis Kt : known (h_chash th).
Hypothesis Ss : sized sh.
Hypothesis Sc : src_complete sh sf.
Let doff := data_offset th.
Let A := abs_old sh sf.
Let Hc := Hc_of H th.

Definition slot_at (tc : chunk) (f : bytes) (v : Z) : U.slot :=
  U.mkSlot (uchunk tc) (sub fb (doff + c_start tc) (c_clen tc)) (sub f (doff + c_start tc) (c_clen tc)) (flag_of_Z v).

(** one iteration of the loop of zck_copy_chunks = [Update.copy_one] on that chunk's slot;
    the target file never shrinks and every extent in front of / behind this chunk's extent
    is left as it was *)
Lemma copy_one_link tc v tf v' tf1 :
  len (c_digest tc) = ds_of (h_chash th) ->
  (fillable sh th tc v -> ext_lo th tc <= len tf) ->
  copy_one H sh sf th tc v tf = Some (v', tf1) ->
  U.copy_one Hc A (slot_at tc tf v) = slot_at tc tf1 v' /\
  len tf <= len tf1 /\
  (forall off m, off + m <= ext_lo th tc \/ ext_lo th tc + c_clen tc <= off -> sub tf1 off m = sub tf off m).
Proof.
  intros Lt Ng E. rewrite ucopy_unfold. unfold copy_one in E.
  destruct (v =? 1)%Z eqn:Ev.
  - apply Z.eqb_eq in Ev. inversion E; subst. cbn [slot_at U.s_flag flag_of_Z Z.eqb Pos.eqb].
    split; [reflexivity|]. split; [lia|]. intros; reflexivity.
  - apply Z.eqb_neq in Ev.
    assert (U.s_flag (slot_at tc tf v) <> U.Valid) as Nv.
    { cbn [slot_at U.s_flag]. intros X. apply flag_valid_iff in X. contradiction. }
    assert (match U.s_flag (slot_at tc tf v) with U.Valid => slot_at tc tf v | _ => ucopy_body Hc A (slot_at tc tf v) end
            = ucopy_body Hc A (slot_at tc tf v)) as Eu.
    { destruct (U.s_flag (slot_at tc tf v)); [contradiction|reflexivity|reflexivity]. }
    rewrite Eu. clear Eu Nv.
    unfold ucopy_body. cbn [slot_at U.s_chunk uchunk U.c_digest U.c_ulen U.c_clen].
    unfold A. rewrite (lookup_link sh sf th tc Ss Lt).
    unfold match_for in E, Ng.
    destruct (lookup sh (ds_of (h_chash th)) (c_digest tc)) as [[i sc]|] eqn:El.
    2:{ inversion E; subst. cbv beta iota. split; [reflexivity|]. split; [lia|]. intros; reflexivity. }
    cbn [old_entry uchunk U.c_ulen U.c_clen U.c_digest].
    destruct ((c_ulen sc =? c_ulen tc) && (c_clen sc =? c_clen tc)) eqn:Es.
    2:{ inversion E; subst. cbv beta iota. split; [reflexivity|]. split; [lia|]. intros; reflexivity. }
    apply andb_prop in Es. destruct Es as [Eu Ecl]. apply N.eqb_eq in Ecl.
    destruct (lookup_spec _ _ _ _ _ El) as (L1 & L2 & L3 & _).
    assert (Cs : data_offset sh + c_start sc + c_clen sc <= len sf).
    { unfold src_complete in Sc. rewrite Forall_forall in Sc. apply Sc. eapply nth_error_In. exact L2. }
    assert (Hlo : ext_lo th tc <= len tf).
    { apply Ng. split; [exact Ev|]. unfold match_for. rewrite El, Eu, Ecl, N.eqb_refl. discriminate. }
    rewrite (write_and_verify_full sh sf th tf sc tc Cs) in E.
    set (data := sub sf (data_offset sh + c_start sc) (c_clen sc)) in *.
    assert (Ld : len data = c_clen tc) by (unfold data; rewrite sub_len by exact Cs; exact Ecl).
    assert (Et : h_chash sh = h_chash th) by (apply ds_of_inj; assumption).
    assert (Lsc : len (c_digest sc) = ds_of (h_chash sh)).
    { destruct Ss as [Sd _]. rewrite Forall_forall in Sd. apply Sd. eapply nth_error_In. exact L2. }
    assert (Eh : U.bytes_eqb (Hc data) (c_digest sc) =
                 memcmp_eq (ds_of (h_chash sh)) (H (h_chash sh) data) (c_digest sc)).
    { unfold Hc, Hc_of. rewrite <- Et. symmetry. apply (memcmp_sized H). exact Lsc. }
    rewrite Ld, Ecl, N.eqb_refl, Eh. cbn [andb].
    fold doff in Hlo. unfold ext_lo in *. fold doff in Hlo |- *.
    destruct (memcmp_eq (ds_of (h_chash sh)) (H (h_chash sh) data) (c_digest sc)).
    + inversion E; subst v' tf1. split; [|split].
      * unfold U.set_cur, slot_at. cbn [U.s_chunk U.s_srv flag_of_Z Z.eqb Pos.eqb]. f_equal.
        fold doff. rewrite <- Ld. symmetry. apply sub_file_write_same.
      * apply file_write_len_ge.
      * intros off m Hd. apply sub_write_other; [exact Hlo | rewrite Ld; exact Hd].
    + inversion E; subst v' tf1.
      set (z := repeat 0 (N.to_nat (c_clen tc))).
      assert (Lz : len z = c_clen tc) by (unfold z; rewrite len_repeat; lia).
      pose proof (file_write_len_ge tf (doff + c_start tc) data) as G1.
      split; [|split].
      * unfold U.set_cur, slot_at. cbn [U.s_chunk U.s_srv]. f_equal.
        -- unfold U.zeros. fold z. fold doff. symmetry.
           pose proof (sub_file_write_same (file_write tf (doff + c_start tc) data) (doff + c_start tc) z) as X.
           rewrite Lz in X. exact X.
      * eapply N.le_trans; [apply (file_write_len_ge tf (doff + c_start tc) data) | apply file_write_len_ge].
      * intros off m Hd. rewrite sub_write_other; [| eapply N.le_trans; [exact Hlo | apply file_write_len_ge] | rewrite Lz; exact Hd].
        apply sub_write_other; [exact Hlo | rewrite Ld; exact Hd].
Qed.

(* ---------------------------------------------------------------------------------- *)
(** * the loop *)

Lemma abs_slots_ext (f1 f2 : bytes) : forall cs fl,
  (forall c, In c cs -> sub f1 (doff + c_start c) (c_clen c) = sub f2 (doff + c_start c) (c_clen c)) ->
  abs_slots doff cs fb f1 fl = abs_slots doff cs fb f2 fl.
Proof.
  induction cs as [|c cs IH]; intros fl E; [reflexivity|].
  cbn [abs_slots]. rewrite (E c (or_introl eq_refl)). f_equal. apply IH. intros c' Hin. apply E. right. exact Hin.
Qed.

Lemma copy_loop_link : forall tcs start fl tf fl' tf',
  starts_ok start tcs ->
  Forall (fun c => len (c_digest c) = ds_of (h_chash th)) tcs ->
  no_gap sh th tcs fl tf ->
  copy_loop H sh sf th tcs fl tf = Some (fl', tf') ->
  abs_slots doff tcs fb tf' fl' = map (U.copy_one Hc A) (abs_slots doff tcs fb tf fl) /\
  len tf <= len tf' /\
  (forall off m, off + m <= doff + start -> sub tf' off m = sub tf off m).
Proof.
  induction tcs as [|tc tcs IH]; intros start fl tf fl' tf' St Sz Ng E.
  - cbn [copy_loop] in E. inversion E; subst. cbn. auto using N.le_refl.
  - inversion Sz as [|? ? Sz1 Sz2]; subst. cbn [starts_ok] in St. destruct St as [Sc0 St].
    cbn [copy_loop] in E.
    destruct (copy_one H sh sf th tc (hd 0%Z fl) tf) as [[v1 tf1]|] eqn:E1; [|discriminate].
    destruct (copy_loop H sh sf th tcs (tl fl) tf1) as [[r tf2]|] eqn:E2; [|discriminate].
    inversion E; subst fl' tf'. clear E.
    assert (Ng0 : fillable sh th tc (hd 0%Z fl) -> ext_lo th tc <= len tf).
    { intros Fi. apply (Ng O tc eq_refl). rewrite nth_hd. exact Fi. }
    destruct (copy_one_link tc (hd 0%Z fl) tf v1 tf1 Sz1 Ng0 E1) as [S1 [S2 S3]].
    assert (Ng1 : no_gap sh th tcs (tl fl) tf1).
    { intros i c Hn Fi. specialize (Ng (S i) c Hn). rewrite nth_tl in Ng. specialize (Ng Fi). lia. }
    destruct (IH (start + c_clen tc) (tl fl) tf1 r tf2 St Sz2 Ng1 E2) as [I1 [I2 I3]].
    assert (Elo : ext_lo th tc = doff + start) by (unfold ext_lo; fold doff; rewrite Sc0; reflexivity).
    split; [|split].
    + cbn [abs_slots map hd tl]. f_equal.
      * fold (slot_at tc tf2 v1). fold (slot_at tc tf (hd 0%Z fl)). rewrite S1. unfold slot_at. f_equal.
        apply I3. rewrite Sc0. lia.
      * rewrite I1. f_equal. apply abs_slots_ext. intros c Hin. apply S3. right.
        rewrite Elo. apply In_nth_error in Hin. destruct Hin as [j Hj].
        pose proof (starts_ge H _ _ St j c Hj). lia.
    + lia.
    + intros off m Hd. rewrite I3 by lia. apply S3. left. rewrite Elo. exact Hd.
Qed.

End Step.

(* ---------------------------------------------------------------------------------- *)
(** * (c) zck_copy_chunks *)

Theorem link_copy sh sf th fb tf fl :
  known (h_chash sh) -> known (h_chash th) -> sized sh -> sized th ->
  starts_ok 0 (h_chunks th) -> src_complete sh sf -> no_gap sh th (h_chunks th) fl tf ->
  exists fl' tf',
    copy_chunks H sh sf th tf fl = Some (fl', tf', sf) /\
    U.t_slots (abs th fb tf' fl') =
      U.copy_chunks (Hc_of H th) (Some (abs_old sh sf)) (U.t_slots (abs th fb tf fl)) /\
    U.t_hdr (abs th fb tf' fl') = U.t_hdr (abs th fb tf fl) /\
    len tf <= len tf'.
Proof.
  intros Ks Kt Ss [St _] Sto Sc Ng.
  pose proof (copy_chunks_total H sh sf th tf fl) as Tot. unfold copy_chunks in *.
  destruct (copy_loop H sh sf th (h_chunks th) fl tf) as [[fl' tf']|] eqn:E; [|congruence].
  exists fl', tf'. split; [reflexivity|].
  destruct (copy_loop_link sh th sf fb Ks Kt Ss Sc (h_chunks th) 0 fl tf fl' tf' Sto St Ng E) as [C1 [C2 C3]].
  unfold abs. cbn [U.t_slots U.t_hdr U.copy_chunks]. split; [exact C1|]. split; [|exact C2].
  specialize (C3 0 (data_offset th) ltac:(lia)). unfold sub in C3. cbn [N.to_nat skipn] in C3. exact C3.
Qed.

End Link.
