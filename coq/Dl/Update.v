(** Chunk-level model of the update procedure of src/zck_dl.c ([main], [dl_header],
    [dl_bytes], the [range_attempt] back-off) over the library calls it sequences —
    [zck_find_valid_chunks], [zck_copy_chunks], [zck_reset_failed_chunks],
    [zck_missing_chunks], [zck_get_missing_range], the download callbacks, the final
    [ftruncate] and [zck_validate_data_checksum] — definitions only.

    Granularity.  The byte-level behaviour of each library call is modelled and proved
    elsewhere (header parser: C13, validity scan: C09, copy: C08, range computation and
    range string: C10, single-range / multipart callbacks: C05); each of those results says
    that the byte-level operation has the per-chunk effect that is written down here.
    This file composes the per-chunk effects in the order zck_dl.c performs the calls.

    The target file is seen as  header region ++ one extent per chunk of B ++ excess:
      - [t_hdr]   the bytes in front of B's data offset (whatever was there),
      - [s_cur]   per chunk: what currently occupies that chunk's extent (bytes of the
                  extent's length, or fewer when the file ends inside / before it),
      - [t_extra] bytes behind B's end (an over-long pre-existing file).
    The new file B is: header bytes, the chunk table (digest, stored length, uncompressed
    length), the stored bytes of every chunk ([s_srv]: also what a server holding B
    returns for that extent), the data digest and the uncompressed-source flag.
    Chunk table entry, B's bytes, the target's bytes and the valid flag of one chunk are
    kept together in a [slot]; the list of slots is in file order.

    I/O failures (C12), allocation failures and a misbehaving server (C05, C17) are not
    part of this model: the server returns the requested extents of the file it holds. *)
From ZV Require Import Base.Bytes Gen.GenConsts.
Local Open Scope N_scope.

Fixpoint bytes_eqb (a b : bytes) : bool :=
  match a, b with
  | [], [] => true
  | x :: a', y :: b' => (x =? y) && bytes_eqb a' b'
  | _, _ => false
  end.

Definition all_zero (d : bytes) : bool := forallb (fun b => b =? 0) d.
Definition zeros (n : N) : bytes := repeat 0 (N.to_nat n).

Record chunk := mkChunk { c_digest : bytes; c_clen : N; c_ulen : N }.

(** zckChunk.valid: 1 / -1 / 0 *)
Inductive flag := Valid | Failed | Missing.
Definition flag_eqb (a b : flag) : bool :=
  match a, b with Valid, Valid | Failed, Failed | Missing, Missing => true | _, _ => false end.

Record slot := mkSlot {
  s_chunk : chunk;     (* index entry of B *)
  s_srv : bytes;       (* the stored bytes of this chunk in the file the server holds *)
  s_cur : bytes;       (* what the target currently has in this chunk's extent *)
  s_flag : flag }.

Definition set_cur (s : slot) (d : bytes) (f : flag) : slot := mkSlot (s_chunk s) (s_srv s) d f.
Definition set_flag (s : slot) (f : flag) : slot := mkSlot (s_chunk s) (s_srv s) (s_cur s) f.

Record target := mkT { t_hdr : bytes; t_slots : list slot; t_extra : bytes }.

(** the new file as the server holds it *)
Record newfile := mkB {
  b_hdr : bytes;        (* lead ++ header, i.e. everything in front of the data offset *)
  b_lead : N;           (* length of the lead *)
  b_uncomp : bool;      (* has_uncompressed_source (flag bit 2) *)
  b_ddigest : bytes }.  (* data digest of the preface *)

(** the old file A given with -s: its chunk table and, per chunk, the bytes a sequential
    read of that chunk's extent delivers (A may be damaged or truncated) *)
Definition oldfile := list (chunk * bytes).

(* ------------------------------------------------------------------------------------ *)
(** * dl_header / dl_bytes: which header bytes are requested and where the descriptor
      stands when [zck_read_header] runs *)

(** zck_get_min_download_size() = 5 + MAX_COMP_SIZE*2 + get_max_hash_size() *)
Definition min_download : N := 5 + MAX_COMP_SIZE * 2 + DIGEST_SIZE_SHA512.
(** read_lead reads 5 + 2*MAX_COMP_SIZE bytes first, more when the lead is longer *)
Definition lead_preread : N := 5 + 2 * MAX_COMP_SIZE.

Record hfetch := mkHF {
  hf_requests : list (N * N);   (* inclusive byte ranges asked from the server *)
  hf_pos : N;                   (* descriptor position when zck_read_header starts *)
  hf_loaded : N }.              (* zck->header_size: bytes of the file the library holds *)

(** [restore = true]: dl_bytes puts the descriptor back where the library stopped reading
    (the code after the D33 fix); [false]: it seeks to its [start] argument (before). *)
Definition dl_header_fetch (restore : bool) (lead hlen : N) : hfetch :=
  (* dl_bytes(min_download, start = 0, buffer_len = 0): 0 + 89 > 0 *)
  let req1 := (0, min_download - 1) in
  let buffer_len := min_download in
  let pos := 0 in                                   (* lseek(fd, read_pos = 0 / start = 0) *)
  (* zck_read_lead *)
  let loaded := N.max lead_preread lead in
  let pos := loaded in
  (* dl_bytes(header_length, start = lead, buffer_len) *)
  let total := lead + hlen in
  if buffer_len <? total
  then mkHF [req1; (buffer_len, total - 1)] (if restore then pos else lead) loaded
  else mkHF [req1] pos loaded.

(** The effect of the probe on the target: bytes [0, min(89, |B|)) of the file become B's.
    The header part of it is covered by [t_hdr := b_hdr]; when B's header is shorter than
    the probe the first [p] bytes of the data section are overwritten as well: *)
Fixpoint write_prefix (p : N) (sl : list slot) : list slot :=
  match sl with
  | [] => []
  | s :: rest =>
      if p =? 0 then sl else
      let k := N.min p (len (s_srv s)) in
      set_cur s (firstn (N.to_nat k) (s_srv s) ++ skipn (N.to_nat k) (s_cur s)) (s_flag s)
        :: write_prefix (p - k) rest
  end.

(** the requests dl_header issues for B *)
Definition header_fetch_of (B : newfile) : hfetch :=
  dl_header_fetch true (b_lead B) (len (b_hdr B) - b_lead B).

Definition fetch_header (B : newfile) (T : target) : target :=
  mkT (b_hdr B) (write_prefix (min_download - len (b_hdr B)) (t_slots T)) (t_extra T).

Section Update.
Variable Hc : bytes -> bytes.     (* chunk checksum function of B *)
Variable Hf : bytes -> bytes.     (* overall checksum function of B *)

(* ------------------------------------------------------------------------------------ *)
(** * validate_chunk / validate_checksums (zck_find_valid_chunks) *)

(** validate_chunk: the computed digest (all zeros when comp_length is 0) against the
    index entry *)
Definition digest_ok (c : chunk) (d : bytes) : bool :=
  if c_clen c =? 0 then all_zero (c_digest c) else bytes_eqb (Hc d) (c_digest c).

(** all stored bytes of the extent could be read *)
Definition complete (c : chunk) (d : bytes) : bool := len d =? c_clen c.

Definition chunk_ok (c : chunk) (d : bytes) : bool := complete c d && digest_ok c d.

(** the first index entry is not read at all when both its uncompressed and its stored
    length are 0 (the empty dictionary entry) *)
Definition skipped (first : bool) (c : chunk) : bool := first && (c_ulen c =? 0) && (c_clen c =? 0).

Definition scan_flag (first : bool) (s : slot) : flag :=
  if skipped first (s_chunk s) then Valid
  else if chunk_ok (s_chunk s) (s_cur s) then Valid else Failed.

Fixpoint scan_flags (first : bool) (sl : list slot) : list slot :=
  match sl with
  | [] => []
  | s :: rest => set_flag s (scan_flag first s) :: scan_flags false rest
  end.

(** the bytes fed to the data hash by the scan: every chunk that was read *)
Fixpoint scanned_data (first : bool) (sl : list slot) : bytes :=
  match sl with
  | [] => []
  | s :: rest => (if skipped first (s_chunk s) then [] else s_cur s) ++ scanned_data false rest
  end.

Definition all_valid (sl : list slot) : bool := forallb (fun s => flag_eqb (s_flag s) Valid) sl.

(** validate_checksums: (return value is 1, slots) *)
Definition find_valid (B : newfile) (sl : list slot) : bool * list slot :=
  let sl1 := scan_flags true sl in
  if all_valid sl1 then
    if b_uncomp B then (true, sl1)
    else if bytes_eqb (Hf (scanned_data true sl)) (b_ddigest B) then (true, sl1)
    else (false, map (fun s => set_flag s Failed) sl1)     (* invalidate *all* chunks *)
  else (false, sl1).

(* ------------------------------------------------------------------------------------ *)
(** * zck_copy_chunks / write_and_verify_chunk, zck_reset_failed_chunks *)

(** HASH_FIND on A's table: the first entry of A with these digest bytes *)
Fixpoint find_digest (A : oldfile) (d : bytes) : option (chunk * bytes) :=
  match A with
  | [] => None
  | (c, data) :: rest => if bytes_eqb (c_digest c) d then Some (c, data) else find_digest rest d
  end.

(** Copy one chunk.  Whatever the read loop delivers is hashed and written, so hashed and
    written bytes coincide; a digest mismatch zero-fills the extent and marks it failed.
    A truncated A (the read loop stops early) leaves, in the code, a partly overwritten
    extent and the flag unchanged; the model zero-fills and marks it failed as well: in
    both cases the chunk is "not valid", [zck_reset_failed_chunks] maps it to missing, and
    the extent is overwritten by the download before anything reads it again.
    A's checksum function is [Hc]: an entry of A can only match an entry of B when the
    digest sizes agree, and the four checksum types have pairwise different sizes. *)
Definition copy_one (A : oldfile) (s : slot) : slot :=
  match s_flag s with
  | Valid => s
  | _ =>
      let c := s_chunk s in
      match find_digest A (c_digest c) with
      | Some (ca, data) =>
          if (c_ulen ca =? c_ulen c) && (c_clen ca =? c_clen c) then
            if (len data =? c_clen ca) && bytes_eqb (Hc data) (c_digest ca)
            then set_cur s data Valid
            else set_cur s (zeros (c_clen c)) Failed
          else s
      | None => s
      end
  end.

Definition copy_chunks (A : option oldfile) (sl : list slot) : list slot :=
  match A with Some a => map (copy_one a) sl | None => sl end.

Definition reset_failed (sl : list slot) : list slot :=
  map (fun s => match s_flag s with Failed => set_flag s Missing | _ => s end) sl.

Definition is_missing (s : slot) : bool := flag_eqb (s_flag s) Missing.
Definition missing_count (sl : list slot) : nat := length (filter is_missing sl).

(* ------------------------------------------------------------------------------------ *)
(** * zck_get_missing_range *)

(** Walk the index in file order; every chunk with valid == 0 that has stored bytes is added
    ([range_add] + [range_merge_combined]: an extent that starts where the previous item
    ends is merged into it, otherwise it is a new item); a zero-length chunk has no bytes
    to request and is passed over; stop as soon as the item count has reached [maxr].
    Result: the indices of the requested chunks and the item count.
    [i] index of the head of [sl], [off] its offset in the data section, [last] the
    (exclusive) end of the last item, [cnt] the item count so far. *)
Fixpoint missing_range (maxr : N) (i : nat) (off : N) (last : option N) (cnt : N) (sl : list slot)
  : list nat * N :=
  match sl with
  | [] => ([], cnt)
  | s :: rest =>
      let l := c_clen (s_chunk s) in
      if is_missing s && negb (l =? 0) then
        let merged := match last with Some e => off <=? e | None => false end in
        let cnt' := if merged then cnt else cnt + 1 in
        if maxr <=? cnt' then ([i], cnt')
        else let (r, c) := missing_range maxr (S i) (off + l) (Some (off + l)) cnt' rest in (i :: r, c)
      else missing_range maxr (S i) (off + l) last cnt rest
  end.

(** extent (offset in the data section, length) of every chunk *)
Fixpoint extents (off : N) (sl : list slot) : list (N * N) :=
  match sl with
  | [] => []
  | s :: rest => (off, c_clen (s_chunk s)) :: extents (off + c_clen (s_chunk s)) rest
  end.

(* ------------------------------------------------------------------------------------ *)
(** * one served request: the callbacks place every requested chunk *)

(** dl_write_range / set_chunk_valid: the bytes of the extent are written; when the chunk is
    complete it is validated: valid, or zero-filled + failed and the transfer is aborted.
    Returns (slots, false) on the first chunk that fails.  [req] is in file order (as
    [missing_range] produces it); [i] is the index of the head of [sl]. *)
Fixpoint place (req : list nat) (i : nat) (sl : list slot) : list slot * bool :=
  match req, sl with
  | [], _ => (sl, true)
  | _, [] => ([], true)
  | r :: req', s :: rest =>
      if Nat.eqb r i then
        if chunk_ok (s_chunk s) (s_srv s) then
          let (x, ok) := place req' (S i) rest in (set_cur s (s_srv s) Valid :: x, ok)
        else (set_cur s (zeros (c_clen (s_chunk s))) Failed :: rest, false)
      else let (x, ok) := place req (S i) rest in (s :: x, ok)
  end.

(* ------------------------------------------------------------------------------------ *)
(** * the request loop of main() with the range_attempt back-off *)

(** [EmptyRange]: chunks are missing but all of them have stored length 0, so the range
    computed for the next request is empty.  The code does not notice: zck_get_range_char
    returns "", libcurl sends "Range: bytes=", and no response can make a zero-length chunk
    valid (the callbacks only see chunks that are in the range).  What follows depends on
    the server: one that rejects the header (416) makes zckdl exit 1; one that ignores it
    (200, as RFC 7233 allows) counts as a refused request: ra_index, already advanced to
    the last table entry by the item count 0, is incremented past the table
    (max_ranges := range_attempt[5], an out-of-bounds read) and the loop never ends.
    The model stops here.  A zero-length chunk is missing at this point only if its index
    digest is not all zeros (then B does not pass validate_chunk: excluded by [wf_new],
    and never written by the library, whose only zero-length entry is the empty dictionary
    with a zero digest) or if the validity scan invalidated every chunk because the data
    digest failed although each chunk checksum matched (a checksum collision). *)
Inductive status := Done (exit_code : N) | OutOfFuel | TableOOB | EmptyRange.

Inductive event :=
  | Served (req : list nat) (count : N)       (* 206: the extents of these chunks were sent *)
  | Refused (req : list nat) (count : N).     (* 200: more ranges than the server allows *)

Record outcome := mkO {
  o_status : status;
  o_target : target;
  o_events : list event }.

Definition tbl (i : nat) : option N := nth_error range_attempt i.

(** while(range_attempt[ra_index] > 1 && range_attempt[ra_index+1] > count) ra_index++;
    [None]: an index outside the table would be read *)
Fixpoint advance (k : nat) (ra : nat) (count : N) : option nat :=
  match tbl ra with
  | None => None
  | Some a =>
      if 1 <? a then
        match tbl (S ra) with
        | None => None
        | Some b => if count <? b then
                      match k with O => None | S k' => advance k' (S ra) count end
                    else Some ra
        end
      else Some ra
  end.

(** zck_validate_data_checksum *)
Definition validate_data (B : newfile) (sl : list slot) : bool * list slot :=
  if b_uncomp B then find_valid B sl
  else (forallb (fun s => complete (s_chunk s) (s_cur s)) sl
        && bytes_eqb (Hf (concat (map s_cur sl))) (b_ddigest B), sl).

(** after the loop: ftruncate to B's length, whole-data validation, exit code *)
Definition finish (B : newfile) (hdr : bytes) (sl : list slot) (ev : list event) : outcome :=
  let (ok, sl') := validate_data B sl in
  mkO (Done (if ok then 0 else 1)) (mkT hdr sl' []) ev.

Fixpoint dl_loop (fuel : nat) (B : newfile) (srv_limit : N) (hdr extra : bytes)
         (maxr : N) (ra : nat) (sl : list slot) (ev : list event) : outcome :=
  match missing_count sl with
  | O => finish B hdr sl ev
  | S _ =>
    match fuel with
    | O => mkO OutOfFuel (mkT hdr sl extra) ev
    | S fuel' =>
        let (req, count) := missing_range maxr 0 0 None 0 sl in
        match req with [] => mkO EmptyRange (mkT hdr sl extra) ev | _ :: _ =>
        match advance (length range_attempt) ra count with
        | None => mkO TableOOB (mkT hdr sl extra) ev
        | Some ra1 =>
            if count <=? srv_limit then
              (* 206 *)
              let (sl', ok) := place req 0 sl in
              if ok then dl_loop fuel' B srv_limit hdr extra maxr ra1 sl' (ev ++ [Served req count])
              else mkO (Done 1) (mkT hdr sl' extra) (ev ++ [Served req count])
            else
              (* 200, refused by dl_header_cb: range_fail *)
              if 1 <? maxr then
                match tbl (S ra1) with
                | None => mkO TableOOB (mkT hdr sl extra) ev
                | Some m => dl_loop fuel' B srv_limit hdr extra m (S ra1) sl (ev ++ [Refused req count])
                end
              else dl_loop fuel' B srv_limit hdr extra maxr ra1 sl (ev ++ [Refused req count])
        end
        end
    end
  end.

Definition loop_fuel (sl : list slot) : nat := length sl + length range_attempt + 1.

(** main(): [srv_limit] = the largest number of ranges per request the server answers with
    206 (0: the server does not do ranges at all: the probe is refused, the tool truncates
    the target and downloads the whole file without a Range header). *)
Definition update (A : option oldfile) (B : newfile) (srv_limit : N) (T : target) : outcome :=
  if srv_limit =? 0 then
    let sl := map (fun s => set_cur s (s_srv s) Missing) (t_slots T) in
    finish B (b_hdr B) sl []
  else
    let T1 := fetch_header B T in
    let (all, sl1) := find_valid B (t_slots T1) in
    if all then
      (* already complete: ftruncate to B's length, exit 0 *)
      mkO (Done 0) (mkT (t_hdr T1) sl1 []) []
    else
      let sl2 := reset_failed (copy_chunks A sl1) in
      match tbl 0 with
      | None => mkO TableOOB (mkT (t_hdr T1) sl2 (t_extra T1)) []
      | Some m => dl_loop (loop_fuel sl2) B srv_limit (t_hdr T1) (t_extra T1) m 0 sl2 []
      end.

(* ------------------------------------------------------------------------------------ *)
(** * specification side *)

(** chunks (by index) the procedure has to fetch: not already valid in the target as it is
    after the header fetch, and no usable chunk with the same digest and sizes in A *)
Definition usable_in (A : option oldfile) (c : chunk) : bool :=
  match A with
  | None => false
  | Some a =>
      match find_digest a (c_digest c) with
      | Some (ca, data) => (c_ulen ca =? c_ulen c) && (c_clen ca =? c_clen c)
                           && (len data =? c_clen ca) && bytes_eqb (Hc data) (c_digest ca)
      | None => false
      end
  end.

Fixpoint needed (A : option oldfile) (first : bool) (i : nat) (sl : list slot) : list nat :=
  match sl with
  | [] => []
  | s :: rest =>
      let r := needed A false (S i) rest in
      if flag_eqb (scan_flag first s) Valid || usable_in A (s_chunk s) then r else i :: r
  end.

Fixpoint served_chunks (ev : list event) : list nat :=
  match ev with
  | [] => []
  | Served r _ :: rest => r ++ served_chunks rest
  | Refused _ _ :: rest => served_chunks rest
  end.

Fixpoint asked_chunks (ev : list event) : list nat :=
  match ev with
  | [] => []
  | Served r _ :: rest => r ++ asked_chunks rest
  | Refused r _ :: rest => r ++ asked_chunks rest
  end.

End Update.
