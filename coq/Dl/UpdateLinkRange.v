(** LINK (b): the range computation.  [Dl/Range.v] [missing_loop] / [missing_range] is the
    faithful model of range.c (range_add with its insertion walk and merge pass, size_t
    arithmetic, the range index), proved in [Dl/RangeProofs.v] to compute the specification
    (C10_refines_spec, C10_cover_prefix).  [Update.missing_range] keeps only what the
    update procedure needs: which chunks are requested and how many ranges that makes.
    Here: on the chunk table that a slot list denotes, both request the same chunks (same
    numbers, in order), the item count of the byte-level model is the count of the
    chunk-level model, and the ranges are the merged extents of exactly those chunks. *)
From ZV Require Import Base.Bytes.
From ZV Require Dl.Range Dl.RangeProofs Dl.Update.
Local Open Scope N_scope.

Module R := Dl.Range.
Module RP := Dl.RangeProofs.
Module U := Dl.Update.

Definition Z_of_flag (f : U.flag) : Z :=
  match f with U.Valid => 1%Z | U.Failed => (-1)%Z | U.Missing => 0%Z end.

(** the target's chunk table as range.c sees it: running start offsets, stored sizes, flags *)
Fixpoint rtable (off : N) (sl : list U.slot) : list R.chunk :=
  match sl with
  | [] => []
  | s :: r => R.mkChunk off (U.c_clen (U.s_chunk s)) (Z_of_flag (U.s_flag s))
              :: rtable (off + U.c_clen (U.s_chunk s)) r
  end.

Lemma rtable_wf : forall sl off, R.wf_from off (rtable off sl).
Proof. induction sl as [|s sl IH]; intros off; cbn [rtable R.wf_from R.c_start R.c_len]; auto. Qed.

Lemma rtable_total : forall sl off, R.total_len (rtable off sl) =
  fold_right (fun s a => U.c_clen (U.s_chunk s) + a) 0 sl.
Proof. induction sl as [|s sl IH]; intros off; cbn [rtable R.total_len fold_right R.c_len]; [reflexivity|]. rewrite IH. reflexivity. Qed.

Lemma missing_same s : U.is_missing s = (Z_of_flag (U.s_flag s) =? 0)%Z.
Proof. unfold U.is_missing. destruct (U.s_flag s); reflexivity. Qed.

(** the last item of a built range list ends right in front of [hdr + e] *)
Definition last_is (hdr : N) (items : list R.item) (last : option N) : Prop :=
  match last with
  | None => items = []
  | Some e => items <> [] /\ forall s, RP.touches items s = (hdr + e =? s)
  end.

Lemma touches_snoc : forall l s e s', l <> [] \/ True ->
  RP.touches (RP.snoc_merge l s e) s' = (e + 1 =? s').
Proof.
  induction l as [|p r IH]; intros s e s' _.
  - reflexivity.
  - destruct r as [|q r'].
    + cbn [RP.snoc_merge]. destruct (snd p + 1 =? s); reflexivity.
    + change (RP.snoc_merge (p :: q :: r') s e) with (p :: RP.snoc_merge (q :: r') s e).
      specialize (IH s e s' (or_intror I)).
      remember (RP.snoc_merge (q :: r') s e) as t eqn:Et.
      destruct t as [|t0 t'].
      * exfalso. apply (f_equal (@length R.item)) in Et. rewrite RP.snoc_length in Et.
        destruct (RP.touches (q :: r') s); discriminate.
      * exact IH.
Qed.

Lemma snoc_nonempty l s e : RP.snoc_merge l s e <> [].
Proof.
  intros E. apply (f_equal (@length R.item)) in E. rewrite RP.snoc_length in E.
  destruct l; [discriminate|]. destruct (RP.touches (i :: l) s); discriminate.
Qed.

Section Loop.
Variable hdr : N.
Hypothesis Hh : 0 < hdr.

(** The loop of zck_get_missing_range (byte-level model, state [st_of hdr done] = the
    ranges built for the chunks [done] taken so far) and [Update.missing_range] (state: item
    count [cnt] and end [last] of the last item) walk the table in lockstep. *)
Lemma loop_link (maxr : N) : forall sl i off last cnt done,
  hdr + off + R.total_len (rtable off sl) < two64 ->
  RP.sep hdr (RP.build hdr done) -> RP.below (RP.build hdr done) (hdr + off) ->
  last_is hdr (RP.build hdr done) last ->
  (match last with Some e => e <= off | None => True end) ->
  cnt = N.of_nat (length (RP.build hdr done)) ->
  exists cov,
    R.missing_loop hdr (Z.of_N maxr) (rtable off sl) (N.of_nat i) (RP.st_of hdr done) = RP.st_of hdr (done ++ cov) /\
    map fst cov = map N.of_nat (fst (U.missing_range maxr i off last cnt sl)) /\
    snd (U.missing_range maxr i off last cnt sl) = N.of_nat (length (RP.build hdr (done ++ cov))) /\
    Forall (fun nc => exists pre s post, sl = pre ++ s :: post /\ fst nc = N.of_nat (i + length pre) /\
                      R.c_len (snd nc) = U.c_clen (U.s_chunk s) /\ R.c_len (snd nc) <> 0 /\
                      U.is_missing s = true /\
                      R.c_start (snd nc) = off + fold_right (fun s a => U.c_clen (U.s_chunk s) + a) 0 pre) cov.
Proof.
  induction sl as [|s sl IH]; intros i off last cnt done H64 Hs Hb Hl Hle Hc.
  - exists []. rewrite app_nil_r. cbn [rtable R.missing_loop U.missing_range fst snd map]. auto.
  - cbn [rtable R.missing_loop U.missing_range R.c_valid R.c_len].
    cbn [rtable R.total_len R.c_len] in H64.
    set (l := U.c_clen (U.s_chunk s)) in *.
    assert (Hb' : RP.below (RP.build hdr done) (hdr + (off + l))).
    { eapply Forall_impl; [|exact Hb]. cbn beta. intros; lia. }
    assert (Hle' : match last with Some e => e <= off + l | None => True end) by (destruct last; lia).
    (* lift the Forall of the tail to the whole list *)
    assert (Lift : forall cov,
      Forall (fun nc => exists pre s0 post, sl = pre ++ s0 :: post /\ fst nc = N.of_nat (S i + length pre) /\
                      R.c_len (snd nc) = U.c_clen (U.s_chunk s0) /\ R.c_len (snd nc) <> 0 /\
                      U.is_missing s0 = true /\
                      R.c_start (snd nc) = off + l + fold_right (fun s a => U.c_clen (U.s_chunk s) + a) 0 pre) cov ->
      Forall (fun nc => exists pre s0 post, s :: sl = pre ++ s0 :: post /\ fst nc = N.of_nat (i + length pre) /\
                      R.c_len (snd nc) = U.c_clen (U.s_chunk s0) /\ R.c_len (snd nc) <> 0 /\
                      U.is_missing s0 = true /\
                      R.c_start (snd nc) = off + fold_right (fun s a => U.c_clen (U.s_chunk s) + a) 0 pre) cov).
    { intros cov F. eapply Forall_impl; [|exact F]. cbn beta.
      intros nc [pre [s0 [post [E1 [E2 [E3 [E4 [E5 E6]]]]]]]].
      exists (s :: pre), s0, post. rewrite E1. cbn [app length fold_right]. fold l.
      repeat split; auto; try lia; try (rewrite E2; f_equal; lia). }
    rewrite missing_same.
    destruct (Z_of_flag (U.s_flag s) =? 0)%Z eqn:Ev; cbn [negb andb].
    2:{ replace (N.of_nat i + 1) with (N.of_nat (S i)) by lia.
        destruct (IH (S i) (off + l) last cnt done ltac:(lia) Hs Hb' Hl Hle' Hc) as [cov [C1 [C2 [C3 C4]]]].
        exists cov. auto. }
    destruct (l =? 0) eqn:El; cbn [negb].
    { replace (N.of_nat i + 1) with (N.of_nat (S i)) by lia.
      destruct (IH (S i) (off + l) last cnt done ltac:(lia) Hs Hb' Hl Hle' Hc) as [cov [C1 [C2 [C3 C4]]]].
      exists cov. auto. }
    apply N.eqb_neq in El.
    set (c := R.mkChunk off l (Z_of_flag (U.s_flag s))).
    set (nc := (N.of_nat i, c)).
    assert (Est : R.range_add hdr c (N.of_nat i) (RP.st_of hdr done) = RP.st_of hdr (done ++ [nc])).
    { unfold RP.st_of at 1.
      rewrite RP.range_add_spec; try assumption; subst c; cbn [R.c_start R.c_len]; try lia.
      unfold RP.st_of. rewrite RP.build_snoc, RP.entries_snoc. reflexivity. }
    rewrite Est.
    assert (Hs1 : RP.sep hdr (RP.build hdr (done ++ [nc]))).
    { rewrite RP.build_snoc. unfold RP.step_ext, R.ext. subst nc c. cbn [fst snd R.c_start R.c_len].
      apply RP.snoc_sep; auto; lia. }
    assert (Hb1 : RP.below (RP.build hdr (done ++ [nc])) (hdr + (off + l))).
    { rewrite RP.build_snoc. unfold RP.step_ext, R.ext. subst nc c. cbn [fst snd R.c_start R.c_len].
      apply RP.snoc_below; auto; lia. }
    (* the count bookkeeping *)
    assert (Hcnt : (if match last with Some e => off <=? e | None => false end then cnt else cnt + 1) =
                   N.of_nat (length (RP.build hdr (done ++ [nc])))).
    { rewrite RP.build_snoc. unfold RP.step_ext, R.ext. subst nc c. cbn [fst snd R.c_start R.c_len].
      rewrite RP.snoc_length. destruct last as [e|]; cbn [last_is] in Hl.
      - destruct Hl as [Hne Ht]. rewrite Ht.
        assert ((off <=? e) = (hdr + e =? hdr + off)) as Eq.
        { destruct (off <=? e) eqn:A; [apply N.leb_le in A; symmetry; apply N.eqb_eq; lia
                                      | apply N.leb_gt in A; symmetry; apply N.eqb_neq; lia]. }
        rewrite Eq. destruct (hdr + e =? hdr + off); lia.
      - rewrite Hl in Hc |- *. cbn [RP.touches length] in Hc |- *. lia. }
    assert (Hl1 : last_is hdr (RP.build hdr (done ++ [nc])) (Some (off + l))).
    { rewrite RP.build_snoc. unfold RP.step_ext, R.ext. subst nc c. cbn [fst snd R.c_start R.c_len last_is].
      split; [apply snoc_nonempty|]. intros s'. rewrite touches_snoc by (right; exact I).
      f_equal. lia. }
    rewrite Hcnt. cbn [RP.st_of R.r_count].
    assert (Z.to_N (Z.of_N maxr) = maxr) as Zm by lia.
    assert ((0 <=? Z.of_N maxr)%Z = true) as Zp by (apply Z.leb_le; lia).
    rewrite Zp, Zm. cbn [andb].
    assert (Hnc : exists pre s0 post, s :: sl = pre ++ s0 :: post /\ fst nc = N.of_nat (i + length pre) /\
                      R.c_len (snd nc) = U.c_clen (U.s_chunk s0) /\ R.c_len (snd nc) <> 0 /\
                      U.is_missing s0 = true /\
                      R.c_start (snd nc) = off + fold_right (fun s a => U.c_clen (U.s_chunk s) + a) 0 pre).
    { exists [], s, sl. subst nc c. cbn [app length fst snd fold_right R.c_len R.c_start].
      rewrite missing_same, Ev. repeat split; auto; try lia; try (f_equal; lia). }
    destruct (maxr <=? N.of_nat (length (RP.build hdr (done ++ [nc])))) eqn:Estop.
    + exists [nc]. cbn [fst snd map]. repeat split; auto.
    + replace (N.of_nat i + 1) with (N.of_nat (S i)) by lia.
      destruct (IH (S i) (off + l) (Some (off + l)) (N.of_nat (length (RP.build hdr (done ++ [nc])))) (done ++ [nc])
                  ltac:(lia) Hs1 Hb1 Hl1 ltac:(cbv iota beta; lia) eq_refl) as [cov [C1 [C2 [C3 C4]]]].
      destruct (U.missing_range maxr (S i) (off + l) (Some (off + l)) _ sl) as [r c'] eqn:MR.
      cbn [fst snd] in *.
      exists (nc :: cov). rewrite <- app_assoc in *. cbn [app] in *.
      split; [exact C1|]. split; [cbn [map fst]; f_equal; exact C2|]. split; [exact C3|].
      constructor; [exact Hnc | apply Lift; exact C4].
Qed.

End Loop.

(** (b) For every slot list (= every target chunk table with any flags), every header size
    and every range limit: the byte-level range computation, run on the table the slots
    denote, returns the ranges [build hdr cov] = the merged extents of a list [cov] of
    (number, chunk) pairs, the range index [entries cov] and the count, where the numbers of
    [cov] are exactly the chunk indices [Update.missing_range] returns, the count is the
    count it returns, and every member of [cov] is a missing chunk of the table with stored
    bytes (zero-length chunks are passed over by both). *)
Theorem link_missing_range hdr sl maxr :
  0 < hdr -> hdr + R.total_len (rtable 0 sl) < two64 ->
  exists cov,
    R.missing_range hdr (rtable 0 sl) (Z.of_N maxr) =
      (R.coalesce (R.extents hdr cov), R.entries cov, snd (U.missing_range maxr 0 0 None 0 sl)) /\
    map fst cov = map N.of_nat (fst (U.missing_range maxr 0 0 None 0 sl)) /\
    snd (U.missing_range maxr 0 0 None 0 sl) = N.of_nat (length (R.coalesce (R.extents hdr cov))) /\
    Forall (fun nc => exists pre s post, sl = pre ++ s :: post /\ fst nc = N.of_nat (length pre) /\
                      R.c_len (snd nc) = U.c_clen (U.s_chunk s) /\ R.c_len (snd nc) <> 0 /\
                      U.is_missing s = true /\
                      R.c_start (snd nc) = fold_right (fun s a => U.c_clen (U.s_chunk s) + a) 0 pre) cov.
Proof.
  intros Hh H64.
  destruct (loop_link hdr Hh maxr sl 0 0 None 0 [] ltac:(lia) ltac:(exact I) ltac:(constructor)
              ltac:(reflexivity) I eq_refl) as [cov [C1 [C2 [C3 C4]]]].
  exists cov. cbn [app] in *. unfold R.missing_range.
  rewrite (C1 : R.missing_loop hdr (Z.of_N maxr) (rtable 0 sl) 0 R.empty_range = RP.st_of hdr cov). cbn [RP.st_of R.r_items R.r_index_rev R.r_count].
  rewrite rev_append_rev, rev_involutive, app_nil_r, <- RP.build_coalesce, C3.
  split; [reflexivity|]. split; [exact C2|]. split; [reflexivity|].
  eapply Forall_impl; [|exact C4]. cbn beta. intros nc [pre [s [post [E1 [E2 [E3 [E4 [E5 E6]]]]]]]].
  exists pre, s, post. cbn [Nat.add] in E2. rewrite N.add_0_l in E6. auto 10.
Qed.
