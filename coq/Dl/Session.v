(** Several transfers on one zckDL, the way src/zck_dl.c drives the library: before every
    request [zck_dl_reset], [zck_get_missing_range], [zck_dl_set_range]; a transfer may break
    off anywhere (its fragment list simply stops).  Definitions only.

    [zck_dl_reset] (src/lib/dl/dl.c), field by field:
      reset_mp(dl->mp)                -> mp state 0, length 0, buffer freed
      dl->dl_chunk_data = 0           -> d_pos := 0
      clear_dl_regex(dl)              -> x_rx := None
      free(dl->boundary); = NULL      -> x_boundary := None
      memset(dl, 0, sizeof(zckDL))    -> write_in_chunk := 0, tgt_check := NULL, range := NULL
                                         (so the cursor range->index.current of the old range is gone)
      zck, dl, ul, mp restored        -> the target context is untouched: its error state, the
                                         chunk hash context, the file, the file position and the
                                         chunk table with its flags stay as the broken transfer
                                         left them. *)
From ZV Require Import Base.Bytes Dl.DlWrite Dl.Multipart.
Local Open Scope N_scope.

Definition dl_reset (x : xstate) : xstate :=
  let s := x_dl x in
  mkX (mkDl (d_err s) 0 0 None None (d_acc s) (d_fpos s) (d_file s) (d_tab s))
      (mkMp false 0 []) None None.

(** the range index [zck_get_missing_range(zck, -1)] builds: every chunk with valid == 0 that
    has stored bytes, in table order; start = offset inside the concatenated payload *)
Fixpoint missing_from (tab : list chunk) (t : nat) (pos : N) : list rentry :=
  match tab with
  | [] => []
  | c :: rest =>
      match c_valid c with
      | VUnknown =>
          if 0 <? c_len c
          then mkRentry pos (c_len c) (c_digest c) t :: missing_from rest (S t) (pos + c_len c)
          else missing_from rest (S t) pos
      | _ => missing_from rest (S t) pos
      end
  end.
Definition missing_ridx (tab : list chunk) : list rentry := missing_from tab 0 0.

(** * Re-scan of the target between transfers

    What a client that re-checks its file does, and src/zck_dl.c does once at the start:
    [zck_find_valid_chunks] followed by [zck_reset_failed_chunks].  This is NOT a transcription
    of validate_checksums (that is the C09 scan); it is its specification: every flag is
    recomputed from the file — valid iff the chunk's extent lies inside the file and its bytes
    hash to the digest (a first chunk without bytes is valid by decree), unknown otherwise
    (failed = -1 is turned back into 0 by zck_reset_failed_chunks).  Side effects that matter
    to the download path: the chunk hash context is finalised, the descriptor is left at the
    start of the data section.  Not modelled: the whole-data checksum comparison made when all
    chunks are good (in the harness the stored data digest is that of the true chunk bytes, so
    it agrees whenever all chunk digests agree).  With the error flag set the scan refuses to
    run and only the failed flags are reset. *)
Section Rescan.
Variable H : bytes -> bytes.
Variable doff : N.

Definition rescan_flag (file : bytes) (t : nat) (c : chunk) : vflag :=
  if (t =? 0)%nat && (c_len c =? 0) then VValid else
  if (doff + c_start c + c_len c <=? len file) &&
     chunk_digest_ok H c (fread file (doff + c_start c) (N.to_nat (c_len c)))
  then VValid else VUnknown.

Fixpoint rescan_tab (file : bytes) (tab : list chunk) (t : nat) : list chunk :=
  match tab with
  | [] => []
  | c :: rest =>
      mkChunk (c_start c) (c_len c) (c_digest c) (rescan_flag file t c) :: rescan_tab file rest (S t)
  end.

Definition unfail (tab : list chunk) : list chunk :=
  map (fun c => mkChunk (c_start c) (c_len c) (c_digest c)
                  (match c_valid c with VFailed => VUnknown | v => v end)) tab.

Definition rescan (x : xstate) : xstate :=
  let s := x_dl x in
  if d_err s then
    mkX (mkDl true (d_pos s) (d_wic s) (d_tgt s) (d_cur s) (d_acc s) (d_fpos s) (d_file s) (unfail (d_tab s)))
        (x_mp x) (x_boundary x) (x_rx x)
  else
    mkX (mkDl false (d_pos s) (d_wic s) (d_tgt s) (d_cur s) None doff (d_file s)
              (rescan_tab (d_file s) (d_tab s) 0))
        (x_mp x) (x_boundary x) (x_rx x).
End Rescan.

(** [zck_clear_error] on the target context between transfers: a recoverable error (every error the
    download model sets is one: set_error, never set_fatal_error — fatal ones come from failed
    writes, Io/DlFaults.v) is forgotten; nothing else changes.  While the error is pending
    zck_get_missing_range returns NULL: the client has no range to set, and every header line and
    body fragment is refused at the entry checks, which is what the model does for any range. *)
Definition clear_error (x : xstate) : xstate :=
  let s := x_dl x in
  mkX (mkDl false (d_pos s) (d_wic s) (d_tgt s) (d_cur s) (d_acc s) (d_fpos s) (d_file s) (d_tab s))
      (x_mp x) (x_boundary x) (x_rx x).

Record transfer := mkT {
  t_hdrs : list bytes;     (* response header lines handed to zck_header_cb *)
  t_frags : list bytes }.  (* body fragments handed to zck_write_chunk_cb; may stop early *)

Section WithOracles.
Variable H : bytes -> bytes.
Variable doff : N.
Variable rx_comp : bytes -> bool.
Variable rx_exec : bytes -> bytes -> option ((N * N) * (N * N)).

Definition run_transfer (x : xstate) (t : transfer) : xstate :=
  let x0 := dl_reset x in
  let ridx := missing_ridx (d_tab (x_dl x0)) in
  let x1 := fold_left (header_cb rx_comp rx_exec) (t_hdrs t) x0 in
  fst (fst (feed_frags H doff ridx rx_comp rx_exec x1 (t_frags t))).

Definition session (x : xstate) (ts : list transfer) : xstate := fold_left run_transfer ts x.
End WithOracles.
