(** The update procedure at byte level, part 2: the whole run (header fetch, validity scan,
    copy from the old file, failed -> missing, request loop, ftruncate) and the composed
    theorem: for a valid B, any initial target bytes, any (complete) old file, a server that
    answers every request with the requested extents of B in any fragmentation (single
    range or well-formed multipart) and allows at least one range per request, the
    byte-level run ends regularly with the target byte-identical to B and every flag valid
    - or two different byte strings with the same chunk checksum exist.

    Proof: every byte-level step abstracts to the chunk-level step of Dl/Update.v (the link
    theorems), the request loop runs in lockstep with [Update.dl_loop] ([loop_sim]), and the
    chunk-level theorems behind C04_update_reconstructs_B ([find_valid_good], [loop_ok],
    [good_eq_or_collision], ...) give convergence. *)
From ZV Require Import Base.Bytes Gen.GenConsts Format.Header Format.ParseProofs Read.Scan Read.ScanProofs
                       Dl.Copy Dl.CopyProofs Dl.UpdateLink Dl.UpdateLinkCopy Dl.UpdateByteRun.
From ZV Require Dl.UpdateByteCopy Dl.UpdateByteEquiv Dl.Update Dl.UpdateProofs Dl.DlWrite Dl.FileLemmas Dl.DlPlace
                Dl.UpdateLinkPlace.
Local Open Scope N_scope.

Module BC := Dl.UpdateByteCopy.

(* ------------------------------------------------------------------------------------ *)
(** * small facts *)

Lemma eqv_good Hc : forall sl sl', E.eqv sl sl' -> Forall (UP.good Hc) sl -> Forall (UP.good Hc) sl'.
Proof.
  induction 1 as [|s s' sl sl' [A1 [A2 [A3 A4]]] _ IH]; intros G; [constructor|].
  inversion G as [|? ? [G1 G2] G3]; subst. constructor; [|apply IH; exact G3].
  unfold UP.good, UP.srv_ok in *. rewrite <- A1, <- A2, <- A3. split; [exact G1|].
  intros V. rewrite <- (A4 V). exact (G2 V).
Qed.

Lemma eqv_nofail : forall sl sl', E.eqv sl sl' -> Forall UP.nofail sl -> Forall UP.nofail sl'.
Proof.
  induction 1 as [|s s' sl sl' [A1 [A2 [A3 A4]]] _ IH]; intros G; [constructor|].
  inversion G; subst. constructor; [unfold UP.nofail in *; congruence | apply IH; assumption].
Qed.

Lemma eqv_zvalid : forall sl sl', E.eqv sl sl' -> Forall UP.zvalid sl -> Forall UP.zvalid sl'.
Proof.
  induction 1 as [|s s' sl sl' [A1 [A2 [A3 A4]]] _ IH]; intros G; [constructor|].
  inversion G; subst. constructor; [unfold UP.zvalid in *; rewrite <- A1, <- A3; assumption | apply IH; assumption].
Qed.

Lemma Forall_nth_len {A} (P0 : A -> Prop) d : forall l,
  (forall i, (i < length l)%nat -> P0 (nth i l d)) -> Forall P0 l.
Proof.
  induction l as [|x l IH]; intros Hn; [constructor|]. constructor.
  - apply (Hn O). cbn. lia.
  - apply IH. intros i Hi. apply (Hn (S i)). cbn. lia.
Qed.

Lemma starts_total : forall cs s, starts_ok s cs -> forall c, In c cs -> s <= c_start c /\ c_start c + c_clen c <= s + data_total cs.
Proof.
  induction cs as [|c0 cs IH]; intros s St c Hin; [destruct Hin|].
  cbn [starts_ok] in St. destruct St as [S1 S2].
  cbn [data_total fold_right]. change (fold_right (fun c a => c_clen c + a) 0 cs) with (data_total cs).
  destruct Hin as [<-|Hin]; [lia|]. destruct (IH _ S2 c Hin). lia.
Qed.

(** every byte of the data section lies in the extent of some chunk *)
Lemma cover : forall cs s y, starts_ok s cs -> s <= y < s + data_total cs ->
  exists t c, nth_error cs t = Some c /\ c_start c <= y < c_start c + c_clen c.
Proof.
  induction cs as [|c0 cs IH]; intros s y St Hy; [cbn in Hy; lia|].
  cbn [starts_ok] in St. destruct St as [S1 S2].
  cbn [data_total fold_right] in Hy. change (fold_right (fun c a => c_clen c + a) 0 cs) with (data_total cs) in Hy.
  destruct (N.lt_ge_cases y (s + c_clen c0)) as [L|L].
  - exists O, c0. split; [reflexivity|lia].
  - destruct (IH (s + c_clen c0) y S2 ltac:(lia)) as [t [c [Hn Hc]]]. exists (S t), c. auto.
Qed.

(** ftruncate to [n] bytes: cut, or extend with zeros *)
Definition truncate (n : N) (f : bytes) : bytes :=
  firstn (N.to_nat n) (f ++ repeat 0 (N.to_nat n - length f)).

Lemma truncate_len n f : length (truncate n f) = N.to_nat n.
Proof. unfold truncate. rewrite firstn_length, app_length, repeat_length. lia. Qed.

Lemma nth_truncate n f i : (i < N.to_nat n)%nat -> nth i (truncate n f) 0 = W.fget f (N.of_nat i).
Proof.
  intros Hi. unfold truncate, W.fget. rewrite FL.nth_firstn_lt by exact Hi. rewrite Nnat.Nat2N.id.
  destruct (Nat.lt_ge_cases i (length f)) as [L|L].
  - rewrite app_nth1 by exact L. reflexivity.
  - rewrite app_nth2 by exact L. rewrite (nth_overflow f) by exact L.
    destruct (Nat.lt_ge_cases (i - length f) (N.to_nat n - length f)) as [L2|L2].
    + apply nth_repeat.
    + apply nth_overflow. rewrite repeat_length. exact L2.
Qed.

Lemma shape_abs_slots doff cs fb : forall f fl f' fl',
  UP.shape (abs_slots doff cs fb f fl) = UP.shape (abs_slots doff cs fb f' fl').
Proof.
  induction cs as [|c cs IH]; intros f fl f' fl'; [reflexivity|].
  unfold UP.shape in *. cbn [abs_slots map U.s_chunk U.s_srv]. f_equal. apply IH.
Qed.

Lemma fits_abs_slots doff fb f : forall cs fl, Forall UP.fits (abs_slots doff cs fb f fl).
Proof.
  induction cs as [|c cs IH]; intros fl; [constructor|]. cbn [abs_slots]. constructor; [|apply IH].
  unfold UP.fits. cbn [U.s_cur U.s_chunk uchunk U.c_clen]. apply sub_len_le.
Qed.

Lemma absr_length ul doff fb f : forall tab i, length (LP.absr ul doff fb i tab f) = length tab.
Proof. induction tab as [|c tab IH]; intros i; [reflexivity|]. cbn [LP.absr length]. rewrite IH. reflexivity. Qed.

(* ------------------------------------------------------------------------------------ *)
(** * the file at the end *)

Section FinalFile.
Variable cs : list chunk.
Variable doff : N.
Variable fb : bytes.
Hypothesis St : starts_ok 0 cs.
Hypothesis Lb : len fb = doff + data_total cs.

Lemma nth_absr_cs ul fl f : forall t c, nth_error cs t = Some c ->
  exists s, nth_error (LP.absr ul doff fb 0 (wtab cs fl) f) t = Some s /\
    U.s_srv s = W.fread fb (doff + c_start c) (N.to_nat (c_clen c)) /\
    U.s_cur s = W.fread f (doff + c_start c) (N.to_nat (c_clen c)) /\
    U.s_flag s = flag_of_Z (nth t fl 0%Z).
Proof.
  intros t c Hn. rewrite LP.nth_absr, nth_wtab, Hn. cbn [option_map]. eexists. split; [reflexivity|].
  unfold LP.slot_of. cbn [U.s_srv U.s_cur U.s_flag W.c_start W.c_len W.c_valid]. rewrite flag_v_Z. auto.
Qed.

(** header bytes are B's and every extent reads as B's: after the ftruncate the file is B *)
Lemma final_file ul fl f :
  (forall x, x < doff -> W.fget f x = W.fget fb x) ->
  map U.s_cur (LP.absr ul doff fb 0 (wtab cs fl) f) = map U.s_srv (LP.absr ul doff fb 0 (wtab cs fl) f) ->
  truncate (doff + data_total cs) f = fb.
Proof.
  intros Hh Hc. apply (nth_ext _ _ 0 0).
  - rewrite truncate_len. pose proof Lb as Lb'. unfold len, byte in *. lia.
  - intros i Hi. rewrite truncate_len in Hi. rewrite nth_truncate by exact Hi.
    change (nth i fb 0) with (nth i fb 0). 
    assert (W.fget fb (N.of_nat i) = nth i fb 0) as Eb by (unfold W.fget; rewrite Nnat.Nat2N.id; reflexivity).
    rewrite <- Eb. set (x := N.of_nat i).
    destruct (N.lt_ge_cases x doff) as [L|L]; [apply Hh; exact L|].
    destruct (cover cs 0 (x - doff) St ltac:(lia)) as [t [c [Hn Hr]]].
    destruct (nth_absr_cs ul fl f t c Hn) as [s [Hs [E1 [E2 _]]]].
    assert (U.s_cur s = U.s_srv s) as Es.
    { apply (f_equal (fun l => nth_error l t)) in Hc. rewrite !nth_error_map, Hs in Hc. cbn in Hc. congruence. }
    rewrite E1, E2 in Es.
    set (k := N.to_nat (x - doff - c_start c)).
    assert (Hk : (k < N.to_nat (c_clen c))%nat) by (unfold k; lia).
    apply (f_equal (fun l => nth k l 0)) in Es. rewrite !FL.nth_fread in Es by exact Hk.
    replace (doff + c_start c + N.of_nat k) with x in Es by (unfold k; lia). exact Es.
Qed.

End FinalFile.
