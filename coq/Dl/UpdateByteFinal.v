(** The update procedure at byte level, part 2: the whole run (header fetch, validity scan,
    copy from the old file, failed -> missing, request loop, ftruncate) and the composed
    theorem: for a valid B, any initial target bytes, any (complete) old file, a server that
    answers every request with the requested extents of B in any fragmentation (single
    range or well-formed multipart) and allows at least one range per request, the
    byte-level run ends regularly with the target byte-identical to B and every flag valid
    - or two different byte strings with the same chunk checksum exist.

    Proof: every byte-level step abstracts to the chunk-level step of Dl/Update.v (the link
    theorems), the request loop runs in lockstep with [Update.dl_loop] ([loop_sim]), and the
    chunk-level theorems behind C04_update_reconstructs_B ([find_valid_good], [loop_ok],
    [good_eq_or_collision], ...) give convergence. *)
From ZV Require Import Base.Bytes Gen.GenConsts Format.Header Format.ParseProofs Read.Scan Read.ScanProofs
                       Dl.Copy Dl.CopyProofs Dl.UpdateLink Dl.UpdateLinkCopy Dl.UpdateByteRun.
From ZV Require Dl.UpdateByteCopy Dl.UpdateByteEquiv Dl.Update Dl.UpdateProofs Dl.DlWrite Dl.FileLemmas Dl.DlPlace
                Dl.UpdateLinkPlace.
Local Open Scope N_scope.

Module BC := Dl.UpdateByteCopy.

(* ------------------------------------------------------------------------------------ *)
(** * small facts *)

Lemma eqv_good Hc : forall sl sl', E.eqv sl sl' -> Forall (UP.good Hc) sl -> Forall (UP.good Hc) sl'.
Proof.
  induction 1 as [|s s' sl sl' [A1 [A2 [A3 A4]]] _ IH]; intros G; [constructor|].
  inversion G as [|? ? [G1 G2] G3]; subst. constructor; [|apply IH; exact G3].
  unfold UP.good, UP.srv_ok in *. rewrite <- A1, <- A2, <- A3. split; [exact G1|].
  intros V. rewrite <- (A4 V). exact (G2 V).
Qed.

Lemma eqv_nofail : forall sl sl', E.eqv sl sl' -> Forall UP.nofail sl -> Forall UP.nofail sl'.
Proof.
  induction 1 as [|s s' sl sl' [A1 [A2 [A3 A4]]] _ IH]; intros G; [constructor|].
  inversion G; subst. constructor; [unfold UP.nofail in *; congruence | apply IH; assumption].
Qed.

Lemma eqv_zvalid : forall sl sl', E.eqv sl sl' -> Forall UP.zvalid sl -> Forall UP.zvalid sl'.
Proof.
  induction 1 as [|s s' sl sl' [A1 [A2 [A3 A4]]] _ IH]; intros G; [constructor|].
  inversion G; subst. constructor; [unfold UP.zvalid in *; rewrite <- A1, <- A3; assumption | apply IH; assumption].
Qed.

Lemma Forall_nth_len {A} (P0 : A -> Prop) d : forall l,
  (forall i, (i < length l)%nat -> P0 (nth i l d)) -> Forall P0 l.
Proof.
  induction l as [|x l IH]; intros Hn; [constructor|]. constructor.
  - apply (Hn O). cbn. lia.
  - apply IH. intros i Hi. apply (Hn (S i)). cbn. lia.
Qed.

Lemma starts_total : forall cs s, starts_ok s cs -> forall c, In c cs -> s <= c_start c /\ c_start c + c_clen c <= s + data_total cs.
Proof.
  induction cs as [|c0 cs IH]; intros s St c Hin; [destruct Hin|].
  cbn [starts_ok] in St. destruct St as [S1 S2].
  cbn [data_total fold_right]. change (fold_right (fun c a => c_clen c + a) 0 cs) with (data_total cs).
  destruct Hin as [<-|Hin]; [lia|]. destruct (IH _ S2 c Hin). lia.
Qed.

(** every byte of the data section lies in the extent of some chunk *)
Lemma cover : forall cs s y, starts_ok s cs -> s <= y < s + data_total cs ->
  exists t c, nth_error cs t = Some c /\ c_start c <= y < c_start c + c_clen c.
Proof.
  induction cs as [|c0 cs IH]; intros s y St Hy; [cbn in Hy; lia|].
  cbn [starts_ok] in St. destruct St as [S1 S2].
  cbn [data_total fold_right] in Hy. change (fold_right (fun c a => c_clen c + a) 0 cs) with (data_total cs) in Hy.
  destruct (N.lt_ge_cases y (s + c_clen c0)) as [L|L].
  - exists O, c0. split; [reflexivity|lia].
  - destruct (IH (s + c_clen c0) y S2 ltac:(lia)) as [t [c [Hn Hc]]]. exists (S t), c. auto.
Qed.

(** ftruncate to [n] bytes: cut, or extend with zeros *)
Definition truncate (n : N) (f : bytes) : bytes :=
  firstn (N.to_nat n) (f ++ repeat 0 (N.to_nat n - length f)).

Lemma truncate_len n f : length (truncate n f) = N.to_nat n.
Proof. unfold truncate. rewrite firstn_length, app_length, repeat_length. lia. Qed.

Lemma nth_truncate n f i : (i < N.to_nat n)%nat -> nth i (truncate n f) 0 = W.fget f (N.of_nat i).
Proof.
  intros Hi. unfold truncate, W.fget. rewrite FL.nth_firstn_lt by exact Hi. rewrite Nnat.Nat2N.id.
  destruct (Nat.lt_ge_cases i (length f)) as [L|L].
  - rewrite app_nth1 by exact L. reflexivity.
  - rewrite app_nth2 by exact L. rewrite (nth_overflow f) by exact L.
    destruct (Nat.lt_ge_cases (i - length f) (N.to_nat n - length f)) as [L2|L2].
    + apply nth_repeat.
    + apply nth_overflow. rewrite repeat_length. exact L2.
Qed.

Lemma shape_abs_slots doff cs fb : forall f fl f' fl',
  UP.shape (abs_slots doff cs fb f fl) = UP.shape (abs_slots doff cs fb f' fl').
Proof.
  induction cs as [|c cs IH]; intros f fl f' fl'; [reflexivity|].
  unfold UP.shape in *. cbn [abs_slots map U.s_chunk U.s_srv]. f_equal. apply IH.
Qed.

Lemma fits_abs_slots doff fb f : forall cs fl, Forall UP.fits (abs_slots doff cs fb f fl).
Proof.
  induction cs as [|c cs IH]; intros fl; [constructor|]. cbn [abs_slots]. constructor; [|apply IH].
  unfold UP.fits. cbn [U.s_cur U.s_chunk uchunk U.c_clen]. apply sub_len_le.
Qed.

Lemma absr_length ul doff fb f : forall tab i, length (LP.absr ul doff fb i tab f) = length tab.
Proof. induction tab as [|c tab IH]; intros i; [reflexivity|]. cbn [LP.absr length]. rewrite IH. reflexivity. Qed.

(* ------------------------------------------------------------------------------------ *)
(** * the file at the end *)

Lemma nth_fl_of : forall tab i,
  nth i (fl_of tab) 0%Z = match nth_error tab i with Some c => Z_of_v (W.c_valid c) | None => 0%Z end.
Proof.
  induction tab as [|c tab IH]; intros i; [destruct i; reflexivity|].
  destruct i as [|i]; cbn [fl_of map nth nth_error]; [reflexivity|]. apply IH.
Qed.

Section FinalFile.
Variable cs : list chunk.
Variable doff : N.
Variable fb : bytes.
Hypothesis St : starts_ok 0 cs.
Hypothesis Lb : len fb = doff + data_total cs.

Lemma nth_absr_cs ul fl f : forall t c, nth_error cs t = Some c ->
  exists s, nth_error (LP.absr ul doff fb 0 (wtab cs fl) f) t = Some s /\
    U.s_srv s = W.fread fb (doff + c_start c) (N.to_nat (c_clen c)) /\
    U.s_cur s = W.fread f (doff + c_start c) (N.to_nat (c_clen c)) /\
    U.s_flag s = flag_of_Z (nth t fl 0%Z).
Proof.
  intros t c Hn. rewrite LP.nth_absr, nth_wtab, Hn. cbn [option_map]. eexists. split; [reflexivity|].
  unfold LP.slot_of. cbn [U.s_srv U.s_cur U.s_flag W.c_start W.c_len W.c_valid]. rewrite flag_v_Z. auto.
Qed.

(** header bytes are B's and every extent reads as B's: after the ftruncate the file is B *)
Lemma final_file ul fl f :
  (forall x, x < doff -> W.fget f x = W.fget fb x) ->
  map U.s_cur (LP.absr ul doff fb 0 (wtab cs fl) f) = map U.s_srv (LP.absr ul doff fb 0 (wtab cs fl) f) ->
  truncate (doff + data_total cs) f = fb.
Proof.
  intros Hh Hc. apply (nth_ext _ _ 0 0).
  - rewrite truncate_len. pose proof Lb as Lb'. unfold len, byte in *. lia.
  - intros i Hi. rewrite truncate_len in Hi. rewrite nth_truncate by exact Hi.
    change (nth i fb 0) with (nth i fb 0). 
    assert (W.fget fb (N.of_nat i) = nth i fb 0) as Eb by (unfold W.fget; rewrite Nnat.Nat2N.id; reflexivity).
    rewrite <- Eb. set (x := N.of_nat i).
    destruct (N.lt_ge_cases x doff) as [L|L]; [apply Hh; exact L|].
    destruct (cover cs 0 (x - doff) St ltac:(lia)) as [t [c [Hn Hr]]].
    destruct (nth_absr_cs ul fl f t c Hn) as [s [Hs [E1 [E2 _]]]].
    assert (U.s_cur s = U.s_srv s) as Es.
    { apply (f_equal (fun l => nth_error l t)) in Hc. rewrite !nth_error_map, Hs in Hc. cbn in Hc. congruence. }
    rewrite E1, E2 in Es.
    set (k := N.to_nat (x - doff - c_start c)).
    assert (Hk : (k < N.to_nat (c_clen c))%nat) by (unfold k; lia).
    apply (f_equal (fun l => nth k l 0)) in Es. rewrite !FL.nth_fread in Es by exact Hk.
    replace (doff + c_start c + N.of_nat k) with x in Es by (unfold k; lia). exact Es.
Qed.

End FinalFile.

(* ------------------------------------------------------------------------------------ *)
(** * the byte-level run *)

Section Run.
Variable H : N -> bytes -> bytes.
Variable h : header.        (* header record of B (what parse_impl returns for B) *)
Variable fb : bytes.        (* B, as the server holds it *)
Let cs := h_chunks h.
Let doff := data_offset h.
Let total := data_total cs.
Let Hw := H (h_chash h).
Let ds := N.to_nat (ds_of (h_chash h)).
Let Hc := Hc_of H h.
Let Hf := Hf_of H h.
Let Bn := abs_new h fb.
Let ul := ulf cs.

(** the header fetch: the probe and the rest of the header land at offset 0 *)
Definition fetch_bytes : bytes := firstn (N.to_nat (N.max U.min_download doff)) fb.

Definition byte_update (old : option (header * bytes)) (serve : list W.rentry -> resp) (srv : N)
                       (tf : bytes) (fl0 : list Z) (st : rstate)
  : option (bstatus * list Z * bytes * list U.event) :=
  let tf1 := W.file_write tf 0 fetch_bytes in
  match validate_checksums H h tf1 fl0 st with
  | None => None
  | Some r =>
      if (s_ret r =? 1)%Z then Some (BFinish, s_flags r, truncate (doff + total) tf1, [])
      else
        let '(fl2, tf2) :=
          match old with
          | Some (sh, sf) => match copy_chunks H sh sf h tf1 (s_flags r) with
                             | Some (a, b, _) => (a, b)
                             | None => (s_flags r, tf1)
                             end
          | None => (s_flags r, tf1)
          end in
        let fl3 := reset_flags fl2 in
        match U.tbl 0 with
        | None => Some (BOOB, fl3, tf2, [])
        | Some m =>
            let '(stt, tab, f, ev) :=
              byte_loop Hw doff serve srv (length cs + length range_attempt + 1) m 0 (wtab cs fl3) tf2 [] in
            Some (stt, fl_of tab, truncate (doff + total) f, ev)
        end
  end.

(** hypotheses about B *)
Hypothesis Wf : scan_wf h fb.
Hypothesis Det : h_detached h = false.
Hypothesis Szd : sized h.
Hypothesis Lb : len fb = doff + total.
Hypothesis B64 : doff + total < two64.
Hypothesis Bv : UP.wf_new Hc Hf Bn (U.t_slots (abs h fb fb [])).

Lemma St0 : starts_ok 0 cs.
Proof. destruct Wf as [_ [_ S0]]. exact S0. Qed.

Lemma Dpos : 0 < doff.
Proof. destruct Wf as [Nz _]. unfold doff. lia. Qed.

Lemma b_compl : b_complete cs doff fb.
Proof.
  unfold b_complete. apply Forall_forall. intros c Hin.
  destruct (starts_total cs 0 St0 c Hin) as [_ Hs]. fold total in Hs. rewrite Lb. lia.
Qed.

Lemma srv_ok_slots f fl : Forall (UP.srv_ok Hc) (abs_slots doff cs fb f fl).
Proof.
  destruct Bv as [Sv _]. unfold abs in Sv. cbn [U.t_slots] in Sv. fold cs doff in Sv.
  eapply (UP.srv_ok_shape Hc); [|exact Sv]. apply shape_abs_slots.
Qed.

Lemma sized_cs : Forall (fun c => length (c_digest c) = ds) cs.
Proof.
  destruct Szd as [Sc _]. fold cs in Sc. eapply Forall_impl; [|exact Sc]. cbn beta. intros c Lc.
  unfold ds, len in *. lia.
Qed.

(** every chunk of B with stored bytes passes the download code's digest test *)
Lemma bok : Forall (fun c => 0 < c_clen c ->
              W.chunk_digest_ok Hw (W.mkChunk (c_start c) (c_clen c) (c_digest c) W.VUnknown)
                (W.fread fb (doff + c_start c) (N.to_nat (c_clen c))) = true) cs.
Proof.
  apply Forall_forall. intros c Hin Pos.
  pose proof (srv_ok_slots fb []) as Sv. 
  apply In_nth_error in Hin. destruct Hin as [t Ht].
  assert (exists s, nth_error (abs_slots doff cs fb fb []) t = Some s /\ U.s_chunk s = uchunk c /\
                    U.s_srv s = sub fb (doff + c_start c) (c_clen c)) as [s [Hs [E1 E2]]].
  { clear - Ht. revert t Ht. generalize (@nil Z). induction cs as [|c0 cs' IH]; intros fl t Ht; [destruct t; discriminate|].
    destruct t as [|t]; cbn [nth_error abs_slots] in *.
    - inversion Ht; subst. eexists. split; [reflexivity|]. auto.
    - apply IH. exact Ht. }
  rewrite Forall_forall in Sv. specialize (Sv s (nth_error_In _ _ Hs)). unfold UP.srv_ok in Sv.
  rewrite E1, E2 in Sv. apply UP.chunk_ok_split in Sv; [|exact Hf]. destruct Sv as [Ls Dg].
  pose proof b_compl as Bc. unfold b_complete in Bc. rewrite Forall_forall in Bc.
  specialize (Bc c (nth_error_In _ _ Ht)).
  rewrite fread_sub by lia.
  unfold U.digest_ok in Dg. cbn [uchunk U.c_clen U.c_digest] in Dg.
  replace (c_clen c =? 0) with false in Dg by (symmetry; apply N.eqb_neq; lia).
  unfold W.chunk_digest_ok. cbn [W.c_len W.c_digest].
  replace (c_clen c =? 0) with false by (symmetry; apply N.eqb_neq; lia).
  pose proof sized_cs as Sc. rewrite Forall_forall in Sc. rewrite (Sc c (nth_error_In _ _ Ht)).
  exact Dg.
Qed.

(** the file after the header fetch *)
Lemma fetched_file tf : let tf1 := W.file_write tf 0 fetch_bytes in
  doff <= len tf1 /\ (forall x, x < doff -> W.fget tf1 x = W.fget fb x) /\ scan_wf h tf1.
Proof.
  intros tf1. destruct Wf as [Nz [Le S0]]. fold doff in Nz, Le.
  assert (Lp : doff <= len fetch_bytes).
  { unfold fetch_bytes. rewrite len_firstn. lia. }
  assert (Ne : fetch_bytes <> []) by (intros X; rewrite X in Lp; cbn in Lp; lia).
  assert (L1 : doff <= len tf1).
  { pose proof (file_write_len_cover tf 0 fetch_bytes Ne). fold tf1 in H0. lia. }
  split; [exact L1|]. split.
  - intros x Hx. unfold tf1. rewrite FL.fget_file_write.
    replace (0 <=? x) with true by (symmetry; apply N.leb_le; lia).
    replace (x <? 0 + len fetch_bytes) with true by (symmetry; apply N.ltb_lt; lia).
    cbn [andb]. unfold fetch_bytes, W.fget. rewrite N.sub_0_r. apply FL.nth_firstn_lt. lia.
  - split; [exact Nz|]. split; [exact L1 | exact S0].
Qed.

(* ---------------------------------------------------------------------------------- *)
(** * flags: values and extents *)

Definition norm (v : Z) : Prop := (v = 0 \/ v = 1 \/ v = -1)%Z.

Lemma nth_abs_slots f : forall cs' fl i,
  nth_error (abs_slots doff cs' fb f fl) i =
  option_map (fun c => U.mkSlot (uchunk c) (sub fb (doff + c_start c) (c_clen c))
                                (sub f (doff + c_start c) (c_clen c)) (flag_of_Z (nth i fl 0%Z)))
             (nth_error cs' i).
Proof.
  induction cs' as [|c cs' IH]; intros fl i; [destruct i; reflexivity|].
  destruct i as [|i]; cbn [abs_slots nth_error option_map].
  - destruct fl; reflexivity.
  - rewrite IH. destruct fl; [destruct i|]; reflexivity.
Qed.

(** a chunk that is flagged valid with a matching extent lies inside the file *)
Lemma inside_of_good f fl :
  Forall (UP.good Hc) (abs_slots doff cs fb f fl) -> inside doff cs fl f.
Proof.
  intros G i c Hn Hv. rewrite Forall_forall in G.
  pose proof (nth_abs_slots f cs fl i) as Hs. rewrite Hn in Hs. cbn [option_map] in Hs.
  destruct (G _ (nth_error_In _ _ Hs)) as [_ G2]. cbn [U.s_flag U.s_chunk U.s_cur] in G2.
  rewrite Hv in G2. specialize (G2 eq_refl). apply UP.chunk_ok_split in G2; [|exact Hf].
  destruct G2 as [Lc _]. cbn [uchunk U.c_clen] in Lc.
  destruct (N.eq_dec (c_clen c) 0) as [Z|Z]; [left; exact Z|right].
  rewrite (len_sub H) in Lc. lia.
Qed.

Lemma expected_flags_norm f : length (expected_flags H h f) = length cs /\ Forall norm (expected_flags H h f).
Proof.
  unfold expected_flags. fold cs.
  destruct (all_true (classify H h f true cs) && negb (uflag h) && negb (data_good H h f)).
  - split; [rewrite map_length; apply classify_length|].
    apply Forall_forall. intros v Hin. apply in_map_iff in Hin. destruct Hin as [b [<- _]]. right; right; reflexivity.
  - split; [rewrite map_length; apply classify_length|].
    apply Forall_forall. intros v Hin. apply in_map_iff in Hin. destruct Hin as [b [<- _]].
    destruct b; [right; left|right; right]; reflexivity.
Qed.

Lemma nth_reset fl i : nth i (reset_flags fl) 0%Z = (if (nth i fl 0 =? -1)%Z then 0 else nth i fl 0)%Z.
Proof.
  unfold reset_flags.
  exact (map_nth (fun v => if (v =? -1)%Z then 0%Z else v) fl 0%Z i).
Qed.

Lemma norm_nth fl i : Forall norm fl -> norm (nth i fl 0%Z).
Proof.
  intros F. destruct (Nat.lt_ge_cases i (length fl)) as [L|L].
  - rewrite Forall_forall in F. apply F. apply nth_In. exact L.
  - rewrite nth_overflow by exact L. left. reflexivity.
Qed.

(* ---------------------------------------------------------------------------------- *)
(** * the composed theorem *)

Definition old_ok (old : option (header * bytes)) : Prop :=
  match old with
  | None => True
  | Some (sh, sf) => known (h_chash sh) /\ known (h_chash h) /\ sized sh /\ src_complete sh sf
  end.

(** the server holds B and answers every consistent request with the requested extents *)
Definition serves_B (serve : list W.rentry -> resp) : Prop :=
  forall fl ridx, P.req_ok doff ridx (wtab cs fl) -> resp_ok (datas_of doff fb (wtab cs fl) ridx) (serve ridx).

Lemma finish_status Bx hdr sl ev : exists e, U.o_status (U.finish Hc Hf Bx hdr sl ev) = U.Done e.
Proof. unfold U.finish. destruct (U.validate_data Hc Hf Bx sl) as [ok sl']. eexists. reflexivity. Qed.

Lemma all_ones fl' f : Forall (fun s => U.s_flag s = U.Valid) (abs_slots doff cs fb f fl') ->
  forall i c, nth_error cs i = Some c -> nth i fl' 0%Z = 1%Z.
Proof.
  intros V i c Hn. pose proof (nth_abs_slots f cs fl' i) as Hs. rewrite Hn in Hs. cbn [option_map] in Hs.
  rewrite Forall_forall in V. specialize (V _ (nth_error_In _ _ Hs)). cbn [U.s_flag] in V.
  apply flag_valid_iff. exact V.
Qed.

Definition old_abs (old : option (header * bytes)) : option U.oldfile :=
  match old with Some (sh, sf) => Some (abs_old sh sf) | None => None end.

(** the chunks the run has to fetch: [Update.needed] on the abstraction of the target as it
    is after the header fetch *)
Definition needed_of (old : option (header * bytes)) (tf : bytes) (fl0 : list Z) : list nat :=
  U.needed Hc (old_abs old) true 0 (abs_slots doff cs fb (W.file_write tf 0 fetch_bytes) fl0).

Lemma finish_events Bx hdr sl ev : U.o_events (U.finish Hc Hf Bx hdr sl ev) = ev.
Proof. unfold U.finish. destruct (U.validate_data Hc Hf Bx sl) as [ok sl']. reflexivity. Qed.

Lemma missing_idx_eqv : forall sl sl' i, E.eqv sl sl' -> UP.missing_idx i sl = UP.missing_idx i sl'.
Proof.
  induction sl as [|s sl IH]; intros sl' i Ev; inversion Ev; subst; [reflexivity|].
  cbn [UP.missing_idx]. rewrite (E.is_missing_eqv s y H2). rewrite (IH l' (S i) H4). reflexivity.
Qed.

(** the composed theorem with the requests: the served requests are exactly [needed_of], in
    file order, each chunk once; every request (also a refused one) asks only for such chunks *)
Theorem byte_update_full old serve srv tf fl0 st :
  old_ok old -> 1 <= srv -> serves_B serve ->
  UP.collision Hc \/
  exists fl' ev, byte_update old serve srv tf fl0 st = Some (BFinish, fl', fb, ev) /\
                 (forall i c, nth_error cs i = Some c -> nth i fl' 0%Z = 1%Z) /\
                 U.served_chunks ev = needed_of old tf fl0 /\
                 (forall i, In i (U.asked_chunks ev) -> In i (needed_of old tf fl0)).
Proof.
  intros Ho Hsrv Sv. unfold byte_update, needed_of.
  set (tf1 := W.file_write tf 0 fetch_bytes).
  destruct (fetched_file tf) as [L1 [Hh1 W1]]. fold tf1 in L1, Hh1, W1.
  destruct (validate_checksums_full H h tf1 fl0 st W1 Det) as [ch Er]. rewrite Er. cbn [s_ret s_flags].
  set (fl1 := expected_flags H h tf1).
  pose proof (find_valid_is_expected H h fb tf1 fl0 St0 Szd) as FV. fold cs doff Hc Hf Bn fl1 in FV.
  set (sl0 := abs_slots doff cs fb tf1 fl0) in *. set (sl1 := abs_slots doff cs fb tf1 fl1) in *.
  pose proof (srv_ok_slots tf1 fl0) as So0. pose proof (fits_abs_slots doff fb tf1 cs fl0) as Fi0. fold sl0 in So0, Fi0.
  pose proof (UP.find_valid_good Hc Hf Bn sl0 So0 Fi0) as G1. rewrite FV in G1. cbn [snd] in G1.
  pose proof (inside_of_good tf1 fl1 G1) as In1.
  destruct (expected_flags_norm tf1) as [Len1 Nm1]. fold fl1 in Len1, Nm1.
  destruct (expected_ret H h tf1 =? 1)%Z eqn:Ret.
  - (* the target is complete already *)
    destruct (UP.find_valid_true Hc Hf Bn sl0 sl1 FV) as [_ A1]. apply UP.all_valid_spec in A1.
    pose proof (absr_abs_eqv cs doff fb [] cs fl1 tf1 eq_refl b_compl In1) as Ea. cbn [length] in Ea. fold sl1 in Ea.
    pose proof (E.eqv_all_valid sl1 _ (E.eqv_sym _ _ Ea) A1) as Es.
    destruct (UP.good_eq_or_collision Hc Hf sl1 G1 A1) as [Ec|C]; [|left; exact C].
    right. exists fl1, []. split; [|split].
    + rewrite Es in Ec. unfold total. rewrite (final_file cs doff fb St0 Lb _ fl1 tf1 Hh1 Ec). reflexivity.
    + apply (all_ones fl1 tf1). exact A1.
    + destruct (UP.find_valid_true Hc Hf Bn sl0 sl1 FV) as [E0 A0]. rewrite E0 in A0.
      fold sl0. rewrite (UP.needed_all_valid Hc (old_abs old) sl0 true 0 A0). cbn. split; [reflexivity|intros i []].
  - (* something is missing *)
    assert (WfB : UP.wf_new Hc Hf Bn sl0).
    { eapply (UP.wf_new_shape Hc Hf); [|exact Bv]. unfold abs. cbn [U.t_slots]. apply shape_abs_slots. }
    unfold U.find_valid in FV.
    destruct (U.all_valid (U.scan_flags Hc true sl0)) eqn:AV.
    { destruct (U.b_uncomp Bn) eqn:Ub; [inversion FV|].
      destruct (U.bytes_eqb (Hf (U.scanned_data true sl0)) (U.b_ddigest Bn)) eqn:Md; [inversion FV|].
      left. exact (UP.find_valid_mismatch_collision Hc Hf Bn sl0 WfB Fi0 AV Ub Md). }
    inversion FV as [E2]. clear FV.
    (* copy from the old file *)
    set (Aopt := old_abs old).
    assert (exists fl2 tf2,
              match old with
              | Some (sh, sf) => match copy_chunks H sh sf h tf1 fl1 with
                                 | Some (a, b, _) => (a, b) | None => (fl1, tf1) end
              | None => (fl1, tf1)
              end = (fl2, tf2) /\
              E.eqv (abs_slots doff cs fb tf2 fl2) (U.copy_chunks Hc Aopt sl1) /\
              (forall x, x < doff -> W.fget tf2 x = W.fget fb x) /\
              inside doff cs fl2 tf2 /\ length fl2 = length cs /\ Forall norm fl2)
      as [fl2 [tf2 [Em [Ecp [Hh2 [In2 [Len2 Nm2]]]]]]].
    { destruct old as [[sh sf]|].
      - destruct Ho as [Ks [Kt [Ss Sc]]].
        destruct (BC.link_copy_eqv H sh sf h fb tf1 fl1 Ks Kt Ss Szd St0 Sc) as [fl2 [tf2 [Ec [Ev [_ [_ Fi2]]]]]].
        { intros i c Hn Hv. destruct (In1 i c Hn Hv) as [Z|Cm]; [left; exact Z|right]. unfold ext_lo. fold doff. exact Cm. }
        { exact L1. }
        exists fl2, tf2. rewrite Ec. unfold Aopt. cbn [old_abs].
        destruct (copy_chunks_sound H sh sf h tf1 fl1 fl2 tf2 sf Ks Kt St0 Ec) as [_ [Lf [_ [Hb [_ Cp]]]]].
        split; [reflexivity|]. split; [exact Ev|].
        split; [intros x Hx; rewrite (Hb x Hx); apply Hh1; exact Hx|].
        split; [intros i c Hn Hv; destruct (Fi2 i c Hn Hv) as [Z|Cm]; [left; exact Z|right; unfold ext_lo in Cm; exact Cm]|].
        split; [exact Lf|].
        apply (Forall_nth_len norm 0%Z). intros i Hi. fold cs in Lf. rewrite Lf in Hi.
        destruct (nth_error cs i) as [tc|] eqn:Hn; [|apply nth_error_None in Hn; lia].
        destruct (Cp i tc Hn) as [_ [_ [Hv _]]]. pose proof (norm_nth fl1 i Nm1) as N1. unfold norm in *.
        destruct Hv as [->|[->| ->]]; auto.
      - exists fl1, tf1. unfold Aopt. cbn [old_abs U.copy_chunks]. split; [reflexivity|]. split; [apply E.eqv_refl|].
        split; [exact Hh1|]. split; [exact In1|]. split; [exact Len1 | exact Nm1]. }
    rewrite Em. clear Em.
    set (fl3 := reset_flags fl2).
    set (sl2 := U.reset_failed (U.copy_chunks Hc Aopt sl1)).
    destruct (UP.reset_failed_props Hc _ (UP.copy_chunks_good Hc Hf Aopt sl1 G1)) as [G2 [NF2 _]]. fold sl2 in G2, NF2.
    assert (ZV2 : Forall UP.zvalid sl2).
    { unfold sl2. rewrite <- E2. apply UP.copy_reset_zvalid. apply (UP.scan_flags_zvalid Hc Hf); assumption. }
    assert (In3 : inside doff cs fl3 tf2).
    { intros i c Hn Hv. apply (In2 i c Hn). unfold fl3 in Hv. rewrite nth_reset in Hv.
      destruct (nth i fl2 0 =? -1)%Z; [discriminate Hv | exact Hv]. }
    set (sa := LP.absr ul doff fb 0 (wtab cs fl3) tf2).
    assert (Esa : E.eqv sa sl2).
    { eapply E.eqv_trans; [exact (absr_abs_eqv cs doff fb [] cs fl3 tf2 eq_refl b_compl In3)|].
      unfold fl3. rewrite (link_reset_failed doff fb tf2 cs fl2 Len2 Nm2).
      apply E.reset_failed_eqv. exact Ecp. }
    pose proof (eqv_good Hc _ _ (E.eqv_sym _ _ Esa) G2) as Ga.
    pose proof (eqv_nofail _ _ (E.eqv_sym _ _ Esa) NF2) as NFa.
    pose proof (eqv_zvalid _ _ (E.eqv_sym _ _ Esa) ZV2) as ZVa.
    destruct UP.tbl_0 as [m Em]. rewrite Em.
    set (fuel := (length cs + length range_attempt + 1)%nat).
    pose proof (loop_sim Hw Hf ds cs doff fb serve srv St0 sized_cs Dpos B64 bok Sv Bn (firstn (N.to_nat doff) tf2) []
                  fuel m 0 fl3 tf2 [] Ga NFa) as Sim.
    destruct (UP.loop_ok Hc Hf fuel Bn srv (firstn (N.to_nat doff) tf2) [] m 0 sa [] Hsrv Ga NFa
                (UP.tbl_some_lt _ _ Em)
                ltac:(intros a Ea La; rewrite Em in Ea; inversion Ea; subst; exact La)
                ltac:(unfold fuel, U.missing_count; pose proof (UP.filter_len_le U.is_missing sa);
                      unfold sa in *; rewrite absr_length, wtab_length in *; lia))
      as [[_ [_ Nz]] | [sl_end [ev' [R1 [_ [_ [_ R5]]]]]]]; [elim Nz; exact ZVa|].
    destruct (R5 ZVa) as [R6 R7].
    fold sa in Sim.
    destruct (byte_loop Hw doff serve srv fuel m 0 (wtab cs fl3) tf2 []) as [[[stt tab'] f'] ev2].
    cbv zeta in Sim. destruct Sim as [[fl' Et] [Hh3 Sm]].
    destruct (finish_status Bn (firstn (N.to_nat doff) tf2) sl_end ([] ++ ev')) as [e Fe].
    rewrite <- R1 in Fe.
    destruct stt; try (pose proof (eq_trans (eq_sym Sm) Fe) as X; discriminate X); [|contradiction].
    destruct Sm as [Sm0 [Gf [NFf Mc]]]. subst tab'.
    assert (Vf : Forall (fun s => U.s_flag s = U.Valid) (LP.absr ul doff fb 0 (wtab cs fl') f')).
    { apply UP.no_missing_all_valid; [exact NFf|]. exact (eq_trans (mcount_abs cs doff fb f' (wtab cs fl') 0) Mc). }
    destruct (UP.good_eq_or_collision Hc Hf _ Gf Vf) as [Ec|C]; [|left; exact C].
    assert (Eev : ev2 = ev').
    { pose proof (eq_trans (eq_sym Sm0) R1) as X1. apply (f_equal U.o_events) in X1.
      rewrite !finish_events in X1. exact X1. }
    assert (Emi : UP.missing_idx 0 sa = U.needed Hc Aopt true 0 sl0).
    { rewrite (missing_idx_eqv sa sl2 0 Esa). unfold sl2. rewrite <- E2. apply UP.missing_after_copy. }
    right. exists (fl_of (wtab cs fl')), ev2. split; [|split; [|split]].
    + unfold total. rewrite (final_file cs doff fb St0 Lb ul fl' f'); [reflexivity| |exact Ec].
      intros x Hx. rewrite (Hh3 x Hx). apply Hh2. exact Hx.
    + intros i c Hn. destruct (nth_absr_cs cs doff fb ul fl' f' i c Hn) as [s [Hs [_ [_ Fs]]]].
      rewrite Forall_forall in Vf. specialize (Vf s (nth_error_In _ _ Hs)). rewrite Fs in Vf.
      apply flag_valid_iff in Vf. rewrite nth_fl_of, nth_wtab, Hn. cbn [option_map W.c_valid]. rewrite Vf. reflexivity.
    + rewrite Eev, R6. exact Emi.
    + intros i Hi. rewrite Eev in Hi. rewrite <- Emi. apply R7. exact Hi.
Qed.

Theorem byte_update_reconstructs old serve srv tf fl0 st :
  old_ok old -> 1 <= srv -> serves_B serve ->
  UP.collision Hc \/
  exists fl' ev, byte_update old serve srv tf fl0 st = Some (BFinish, fl', fb, ev) /\
                 (forall i c, nth_error cs i = Some c -> nth i fl' 0%Z = 1%Z).
Proof.
  intros Ho Hs Sv. destruct (byte_update_full old serve srv tf fl0 st Ho Hs Sv) as [C|[fl' [ev [E1 [E2 _]]]]];
    [left; exact C | right; eauto].
Qed.

End Run.

(* ------------------------------------------------------------------------------------ *)
(** * with the header reader: B is given as a file the reader accepts *)
From ZV Require Format.ParseImpl Dl.UpdateLinkHeader.

Lemma firstn_of_fget (a b : bytes) (n : N) :
  n <= len a -> n <= len b -> (forall x, x < n -> W.fget a x = W.fget b x) ->
  firstn (N.to_nat n) a = firstn (N.to_nat n) b.
Proof.
  intros La Lb Hx. apply (nth_ext _ _ 0 0).
  - rewrite !firstn_length. unfold len in *. lia.
  - intros i Hi. rewrite firstn_length in Hi. unfold len in *.
    rewrite !FL.nth_firstn_lt by lia. specialize (Hx (N.of_nat i) ltac:(lia)).
    unfold W.fget in Hx. rewrite Nnat.Nat2N.id in Hx. exact Hx.
Qed.

(** C04_byte_level_reconstructs_B.  [fb] is accepted by the header reader with record [h];
    every chunk of [fb] passes validate_chunk and its data digest is right ([wf_new] of its
    abstraction); [fb] ends with its data section.  Then, for every initial target file
    [tf] (any bytes, any length, also empty), any flags and context state, any old file
    whose extents are all inside it (or none), any server/transport that answers each
    request with the requested extents of [fb] - single-range body or well-formed multipart
    body, in any non-empty fragments - and allows at least one range per request:
    after the header fetch the reader finds [h] in the target; the byte-level run ends
    regularly; the target file is then [fb], byte for byte; every chunk flag is 1 -
    unless two different byte strings have the same chunk checksum. *)
Theorem byte_level_reconstructs (H : N -> bytes -> bytes) p h fb old serve srv tf fl0 st :
  Format.ParseImpl.parse_impl H p fb = Format.ParseImpl.POk h -> wf_bytes fb ->
  h_detached h = false -> sized h ->
  len fb = data_offset h + data_total (h_chunks h) ->
  data_offset h + data_total (h_chunks h) < two64 ->
  UP.wf_new (Hc_of H h) (Hf_of H h) (abs_new h fb) (U.t_slots (abs h fb fb [])) ->
  old_ok h old -> 1 <= srv -> serves_B h fb serve ->
  Format.ParseImpl.parse_impl H p (W.file_write tf 0 (fetch_bytes h fb)) = Format.ParseImpl.POk h /\
  (UP.collision (Hc_of H h) \/
   exists fl' ev, byte_update H h fb old serve srv tf fl0 st = Some (BFinish, fl', fb, ev) /\
                  (forall i c, nth_error (h_chunks h) i = Some c -> nth i fl' 0%Z = 1%Z)).
Proof.
  intros Pa Wb Det Sz Lb B64 Bv Ho Hs Sv.
  pose proof (parse_impl_scan_wf H p fb h Wb Pa) as Wf.
  split.
  - destruct (fetched_file H h fb Wf Lb B64 tf) as [L1 [Hh _]].
    apply (Dl.UpdateLinkHeader.parse_impl_prefix H p fb _ h Pa).
    apply firstn_of_fget; [exact L1 | destruct Wf as [_ [Le _]]; exact Le | exact Hh].
  - exact (byte_update_reconstructs H h fb Wf Det Sz Lb B64 Bv old serve srv tf fl0 st Ho Hs Sv).
Qed.

(** the hypothesis on the server is satisfiable for every B: the server that sends the body
    of a single-range response in one piece *)
Definition plain_server (h : header) (fb : bytes) : list W.rentry -> resp :=
  fun ridx => RPlain [concat (datas_of (data_offset h) fb (wtab (h_chunks h) []) ridx)].

Lemma datas_of_flags doff fb cs : forall fl ridx,
  datas_of doff fb (wtab cs fl) ridx = datas_of doff fb (wtab cs []) ridx.
Proof.
  intros fl ridx. unfold datas_of. apply map_ext. intros e. rewrite !nth_wtab.
  destruct (nth_error cs (W.r_tgt e)); reflexivity.
Qed.

Theorem plain_server_serves h fb : serves_B h fb (plain_server h fb).
Proof.
  intros fl ridx Rq. unfold plain_server. cbn [resp_ok]. rewrite (datas_of_flags _ _ _ fl ridx). split; [|cbn; rewrite app_nil_r; reflexivity].
  constructor; [|constructor].
  destruct Rq as [_ [_ [_ [Ne En]]]]. destruct ridx as [|e ridx]; [contradiction|].
  destruct (En e (or_introl eq_refl)) as [c [Hc [_ [Rl [_ Pos]]]]].
  unfold datas_of. cbn [map concat]. rewrite nth_wtab in Hc. rewrite nth_wtab.
  destruct (nth_error (h_chunks h) (W.r_tgt e)) as [a|]; [|discriminate]. cbn [option_map] in *.
  inversion Hc; subst c. cbn [W.c_start W.c_len] in *.
  intros X. apply (f_equal (@length N)) in X. rewrite app_length, FL.fread_length in X. cbn [length] in X. lia.
Qed.
