(** Sessions (Session.v): the single-transfer theorems made composable.

    1. [reset_wf]: whatever a (possibly broken) transfer left behind, after [dl_reset] the
       chunk writer satisfies the initial-state hypotheses of the single-transfer theorems
       relative to the table as it is NOW and the request computed from it.
    2. [session_inv]: an invariant of ARBITRARY sessions (arbitrary header lines and body
       bytes, truncated anywhere, any number of transfers, every regex oracle).
    3. [retry_place_plain]: after any earlier session that left no error, a complete
       single-range response for what is missing now fills everything, in any fragmentation.
    4. [retry_place_mp]: the same through the multipart layer with the literal matcher.

    Proof only; the models are DlWrite.v, Multipart.v, Session.v. *)
From ZV Require Import Base.Bytes Dl.DlWrite Dl.Multipart Dl.FileLemmas Dl.DlProofs Dl.MpStream
  Dl.MpSafe Dl.DlInv Dl.DlPlace Dl.C05Final Dl.LiteralMatcher Dl.MpGrammar Dl.LiteralProofs
  Dl.MpPlace Dl.MpFinal Dl.Session.
Local Open Scope N_scope.

(** * The range index of [zck_get_missing_range] *)
Lemma missing_from_in : forall tab t0 pos e, In e (missing_from tab t0 pos) ->
  exists k c, r_tgt e = (t0 + k)%nat /\ nth_error tab k = Some c /\ c_valid c = VUnknown /\
    0 < c_len c /\ r_len e = c_len c /\ r_digest e = c_digest c.
Proof.
  induction tab as [|c0 tab IH]; intros t0 pos e; cbn [missing_from]; [intros []|].
  assert (Hrec : forall p, In e (missing_from tab (S t0) p) ->
    exists k c, r_tgt e = (t0 + k)%nat /\ nth_error (c0 :: tab) k = Some c /\ c_valid c = VUnknown /\
      0 < c_len c /\ r_len e = c_len c /\ r_digest e = c_digest c).
  { intros p Hin. destruct (IH _ _ _ Hin) as (k & c & Ht & Hn & Hrest).
    exists (S k), c. split; [lia|]. split; [exact Hn|exact Hrest]. }
  destruct (c_valid c0) eqn:Ev; try (apply Hrec).
  destruct (0 <? c_len c0) eqn:El; [|apply Hrec].
  intros [<-|Hin]; [|exact (Hrec _ Hin)].
  exists 0%nat, c0. cbn [r_tgt r_len r_digest nth_error]. apply N.ltb_lt in El.
  repeat split; try assumption. lia.
Qed.

Lemma missing_from_starts : forall tab t0 pos, starts_ok (missing_from tab t0 pos) pos.
Proof.
  induction tab as [|c0 tab IH]; intros t0 pos; cbn [missing_from]; [exact I|].
  destruct (c_valid c0); try apply IH.
  destruct (0 <? c_len c0); [|apply IH].
  cbn [starts_ok r_start r_len]. split; [reflexivity|apply IH].
Qed.

Lemma missing_from_nodup : forall tab t0 pos, NoDup (map r_tgt (missing_from tab t0 pos)).
Proof.
  induction tab as [|c0 tab IH]; intros t0 pos; cbn [missing_from]; [constructor|].
  destruct (c_valid c0); try apply IH.
  destruct (0 <? c_len c0); [|apply IH].
  cbn [map r_tgt]. constructor; [|apply IH].
  intros Hin. apply in_map_iff in Hin. destruct Hin as (e & He & Hin).
  destruct (missing_from_in _ _ _ _ Hin) as (k & c & Ht & _). lia.
Qed.

Lemma missing_ridx_in tab e : In e (missing_ridx tab) ->
  exists c, nth_error tab (r_tgt e) = Some c /\ c_valid c = VUnknown /\
    0 < c_len c /\ r_len e = c_len c /\ r_digest e = c_digest c.
Proof.
  intros Hin. destruct (missing_from_in _ _ _ _ Hin) as (k & c & Ht & Hn & Hrest).
  cbn [Nat.add] in Ht. rewrite Ht. exists c. split; [exact Hn|exact Hrest].
Qed.

(** (3a) the request computed from the table is consistent with it *)
Lemma missing_req_ok doff tab :
  DlInv.disjoint_tab doff tab -> missing_ridx tab <> [] -> req_ok doff (missing_ridx tab) tab.
Proof.
  intros D Hne. unfold req_ok.
  split; [apply missing_from_nodup|]. split; [apply missing_from_starts|].
  split; [exact D|]. split; [exact Hne|].
  intros e Hin. destruct (missing_ridx_in tab e Hin) as (c & Hn & Hv & Hl & Hrl & Hrd).
  exists c. split; [exact Hn|]. split; [rewrite Hv; discriminate|].
  split; [exact Hrl|]. split; [exact Hrd|]. rewrite Hrl. exact Hl.
Qed.

(** * [dl_reset] field by field *)
Lemma dl_reset_dl x :
  x_dl (dl_reset x) = mkDl (d_err (x_dl x)) 0 0 None None (d_acc (x_dl x)) (d_fpos (x_dl x))
                           (d_file (x_dl x)) (d_tab (x_dl x)).
Proof. reflexivity. Qed.

(** the target context is untouched ... *)
Lemma dl_reset_keeps x :
  d_file (x_dl (dl_reset x)) = d_file (x_dl x) /\ d_tab (x_dl (dl_reset x)) = d_tab (x_dl x) /\
  d_err (x_dl (dl_reset x)) = d_err (x_dl x) /\ d_acc (x_dl (dl_reset x)) = d_acc (x_dl x) /\
  d_fpos (x_dl (dl_reset x)) = d_fpos (x_dl x).
Proof. repeat split; reflexivity. Qed.

(** ... and the zckDL is zeroed *)
Lemma dl_reset_clears x :
  d_pos (x_dl (dl_reset x)) = 0 /\ d_wic (x_dl (dl_reset x)) = 0 /\ d_tgt (x_dl (dl_reset x)) = None /\
  d_cur (x_dl (dl_reset x)) = None /\ x_mp (dl_reset x) = mkMp false 0 [] /\
  x_boundary (dl_reset x) = None /\ x_rx (dl_reset x) = None.
Proof. repeat split; reflexivity. Qed.

(** * Shapes *)
Lemma same_shape_trans a b c : same_shape a b -> same_shape b c -> same_shape a c.
Proof.
  intros Hab [L2 S2]. split; [destruct Hab as [L1 _]; congruence|].
  intros t x z Hx Hz. destruct (same_shape_init a b t x Hab Hx) as (y & Hy & E1 & E2 & E3).
  destruct (S2 t y z Hy Hz) as (F1 & F2 & F3). repeat split; congruence.
Qed.

(** a flag never goes back to "unknown" *)
Definition noback (tab : list chunk) (s : dlstate) : Prop :=
  forall t c c', nth_error tab t = Some c -> nth_error (d_tab s) t = Some c' ->
    c_valid c <> VUnknown -> c_valid c' <> VUnknown.

Lemma noback_set_flag tab s s1 t v :
  noback tab s -> v <> VUnknown -> d_tab s1 = set_flag (d_tab s) t v -> noback tab s1.
Proof.
  intros Hnb Hv Htab t' c c' H0 H1 Hv0. rewrite Htab in H1.
  destruct (set_flag_inv _ _ _ _ _ H1) as (c1 & Hn1 & _ & _ & _ & Hother & Hsame).
  destruct (Nat.eq_dec t' t) as [E|E].
  - rewrite (Hsame E). exact Hv.
  - rewrite (Hother E). exact (Hnb t' c c1 H0 Hn1 Hv0).
Qed.

Lemma noback_dlw H doff ridx tab s bs s' r :
  noback tab s -> dlw H doff ridx s bs = (s', r) -> noback tab s'.
Proof.
  unfold dlw. apply (dlw_f_inv H doff ridx (noback tab)).
  - intros s0 H0. exact H0.
  - intros s0 bs0 s1 ok H0 Hw. destruct (dl_write_spec _ _ _ _ Hw) as (Htab & _).
    unfold noback. rewrite Htab. exact H0.
  - intros s0 s1 ok H0 _ Hs.
    destruct (scv_cases _ _ _ _ _ Hs) as [(-> & _)|(t & c & _ & _ & Hc)]; [exact H0|].
    destruct Hc as [(_ & _ & ->)|[(acc & _ & _ & _ & ->)|(acc & _ & _ & _ & ->)]];
      eapply (noback_set_flag tab s0 _ t); try exact H0; try reflexivity; discriminate.
  - intros s0 H0 _. unfold noback. rewrite select_tab. exact H0.
Qed.

Section SessionProofs.
Variable H : bytes -> bytes.
Variable doff : N.
Variable rx_comp : bytes -> bool.
Variable rx_exec : bytes -> bytes -> option ((N * N) * (N * N)).

(** * 1. The reset lemma *)
Lemma reset_wf : forall x, let s := x_dl (dl_reset x) in
  dl_wf2 doff (missing_ridx (d_tab s)) (d_tab s) s /\ verified H doff (d_tab s) s.
Proof.
  intros x s. subst s. rewrite dl_reset_dl. cbn [d_tab].
  split; [split|].
  - unfold dl_wf. cbn [d_tab d_tgt d_wic d_fpos]. split; [apply same_shape_refl|].
    split; [intros t c c' H0 Hv H1; congruence|]. split; [intros t c Hx; discriminate|].
    intros Hx. lia.
  - intros t c Hx. discriminate.
  - intros t c c0 H0 Hv0 Hn Hv. cbn [d_tab] in Hn. congruence.
Qed.

(** * The callbacks change the chunk-writer state only through [dlw] and [set_err] *)
Inductive gbk := KSame | KErr | KSet (bd : bytes).
Definition apply_k (k : gbk) (x : xstate) : xstate :=
  match k with
  | KSame => x
  | KErr => x_set_err x
  | KSet bd => mkX (x_dl x) (mkMp false 0 []) (Some bd) (x_rx x)
  end.

(** what [multipart_get_boundary] does to the state depends on the state only through the
    error flag *)
Lemma get_boundary_form line e : exists k, forall x, d_err (x_dl x) = e ->
  fst (get_boundary rx_comp rx_exec x line) = apply_k k x.
Proof.
  unfold get_boundary. destruct e.
  { exists KSame. intros x ->. reflexivity. }
  destruct (negb (rx_comp pat_hdr)).
  { exists KErr. intros x ->. reflexivity. }
  cbv zeta.
  destruct (cstr (line ++ [0])) as [str|]; [|exists KSame; intros x ->; reflexivity].
  destruct (rx_exec pat_hdr str) as [[[so eo] g2]|]; [|exists KSame; intros x ->; reflexivity].
  destruct (nth_error (line ++ [0]) (N.to_nat so)) as [c0|]; [|exists KSame; intros x ->; reflexivity].
  destruct ((c0 =? 34) && (2 <? u64 (eo + two64 - so))).
  - destruct (nth_error (line ++ [0]) (N.to_nat (so + u64 (eo + two64 - so) - 1))) as [cl|];
      [|exists KSame; intros x ->; reflexivity].
    destruct (take_exact (line ++ [0]) (if cl =? 34 then so + 1 else so)
                (if cl =? 34 then u64 (eo + two64 - so) - 2 else u64 (eo + two64 - so))) as [bd|].
    + exists (KSet (until_nul bd)). intros x ->. reflexivity.
    + exists KSame. intros x ->. reflexivity.
  - destruct (take_exact (line ++ [0]) so (u64 (eo + two64 - so))) as [bd|].
    + exists (KSet (until_nul bd)). intros x ->. reflexivity.
    + exists KSame. intros x ->. reflexivity.
Qed.

Section Lift.
Variable ridx : list rentry.
Variable P : dlstate -> Prop.
Hypothesis P_err : forall s, P s -> P (set_err s).
Hypothesis P_dlw : forall s bs s' r, P s -> dlw H doff ridx s bs = (s', r) -> P s'.

Lemma mp_step_lift pn pe dl st mlen isuf : P dl ->
  match mp_step H doff ridx rx_exec pn pe dl st mlen isuf with
  | inl ((dl', _), _) => P dl'
  | inr (dl', _, _, _) => P dl'
  end.
Proof.
  intros HP. unfold mp_step. destruct isuf as [|b0 isuf']; [exact HP|]. destruct st.
  - unfold data_step. destruct (dlw H doff ridx dl _) as [dl' r] eqn:E.
    pose proof (P_dlw _ _ _ _ HP E) as HP'. destruct (dret r =? _); exact HP'.
  - unfold hdr_step.
    destruct (scan _ _ _); try exact HP.
    destruct (cstr _); try exact HP.
    destruct (rx_exec pn _) as [[[so1 eo1] [so2 eo2]]|].
    + destruct (take_exact _ so1 _); try exact HP.
      destruct (take_exact _ so2 _); exact HP.
    + destruct (rx_exec pe _); [exact HP|apply P_err; exact HP].
Qed.

Lemma mp_loop_lift : forall f pn pe dl st mlen isuf, P dl ->
  P (fst (fst (mp_loop H doff ridx rx_exec f pn pe dl st mlen isuf))).
Proof.
  induction f as [|f IH]; intros pn pe dl st mlen isuf HP; [exact HP|].
  rewrite mp_loop_S. pose proof (mp_step_lift pn pe dl st mlen isuf HP) as Hs.
  destruct (mp_step H doff ridx rx_exec pn pe dl st mlen isuf)
    as [[[dl' mp'] r]|[[[dl' st'] mlen'] i']]; cbn [mp_next fst].
  - exact Hs.
  - apply IH. exact Hs.
Qed.

Lemma mpx_lift x b : P (x_dl x) -> P (x_dl (fst (mpx H doff ridx rx_comp rx_exec x b))).
Proof.
  intros HP. unfold mpx. destruct (d_err (x_dl x)); [exact HP|]. cbv zeta.
  destruct (match x_rx x with Some r => Some r | None => _ end) as [[pn pe]|].
  - pose proof (mp_loop_lift (2 * length (m_buf (x_mp x) ++ b) + 4) pn pe (x_dl x)
                  (m_state (x_mp x)) (m_length (x_mp x)) (m_buf (x_mp x) ++ b) HP) as Hl.
    destruct (mp_loop _ _ _ _ _ _ _ _ _ _ _) as [[dl' mp'] r]. exact Hl.
  - cbn [fst x_dl]. apply P_err. exact HP.
Qed.

Lemma write_cb_lift x fr :
  P (x_dl x) -> P (x_dl (fst (fst (write_cb H doff ridx rx_comp rx_exec x fr)))).
Proof.
  intros HP. unfold write_cb. destruct (x_boundary x).
  - pose proof (mpx_lift x fr HP) as Hm.
    destruct (mpx H doff ridx rx_comp rx_exec x fr) as [x' r]. exact Hm.
  - destruct (dlw H doff ridx (x_dl x) fr) as [dl' r] eqn:E. cbn [fst x_dl].
    exact (P_dlw _ _ _ _ HP E).
Qed.

Lemma feed_frags_lift : forall frags x,
  P (x_dl x) -> P (x_dl (fst (fst (feed_frags H doff ridx rx_comp rx_exec x frags)))).
Proof.
  induction frags as [|fr rest IH]; intros x HP; cbn [feed_frags]; [exact HP|].
  pose proof (write_cb_lift x fr HP) as Hw.
  destruct (write_cb H doff ridx rx_comp rx_exec x fr) as [[x' ok] r]. cbn [fst] in Hw.
  assert (Hgo : P (x_dl (fst (fst (if ok
              then let '(x'', l, a) := feed_frags H doff ridx rx_comp rx_exec x' rest in (x'', true :: l, a)
              else (x', [false], false)))))).
  { destruct ok; [|exact Hw]. specialize (IH x' Hw).
    destruct (feed_frags H doff ridx rx_comp rx_exec x' rest) as [[x'' l] a]. exact IH. }
  destruct r; try exact Hgo; exact Hw.
Qed.
End Lift.

Lemma header_cb_lift (P : dlstate -> Prop) :
  (forall s, P s -> P (set_err s)) ->
  forall x line, P (x_dl x) -> P (x_dl (header_cb rx_comp rx_exec x line)).
Proof.
  intros P_err x line HP. unfold header_cb.
  destruct (get_boundary_form line (d_err (x_dl x))) as [k Hk]. rewrite (Hk x eq_refl).
  destruct k; cbn [apply_k x_set_err x_dl]; [exact HP|apply P_err; exact HP|exact HP].
Qed.

Lemma headers_lift (P : dlstate -> Prop) :
  (forall s, P s -> P (set_err s)) ->
  forall lines x, P (x_dl x) -> P (x_dl (fold_left (header_cb rx_comp rx_exec) lines x)).
Proof.
  intros P_err. induction lines as [|l lines IH]; intros x HP; cbn [fold_left]; [exact HP|].
  apply IH. apply header_cb_lift; assumption.
Qed.


(** * 2. The session invariant *)
(** the invariant of ONE transfer, relative to table and file at its start (after the reset) *)
Definition tr_inv (tabk : list chunk) (filek : bytes) (s : dlstate) : Prop :=
  dl_wf2 doff (missing_ridx tabk) tabk s /\ verified H doff tabk s /\
  (forall off, (forall t c, nth_error tabk t = Some c -> fillable (missing_ridx tabk) tabk t ->
                            ~ DlInv.in_ext doff c off) ->
               fget (d_file s) off = fget filek off) /\
  noback tabk s.

Lemma tr_inv_err tabk filek s : tr_inv tabk filek s -> tr_inv tabk filek (set_err s).
Proof.
  intros ([W T] & V & Cf & Nb). split; [split|split; [|split]].
  - apply dl_wf_err. exact W.
  - revert T. apply tgt_ok_ext; reflexivity.
  - revert V. apply verified_ext; reflexivity.
  - exact Cf.
  - exact Nb.
Qed.

Lemma tr_inv_dlw tabk filek s bs s' r :
  DlInv.disjoint_tab doff tabk -> tr_inv tabk filek s ->
  dlw H doff (missing_ridx tabk) s bs = (s', r) -> tr_inv tabk filek s'.
Proof.
  intros D (W2 & V & Cf & Nb) Hrun.
  destruct (dlw_verified H doff _ tabk s bs s' r D W2 V Hrun) as [W2' V'].
  destruct (dlw_confined H doff _ tabk s bs s' r (proj1 W2) Hrun) as [_ Cf'].
  split; [exact W2'|]. split; [exact V'|]. split.
  - intros off Hout. rewrite (Cf' off Hout). exact (Cf off Hout).
  - exact (noback_dlw H doff _ tabk s bs s' r Nb Hrun).
Qed.

Lemma tr_inv_reset x : tr_inv (d_tab (x_dl x)) (d_file (x_dl x)) (x_dl (dl_reset x)).
Proof.
  destruct (reset_wf x) as [W V]. split; [exact W|]. split; [exact V|]. split.
  - intros off _. reflexivity.
  - intros t c c' H0 H1 Hv. cbn [dl_reset x_dl d_tab] in H1. congruence.
Qed.

(** every transfer, whatever it carries and wherever it stops, keeps its invariant *)
Lemma run_transfer_tr_inv x t :
  DlInv.disjoint_tab doff (d_tab (x_dl x)) ->
  tr_inv (d_tab (x_dl x)) (d_file (x_dl x)) (x_dl (run_transfer H doff rx_comp rx_exec x t)).
Proof.
  intros D. unfold run_transfer.
  change (d_tab (x_dl (dl_reset x))) with (d_tab (x_dl x)).
  apply (feed_frags_lift (missing_ridx (d_tab (x_dl x))) (tr_inv (d_tab (x_dl x)) (d_file (x_dl x)))).
  - apply tr_inv_err.
  - intros s bs s' r. apply tr_inv_dlw. exact D.
  - apply headers_lift; [apply tr_inv_err|]. apply tr_inv_reset.
Qed.

Definition missing (tab0 : list chunk) (t : nat) : Prop :=
  exists c, nth_error tab0 t = Some c /\ c_valid c = VUnknown /\ 0 < c_len c.

Definition sess_inv (tab0 : list chunk) (file0 : bytes) (x : xstate) : Prop :=
  let s := x_dl x in
  same_shape tab0 (d_tab s) /\
  (forall t c c', nth_error tab0 t = Some c -> nth_error (d_tab s) t = Some c' ->
      c_valid c <> VUnknown -> c_valid c' <> VUnknown) /\
  (forall t c c', nth_error tab0 t = Some c -> nth_error (d_tab s) t = Some c' ->
      c_valid c = VValid -> c_valid c' = VValid) /\
  (forall t c c', nth_error tab0 t = Some c -> c_valid c <> VValid ->
      nth_error (d_tab s) t = Some c' -> c_valid c' = VValid ->
      chunk_ok H c' (fread (d_file s) (doff + c_start c') (N.to_nat (c_len c')))) /\
  (forall off, (forall t c, nth_error tab0 t = Some c -> missing tab0 t -> ~ DlInv.in_ext doff c off) ->
      fget (d_file s) off = fget file0 off).

(** what a request can fill now was missing at the very beginning *)
Lemma fillable_missing tab0 tabk t :
  same_shape tab0 tabk ->
  (forall t c c', nth_error tab0 t = Some c -> nth_error tabk t = Some c' ->
      c_valid c <> VUnknown -> c_valid c' <> VUnknown) ->
  fillable (missing_ridx tabk) tabk t -> missing tab0 t.
Proof.
  intros A B (c & e & Hn & _ & Hin & Ht).
  destruct (missing_ridx_in tabk e Hin) as (ck & Hnk & Hvk & Hlk & _). rewrite Ht in Hnk.
  destruct (same_shape_cur _ _ _ _ A Hnk) as (c0 & Hn0 & _ & Hl0 & _).
  exists c0. split; [exact Hn0|]. split.
  - destruct (vflag_eq_dec (c_valid c0) VUnknown) as [E|E]; [exact E|].
    exfalso. exact (B t c0 ck Hn0 Hnk E Hvk).
  - rewrite <- Hl0. exact Hlk.
Qed.

Lemma chunk_ok_shape c c' bs :
  c_len c' = c_len c -> c_digest c' = c_digest c -> chunk_ok H c bs -> chunk_ok H c' bs.
Proof. unfold chunk_ok, chunk_digest_ok. intros -> ->. auto. Qed.

Lemma sess_inv_step tab0 file0 x x' :
  DlInv.disjoint_tab doff tab0 -> sess_inv tab0 file0 x ->
  tr_inv (d_tab (x_dl x)) (d_file (x_dl x)) (x_dl x') -> sess_inv tab0 file0 x'.
Proof.
  intros D (A0 & B0 & C0 & D0 & E0) ([[W1 [W2 _]] _] & V & Cf & Nb).
  set (tabk := d_tab (x_dl x)) in *. set (filek := d_file (x_dl x)) in *.
  pose proof (disjoint_cur doff tab0 tabk D A0) as Dk.
  unfold sess_inv. cbv zeta.
  split; [exact (same_shape_trans _ _ _ A0 W1)|]. split; [|split; [|split]].
  - intros t c c' H0 H1 Hv. destruct (same_shape_init _ _ _ _ A0 H0) as (ck & Hk & _).
    exact (Nb t ck c' Hk H1 (B0 t c ck H0 Hk Hv)).
  - intros t c c' H0 H1 Hv. destruct (same_shape_init _ _ _ _ A0 H0) as (ck & Hk & _).
    exact (W2 t ck c' Hk (C0 t c ck H0 Hk Hv) H1).
  - intros t c c' H0 Hnv H1 Hv'. destruct (same_shape_init _ _ _ _ A0 H0) as (ck & Hk & _).
    destruct (vflag_eq_dec (c_valid ck) VValid) as [Ek|Ek].
    + (* already valid when this transfer started: flag and bytes were not touched *)
      destruct W1 as [_ S1]. destruct (S1 t ck c' Hk H1) as (Es & El & Ed).
      rewrite Es, El. apply (chunk_ok_shape ck c'); [exact El|exact Ed|].
      replace (fread (d_file (x_dl x')) (doff + c_start ck) (N.to_nat (c_len ck)))
        with (fread filek (doff + c_start ck) (N.to_nat (c_len ck))).
      * exact (D0 t c ck H0 Hnv Hk Ek).
      * symmetry. apply fread_ext. intros off Hoff. apply Cf.
        intros t2 c2 Hn2 (c2' & e & Hn2' & Hv2 & _) Hin.
        assert (c2' = c2) by congruence. subst c2'.
        apply (Dk t t2 ck c2 off); try assumption.
        -- intros ->. congruence.
        -- unfold DlInv.in_ext. lia.
    + exact (V t c' ck Hk Ek H1 Hv').
  - intros off Hout. rewrite Cf; [apply E0; exact Hout|].
    intros t2 c2 Hn2 Hf Hin.
    pose proof (fillable_missing tab0 tabk t2 A0 B0 Hf) as Hm.
    destruct (same_shape_cur _ _ _ _ A0 Hn2) as (c0 & Hn0 & Hs0 & Hl0 & _).
    apply (Hout t2 c0 Hn0 Hm). unfold DlInv.in_ext in *. rewrite <- Hs0, <- Hl0. exact Hin.
Qed.

Lemma run_transfer_sess_inv tab0 file0 x t :
  DlInv.disjoint_tab doff tab0 -> sess_inv tab0 file0 x ->
  sess_inv tab0 file0 (run_transfer H doff rx_comp rx_exec x t).
Proof.
  intros D Hs. apply (sess_inv_step tab0 file0 x); [exact D|exact Hs|].
  apply run_transfer_tr_inv. exact (disjoint_cur doff tab0 _ D (proj1 Hs)).
Qed.

Theorem session_inv : forall tab0 file0 ts x,
  DlInv.disjoint_tab doff tab0 -> sess_inv tab0 file0 x ->
  sess_inv tab0 file0 (session H doff rx_comp rx_exec x ts).
Proof.
  intros tab0 file0 ts. unfold session.
  induction ts as [|t ts IH]; intros x D Hs; cbn [fold_left]; [exact Hs|].
  apply IH; [exact D|]. apply run_transfer_sess_inv; assumption.
Qed.

(** any zckDL over the target, whatever junk its chunk-writer fields hold *)
Lemma sess_inv_start_gen : forall x, sess_inv (d_tab (x_dl x)) (d_file (x_dl x)) x.
Proof.
  intros x. unfold sess_inv. cbv zeta. split; [apply same_shape_refl|].
  split; [intros t c c' H0 H1; congruence|]. split; [intros t c c' H0 H1; congruence|].
  split; [intros t c c' H0 Hv H1; congruence|]. intros off _. reflexivity.
Qed.

Lemma sess_inv_start : forall tab0 file0 fpos mp b rx,
  sess_inv tab0 file0 (mkX (mkDl false 0 0 None None None fpos file0 tab0) mp b rx).
Proof. intros. apply (sess_inv_start_gen (mkX (mkDl false 0 0 None None None fpos file0 tab0) mp b rx)). Qed.

Corollary session_valid_untouched : forall tab0 file0 ts x t c,
  DlInv.disjoint_tab doff tab0 -> sess_inv tab0 file0 x ->
  nth_error tab0 t = Some c -> c_valid c = VValid ->
  let s := x_dl (session H doff rx_comp rx_exec x ts) in
  (exists c', nth_error (d_tab s) t = Some c' /\ c_valid c' = VValid /\
              c_start c' = c_start c /\ c_len c' = c_len c /\ c_digest c' = c_digest c) /\
  fread (d_file s) (doff + c_start c) (N.to_nat (c_len c)) =
  fread file0 (doff + c_start c) (N.to_nat (c_len c)).
Proof.
  intros tab0 file0 ts x t c D Hs Hn Hv s.
  destruct (session_inv tab0 file0 ts x D Hs) as (A & _ & C & _ & E). fold s in A, C, E.
  split.
  - destruct (same_shape_init _ _ _ _ A Hn) as (c' & Hn' & Es & El & Ed).
    exists c'. split; [exact Hn'|]. split; [exact (C t c c' Hn Hn' Hv)|]. auto.
  - apply fread_ext. intros off Hoff. apply E.
    intros t2 c2 Hn2 (c2' & Hn2' & Hv2 & _) Hin.
    assert (c2' = c2) by congruence. subst c2'.
    apply (D t t2 c c2 off); try assumption.
    + intros ->. congruence.
    + unfold DlInv.in_ext. lia.
Qed.


(** * 3. Retry placement *)
(** ** The stale hash context is irrelevant.
    After [dl_reset] the chunk writer is the initial state of the single-transfer theorems
    except for [zck->check_chunk_hash], which the broken transfer may have left open.  With
    [write_in_chunk = 0] and [tgt_check = NULL] that field is never read before [select]
    re-initialises it: two states that differ only there run in lock step and become EQUAL at
    the first successful search. *)
Definition with_acc (s : dlstate) (a : option bytes) : dlstate :=
  mkDl (d_err s) (d_pos s) (d_wic s) (d_tgt s) (d_cur s) a (d_fpos s) (d_file s) (d_tab s).

Definition accrel (s1 s2 : dlstate) : Prop :=
  s1 = s2 \/ (d_wic s2 = 0 /\ d_tgt s2 = None /\ exists a, s1 = with_acc s2 a).

Lemma accrel_proj s1 s2 : accrel s1 s2 ->
  d_err s1 = d_err s2 /\ d_tab s1 = d_tab s2 /\ d_file s1 = d_file s2.
Proof. intros [->|(_ & _ & a & ->)]; repeat split; reflexivity. Qed.

Lemma accrel_set_err s1 s2 : accrel s1 s2 -> accrel (set_err s1) (set_err s2).
Proof.
  intros [->|(Hw & Ht & a & ->)]; [left; reflexivity|]. right.
  split; [exact Hw|]. split; [exact Ht|]. exists a. reflexivity.
Qed.

Lemma dstep_rel ridx s a bs : d_wic s = 0 -> d_tgt s = None ->
  match dstep H doff ridx (with_acc s a) bs, dstep H doff ridx s bs with
  | SDone s1' r1, SDone s2' r2 => r1 = r2 /\ accrel s1' s2'
  | SMore s1' w1, SMore s2' w2 => w1 = w2 /\ s1' = s2'
  | _, _ => False
  end.
Proof.
  intros Hw Ht.
  assert (Hrel : accrel (with_acc s a) s).
  { right. split; [exact Hw|]. split; [exact Ht|]. exists a. reflexivity. }
  unfold dstep. change (d_err (with_acc s a)) with (d_err s). destruct (d_err s).
  { split; [reflexivity|exact Hrel]. }
  change (guard ridx (with_acc s a)) with (guard ridx s). destruct (guard ridx s).
  { split; [reflexivity|apply accrel_set_err; exact Hrel]. }
  assert (Hw1 : dl_write (with_acc s a) bs = (with_acc s a, true)).
  { unfold dl_write. change (d_wic (with_acc s a)) with (d_wic s). rewrite Hw. reflexivity. }
  assert (Hw2 : dl_write s bs = (s, true)).
  { unfold dl_write. rewrite Hw. reflexivity. }
  rewrite Hw1, Hw2. cbn [negb].
  change (d_wic (with_acc s a)) with (d_wic s). rewrite Hw. cbn [N.eqb].
  change (wbf (with_acc s a) (len bs)) with (wbf s (len bs)).
  unfold settle, set_chunk_valid. change (d_tgt (with_acc s a)) with (d_tgt s). rewrite Ht.
  cbn [negb]. unfold select.
  cbn [with_acc d_err d_pos d_wic d_tgt d_cur d_acc d_fpos d_file d_tab].
  destruct (search (d_tab s) (d_pos s) _ _) as [[[k e] c]|].
  - cbn [d_wic]. destruct ((0 <? r_len e) && (wbf s (len bs) <? len bs)).
    + split; reflexivity.
    + split; [reflexivity|left; reflexivity].
  - cbn [d_wic]. replace (0 <? d_wic s) with false by (rewrite Hw; reflexivity). cbn [andb].
    split; [reflexivity|]. right. cbn [d_wic d_tgt]. split; [exact Hw|]. split; [exact Ht|].
    exists a. reflexivity.
Qed.

Lemma dlw_rel ridx s1 s2 bs : accrel s1 s2 ->
  snd (dlw H doff ridx s1 bs) = snd (dlw H doff ridx s2 bs) /\
  accrel (fst (dlw H doff ridx s1 bs)) (fst (dlw H doff ridx s2 bs)).
Proof.
  intros [->|(Hw & Ht & a & ->)]; [split; [reflexivity|left; reflexivity]|].
  unfold dlw. rewrite !dlw_f_S. pose proof (dstep_rel ridx s2 a bs Hw Ht) as Hd.
  destruct (dstep H doff ridx (with_acc s2 a) bs) as [s1' r1|s1' w1];
    destruct (dstep H doff ridx s2 bs) as [s2' r2|s2' w2]; try contradiction.
  - destruct Hd as [-> Hr]. split; [reflexivity|exact Hr].
  - destruct Hd as [-> ->]. split; [reflexivity|left; reflexivity].
Qed.

(** ... lifted through the multipart parser and the callbacks *)
Definition xrel (x1 x2 : xstate) : Prop :=
  accrel (x_dl x1) (x_dl x2) /\ x_mp x1 = x_mp x2 /\ x_boundary x1 = x_boundary x2 /\
  x_rx x1 = x_rx x2.

Lemma mp_step_rel ridx pn pe dl1 dl2 st mlen isuf : accrel dl1 dl2 ->
  match mp_step H doff ridx rx_exec pn pe dl1 st mlen isuf,
        mp_step H doff ridx rx_exec pn pe dl2 st mlen isuf with
  | inl ((d1, m1), r1), inl ((d2, m2), r2) => accrel d1 d2 /\ m1 = m2 /\ r1 = r2
  | inr (d1, st1, ml1, i1), inr (d2, st2, ml2, i2) =>
      accrel d1 d2 /\ st1 = st2 /\ ml1 = ml2 /\ i1 = i2
  | _, _ => False
  end.
Proof.
  intros HR. unfold mp_step. destruct isuf as [|b0 isuf']; [repeat split; auto|]. destruct st.
  - unfold data_step.
    destruct (dlw_rel ridx dl1 dl2
                (firstn (N.to_nat (dsize mlen (len (b0 :: isuf')))) (b0 :: isuf')) HR) as [Hr Ha].
    destruct (dlw H doff ridx dl1 _) as [d1 r1]. destruct (dlw H doff ridx dl2 _) as [d2 r2].
    cbn [fst snd] in Hr, Ha. subst r2.
    destruct (dret r1 =? _); repeat split; auto.
  - unfold hdr_step.
    destruct (scan _ _ _); try (repeat split; auto; fail).
    destruct (cstr _); try (repeat split; auto; fail).
    destruct (rx_exec pn _) as [[[so1 eo1] [so2 eo2]]|].
    + destruct (take_exact _ so1 _); try (repeat split; auto; fail).
      destruct (take_exact _ so2 _); repeat split; auto.
    + destruct (rx_exec pe _); repeat split; auto. apply accrel_set_err. exact HR.
Qed.

Lemma mp_loop_rel ridx : forall f pn pe dl1 dl2 st mlen isuf, accrel dl1 dl2 ->
  accrel (fst (fst (mp_loop H doff ridx rx_exec f pn pe dl1 st mlen isuf)))
         (fst (fst (mp_loop H doff ridx rx_exec f pn pe dl2 st mlen isuf))) /\
  snd (fst (mp_loop H doff ridx rx_exec f pn pe dl1 st mlen isuf)) =
  snd (fst (mp_loop H doff ridx rx_exec f pn pe dl2 st mlen isuf)) /\
  snd (mp_loop H doff ridx rx_exec f pn pe dl1 st mlen isuf) =
  snd (mp_loop H doff ridx rx_exec f pn pe dl2 st mlen isuf).
Proof.
  induction f as [|f IH]; intros pn pe dl1 dl2 st mlen isuf HR.
  - cbn [mp_loop fst snd]. auto.
  - rewrite !mp_loop_S. pose proof (mp_step_rel ridx pn pe dl1 dl2 st mlen isuf HR) as Hs.
    destruct (mp_step H doff ridx rx_exec pn pe dl1 st mlen isuf)
      as [[[d1 m1] r1]|[[[d1 st1] ml1] i1]];
    destruct (mp_step H doff ridx rx_exec pn pe dl2 st mlen isuf)
      as [[[d2 m2] r2]|[[[d2 st2] ml2] i2]]; try contradiction; cbn [mp_next].
    + cbn [fst snd]. exact Hs.
    + destruct Hs as (Ha & -> & -> & ->). apply IH. exact Ha.
Qed.

Lemma mpx_rel ridx x1 x2 b : xrel x1 x2 ->
  xrel (fst (mpx H doff ridx rx_comp rx_exec x1 b)) (fst (mpx H doff ridx rx_comp rx_exec x2 b)) /\
  snd (mpx H doff ridx rx_comp rx_exec x1 b) = snd (mpx H doff ridx rx_comp rx_exec x2 b).
Proof.
  intros HX. pose proof HX as (HA & Hm & Hb & Hr). unfold mpx.
  rewrite (proj1 (accrel_proj _ _ HA)), Hm, Hb, Hr.
  destruct (d_err (x_dl x2)); [split; [exact HX|reflexivity]|]. cbv zeta.
  destruct (match x_rx x2 with Some r => Some r | None => _ end) as [[pn pe]|].
  - pose proof (mp_loop_rel ridx (2 * length (m_buf (x_mp x2) ++ b) + 4) pn pe (x_dl x1) (x_dl x2)
                  (m_state (x_mp x2)) (m_length (x_mp x2)) (m_buf (x_mp x2) ++ b) HA) as Hl.
    destruct (mp_loop _ _ _ _ _ _ _ (x_dl x1) _ _ _) as [[d1 m1] r1].
    destruct (mp_loop _ _ _ _ _ _ _ (x_dl x2) _ _ _) as [[d2 m2] r2].
    cbn [fst snd] in Hl. destruct Hl as (Ha & -> & ->). cbn [fst snd].
    split; [|reflexivity]. repeat split; cbn [x_dl x_mp x_boundary x_rx]; auto.
  - cbn [fst snd]. split; [|reflexivity].
    repeat split; cbn [x_dl x_mp x_boundary x_rx]; auto. apply accrel_set_err. exact HA.
Qed.

Lemma write_cb_rel ridx x1 x2 fr : xrel x1 x2 ->
  xrel (fst (fst (write_cb H doff ridx rx_comp rx_exec x1 fr)))
       (fst (fst (write_cb H doff ridx rx_comp rx_exec x2 fr))) /\
  snd (fst (write_cb H doff ridx rx_comp rx_exec x1 fr)) =
  snd (fst (write_cb H doff ridx rx_comp rx_exec x2 fr)) /\
  snd (write_cb H doff ridx rx_comp rx_exec x1 fr) = snd (write_cb H doff ridx rx_comp rx_exec x2 fr).
Proof.
  intros HX. pose proof HX as (HA & Hm & Hb & Hr). unfold write_cb. rewrite Hb.
  destruct (x_boundary x2).
  - destruct (mpx_rel ridx x1 x2 fr HX) as [Hx Hs]. rewrite Hm.
    destruct (mpx H doff ridx rx_comp rx_exec x1 fr) as [x1' r1].
    destruct (mpx H doff ridx rx_comp rx_exec x2 fr) as [x2' r2].
    cbn [fst snd] in Hx, Hs. subst r2. cbn [fst snd]. auto.
  - destruct (dlw_rel ridx (x_dl x1) (x_dl x2) fr HA) as [Hs Ha]. rewrite Hm, Hr.
    destruct (dlw H doff ridx (x_dl x1) fr) as [d1 r1].
    destruct (dlw H doff ridx (x_dl x2) fr) as [d2 r2].
    cbn [fst snd] in Hs, Ha. subst r2. cbn [fst snd].
    split; [|auto]. repeat split; cbn [x_dl x_mp x_boundary x_rx]; auto.
Qed.

Lemma feed_frags_rel ridx : forall frags x1 x2, xrel x1 x2 ->
  xrel (fst (fst (feed_frags H doff ridx rx_comp rx_exec x1 frags)))
       (fst (fst (feed_frags H doff ridx rx_comp rx_exec x2 frags))) /\
  snd (fst (feed_frags H doff ridx rx_comp rx_exec x1 frags)) =
  snd (fst (feed_frags H doff ridx rx_comp rx_exec x2 frags)) /\
  snd (feed_frags H doff ridx rx_comp rx_exec x1 frags) =
  snd (feed_frags H doff ridx rx_comp rx_exec x2 frags).
Proof.
  induction frags as [|fr rest IH]; intros x1 x2 HX; cbn [feed_frags]; [auto|].
  destruct (write_cb_rel ridx x1 x2 fr HX) as (Hx & Hok & Hr).
  destruct (write_cb H doff ridx rx_comp rx_exec x1 fr) as [[x1' ok1] r1].
  destruct (write_cb H doff ridx rx_comp rx_exec x2 fr) as [[x2' ok2] r2].
  cbn [fst snd] in Hx, Hok, Hr. subst ok2 r2.
  assert (Hgo :
    let F1 := if ok1 then let '(x'', l, a) := feed_frags H doff ridx rx_comp rx_exec x1' rest in
                          (x'', true :: l, a) else (x1', [false], false) in
    let F2 := if ok1 then let '(x'', l, a) := feed_frags H doff ridx rx_comp rx_exec x2' rest in
                          (x'', true :: l, a) else (x2', [false], false) in
    xrel (fst (fst F1)) (fst (fst F2)) /\ snd (fst F1) = snd (fst F2) /\ snd F1 = snd F2).
  { destruct ok1; cbv zeta; [|cbn [fst snd]; auto].
    destruct (IH x1' x2' Hx) as (Hx' & Hl & Ha).
    destruct (feed_frags H doff ridx rx_comp rx_exec x1' rest) as [[x1'' l1] a1].
    destruct (feed_frags H doff ridx rx_comp rx_exec x2' rest) as [[x2'' l2] a2].
    cbn [fst snd] in *. subst. auto. }
  destruct r1; try exact Hgo; cbn [fst snd]; auto.
Qed.

Lemma header_cb_rel x1 x2 line : xrel x1 x2 ->
  xrel (header_cb rx_comp rx_exec x1 line) (header_cb rx_comp rx_exec x2 line).
Proof.
  intros HX. pose proof HX as (HA & Hm & Hb & Hr). unfold header_cb.
  destruct (get_boundary_form line (d_err (x_dl x2))) as [k Hk].
  rewrite (Hk x1 (proj1 (accrel_proj _ _ HA))), (Hk x2 eq_refl).
  destruct k; cbn [apply_k]; [exact HX| |].
  - repeat split; cbn [x_set_err x_dl x_mp x_boundary x_rx]; auto. apply accrel_set_err. exact HA.
  - repeat split; cbn [x_dl x_mp x_boundary x_rx]; auto.
Qed.

(** ** Without a boundary the body callback is [DlPlace.feed] *)
Lemma feed_frags_plain ridx : forall frags x s',
  x_boundary x = None -> Forall (fun fr => fr <> []) frags ->
  feed H doff ridx (x_dl x) frags = (s', true) ->
  x_dl (fst (fst (feed_frags H doff ridx rx_comp rx_exec x frags))) = s'.
Proof.
  induction frags as [|fr rest IH]; intros x s' Hb Hne Hf; cbn [feed feed_frags] in *.
  - inversion Hf. reflexivity.
  - inversion Hne as [|? ? Hfr Hrest]; subst. unfold write_cb. rewrite Hb.
    destruct (dlw H doff ridx (x_dl x) fr) as [dl' r]. destruct r as [n| |]; try discriminate.
    destruct (n =? len fr) eqn:En; [|discriminate]. apply N.eqb_eq in En. subst n.
    cbn [dret].
    replace (len fr =? 0) with false
      by (symmetry; apply N.eqb_neq; pose proof (nonnil_len_pos fr Hfr); lia).
    cbn [negb orb].
    specialize (IH (mkX dl' (x_mp x) None (x_rx x)) s' eq_refl Hrest Hf).
    destruct (feed_frags H doff ridx rx_comp rx_exec (mkX dl' (x_mp x) None (x_rx x)) rest)
      as [[x'' l] a]. exact IH.
Qed.

(** the state after the reset and the initial state of the single-transfer theorems *)
Lemma reset_xrel x : d_err (x_dl x) = false ->
  xrel (dl_reset x) (x_start (d_fpos (x_dl x)) (d_file (x_dl x)) (d_tab (x_dl x))).
Proof.
  intros He. split; [|repeat split; reflexivity]. right.
  split; [reflexivity|]. split; [reflexivity|]. exists (d_acc (x_dl x)).
  rewrite dl_reset_dl, He. reflexivity.
Qed.

(** ** Plain single range *)
Theorem retry_place_plain : forall x datas frags,
  d_err (x_dl x) = false ->
  let tab := d_tab (x_dl x) in let ridx := missing_ridx tab in
  ridx <> [] -> DlInv.disjoint_tab doff tab -> datas_ok H ridx tab datas ->
  Forall (fun fr => fr <> []) frags -> concat frags = concat datas ->
  let x' := run_transfer H doff rx_comp rx_exec x (mkT [] frags) in
  (forall k e d c, nth_error ridx k = Some e -> nth_error datas k = Some d ->
      nth_error tab (r_tgt e) = Some c ->
      (exists c', nth_error (d_tab (x_dl x')) (r_tgt e) = Some c' /\ c_valid c' = VValid) /\
      fread (d_file (x_dl x')) (doff + c_start c) (length d) = d) /\
  (forall t, ~ In t (map r_tgt ridx) -> nth_error (d_tab (x_dl x')) t = nth_error tab t).
Proof.
  intros x datas frags He tab ridx Hne D Hd Hfr Hcat x'.
  pose proof (missing_req_ok doff tab D Hne) as Hreq. fold ridx in Hreq.
  set (fpos := d_fpos (x_dl x)). set (file := d_file (x_dl x)).
  destruct (feed_frags_rel ridx frags _ _ (reset_xrel x He)) as ((Ha & _) & _).
  fold tab fpos file in Ha.
  pose proof (dlw_place_any_partition H doff ridx tab datas fpos file frags Hreq Hd Hfr Hcat) as Hfeed.
  rewrite (feed_frags_plain ridx frags (x_start fpos file tab) _ eq_refl Hfr Hfeed) in Ha.
  destruct (accrel_proj _ _ Ha) as (_ & Htab & Hfile).
  destruct (dlw_place_oneshot H doff ridx tab datas fpos file _ Hreq Hd eq_refl) as (_ & Hp & Ho).
  unfold x', run_transfer. cbn [t_hdrs t_frags fold_left].
  change (d_tab (x_dl (dl_reset x))) with tab. fold ridx.
  rewrite Htab, Hfile. split; [exact Hp|exact Ho].
Qed.

(** ** Composition: any session, then a complete retry *)
Corollary retry_after_session_plain : forall tab0 file0 ts x0 datas frags,
  DlInv.disjoint_tab doff tab0 -> sess_inv tab0 file0 x0 ->
  let x := session H doff rx_comp rx_exec x0 ts in
  d_err (x_dl x) = false ->
  let tab := d_tab (x_dl x) in let ridx := missing_ridx tab in
  ridx <> [] -> datas_ok H ridx tab datas ->
  Forall (fun fr => fr <> []) frags -> concat frags = concat datas ->
  let x' := run_transfer H doff rx_comp rx_exec x (mkT [] frags) in
  (forall k e d c, nth_error ridx k = Some e -> nth_error datas k = Some d ->
      nth_error tab (r_tgt e) = Some c ->
      (exists c', nth_error (d_tab (x_dl x')) (r_tgt e) = Some c' /\ c_valid c' = VValid) /\
      fread (d_file (x_dl x')) (doff + c_start c) (length d) = d) /\
  (forall t, ~ In t (map r_tgt ridx) -> nth_error (d_tab (x_dl x')) t = nth_error tab t) /\
  sess_inv tab0 file0 x'.
Proof.
  intros tab0 file0 ts x0 datas frags D Hs x He tab ridx Hne Hd Hfr Hcat x'.
  pose proof (session_inv tab0 file0 ts x0 D Hs) as Hsx. fold x in Hsx.
  pose proof (disjoint_cur doff tab0 tab D (proj1 Hsx)) as Dx.
  destruct (retry_place_plain x datas frags He Hne Dx Hd Hfr Hcat) as [Hp Ho].
  split; [exact Hp|]. split; [exact Ho|].
  apply run_transfer_sess_inv; assumption.
Qed.

End SessionProofs.

(** * 4. Retry placement through the multipart layer (literal matcher) *)
Theorem retry_place_mp : forall H doff x datas B parts (pre : bytes) quoted frags,
  d_err (x_dl x) = false ->
  let tab := d_tab (x_dl x) in let ridx := missing_ridx tab in
  ridx <> [] -> DlInv.disjoint_tab doff tab -> datas_ok H ridx tab datas ->
  wf_body B parts datas ->
  Forall (fun c => c <> 0) pre ->
  (forall k, (k < length pre)%nat -> prefix_ic kw_boundary (skipn k (pre ++ kw_boundary)) = false) ->
  B <> [] -> (quoted = false -> hd 0 B <> 32 /\ hd 0 B <> 34) -> len (ct_line pre B quoted) < two64 ->
  Forall (fun fr => fr <> []) frags -> concat frags = mp_body B parts ->
  let x' := run_transfer H doff lit_comp lit_exec x (mkT [ct_line pre B quoted] frags) in
  (forall k e d c, nth_error ridx k = Some e -> nth_error datas k = Some d ->
      nth_error tab (r_tgt e) = Some c ->
      (exists c', nth_error (d_tab (x_dl x')) (r_tgt e) = Some c' /\ c_valid c' = VValid) /\
      fread (d_file (x_dl x')) (doff + c_start c) (length d) = d) /\
  (forall t, ~ In t (map r_tgt ridx) -> nth_error (d_tab (x_dl x')) t = nth_error tab t).
Proof.
  intros H doff x datas B parts pre quoted frags He tab ridx Hne D Hd Hwf Hpre Hfree HB Hq Hlen
         Hfr Hcat x'.
  pose proof (missing_req_ok doff tab D Hne) as Hreq. fold ridx in Hreq.
  set (fpos := d_fpos (x_dl x)). set (file := d_file (x_dl x)).
  destruct (transfer_lit H doff ridx tab datas B parts fpos file pre quoted frags
              Hreq Hd Hwf Hpre Hfree HB Hq Hlen Hfr Hcat) as (x2 & rets & Hfeed & Hp & Ho).
  destruct (feed_frags_rel H doff lit_comp lit_exec ridx frags _ _
              (header_cb_rel lit_comp lit_exec _ _ (ct_line pre B quoted) (reset_xrel x He)))
    as ((Ha & _) & _).
  fold tab fpos file in Ha. rewrite Hfeed in Ha. cbn [fst] in Ha.
  destruct (accrel_proj _ _ Ha) as (_ & Htab & Hfile).
  unfold x', run_transfer. cbn [t_hdrs t_frags fold_left].
  change (d_tab (x_dl (dl_reset x))) with tab. fold ridx.
  rewrite Htab, Hfile. split; assumption.
Qed.

Print Assumptions reset_wf.
Print Assumptions session_inv.
Print Assumptions sess_inv_start.
Print Assumptions session_valid_untouched.
Print Assumptions missing_req_ok.
Print Assumptions retry_place_plain.
Print Assumptions retry_after_session_plain.
Print Assumptions retry_place_mp.

(** * A concrete session
    Three chunks, nothing present.  The first transfer stops after two of the four bytes of
    chunk 0: [write_in_chunk = 2], the target pointer and the hash context are left open.  The
    second transfer delivers the complete payload for what is missing (everything). *)
Module SessionExample.
Definition toyH := D14.toyH.
Definition dA : bytes := [1; 2; 3; 4].
Definition dB : bytes := [5; 6].
Definition dC : bytes := [7; 8; 9].
Definition tab : list chunk :=
  [mkChunk 0 4 (toyH dA) VUnknown; mkChunk 4 2 (toyH dB) VUnknown; mkChunk 6 3 (toyH dC) VUnknown].
Definition doff : N := 2.
Definition file : bytes := [255; 254].
(* no header lines are sent, so the oracles are never consulted *)
Definition no_comp (_ : bytes) := false.
Definition no_exec (_ _ : bytes) : option ((N * N) * (N * N)) := None.
Definition x0 : xstate :=
  mkX (mkDl false 0 0 None None None 0 file tab) (mkMp false 0 []) None None.
Definition t1 : transfer := mkT [] [[1; 2]].
Definition t2 : transfer := mkT [] [dA ++ dB; dC].
Definition x1 : xstate := run_transfer toyH doff no_comp no_exec x0 t1.

Example broken_state :
  d_wic (x_dl x1) = 2 /\ d_tgt (x_dl x1) = Some 0%nat /\ d_acc (x_dl x1) = Some [1; 2] /\
  map c_valid (d_tab (x_dl x1)) = [VUnknown; VUnknown; VUnknown] /\
  d_file (x_dl x1) = [255; 254; 1; 2] /\ d_err (x_dl x1) = false.
Proof. vm_compute. repeat split; reflexivity. Qed.

(** with [zck_dl_reset]: everything arrives *)
Example retry_ok :
  let x2 := session toyH doff no_comp no_exec x0 [t1; t2] in
  map c_valid (d_tab (x_dl x2)) = [VValid; VValid; VValid] /\
  d_file (x_dl x2) = [255; 254; 1; 2; 3; 4; 5; 6; 7; 8; 9] /\ d_err (x_dl x2) = false.
Proof. vm_compute. repeat split; reflexivity. Qed.

(** the same as an instance of [retry_place_plain] *)
Example x1_disjoint : DlInv.disjoint_tab doff (d_tab (x_dl x1)).
Proof.
  intros t1 t2 c1 c2 x Hne H1 H2 [Ha Hb] [Hc Hd].
  change (d_tab (x_dl x1)) with tab in H1, H2.
  repeat (destruct t1 as [|t1]; cbn [nth_error tab] in H1; try discriminate);
  repeat (destruct t2 as [|t2]; cbn [nth_error tab] in H2; try discriminate);
  try congruence; inversion H1; inversion H2; subst; unfold doff in *;
  cbn [c_start c_len] in *; lia.
Qed.

Example retry_ok_thm : forall frags,
  Forall (fun fr => fr <> []) frags -> concat frags = dA ++ dB ++ dC ->
  let x2 := run_transfer toyH doff no_comp no_exec x1 (mkT [] frags) in
  fread (d_file (x_dl x2)) (doff + 0) 4 = dA /\ fread (d_file (x_dl x2)) (doff + 4) 2 = dB /\
  fread (d_file (x_dl x2)) (doff + 6) 3 = dC.
Proof.
  intros frags Hne Hcat.
  destruct (retry_place_plain toyH doff no_comp no_exec x1 [dA; dB; dC] frags eq_refl) as [Hp _];
    try assumption.
  - discriminate.
  - exact x1_disjoint.
  - change (d_tab (x_dl x1)) with tab.
    change (missing_ridx tab) with
      [mkRentry 0 4 (toyH dA) 0; mkRentry 4 2 (toyH dB) 1; mkRentry 6 3 (toyH dC) 2].
    unfold datas_ok. repeat constructor; eexists; (split; [reflexivity|]); vm_compute; reflexivity.
  - cbv zeta. split; [|split].
    + exact (proj2 (Hp 0%nat _ dA (mkChunk 0 4 (toyH dA) VUnknown) eq_refl eq_refl eq_refl)).
    + exact (proj2 (Hp 1%nat _ dB (mkChunk 4 2 (toyH dB) VUnknown) eq_refl eq_refl eq_refl)).
    + exact (proj2 (Hp 2%nat _ dC (mkChunk 6 3 (toyH dC) VUnknown) eq_refl eq_refl eq_refl)).
Qed.

(** a reset that forgets [write_in_chunk] (what [reset_wf] rules out): the first two bytes of
    the new response are taken for the rest of the old chunk and land at the old file position,
    the stream then stalls at payload offset 2 where no entry starts; no chunk becomes valid,
    the file holds garbage, and the callback still reports a non-zero count *)
Definition bad_reset (x : xstate) : xstate :=
  let s := x_dl x in
  mkX (mkDl (d_err s) 0 (d_wic s) None None (d_acc s) (d_fpos s) (d_file s) (d_tab s))
      (mkMp false 0 []) None None.
Definition bad_run_transfer (x : xstate) (t : transfer) : xstate * list bool * bool :=
  let xr := bad_reset x in
  let ridx := missing_ridx (d_tab (x_dl xr)) in
  feed_frags toyH doff ridx no_comp no_exec (fold_left (header_cb no_comp no_exec) (t_hdrs t) xr)
             (t_frags t).

Example retry_bad_reset :
  let '(x2, rets, ok) := bad_run_transfer x1 (mkT [] [dA ++ dB ++ dC]) in
  map c_valid (d_tab (x_dl x2)) = [VUnknown; VUnknown; VUnknown] /\
  d_file (x_dl x2) = [255; 254; 1; 2; 1; 2] /\ rets = [true] /\ ok = true /\
  d_err (x_dl x2) = false.
Proof. vm_compute. repeat split; reflexivity. Qed.

(** the reset state does not satisfy [dl_wf] for the bad reset: a non-zero [write_in_chunk]
    without a target *)
Example bad_reset_not_wf :
  ~ dl_wf doff (missing_ridx (d_tab (x_dl (bad_reset x1)))) (d_tab (x_dl (bad_reset x1)))
          (x_dl (bad_reset x1)).
Proof.
  intros (_ & _ & _ & W4). destruct W4 as (t & c & Hg & _).
  - vm_compute. reflexivity.
  - discriminate.
Qed.
End SessionExample.
