(** Sessions (Session.v): the single-transfer theorems made composable.

    1. [reset_wf]: whatever a (possibly broken) transfer left behind, after [dl_reset] the
       chunk writer satisfies the initial-state hypotheses of the single-transfer theorems
       relative to the table as it is NOW and the request computed from it.
    2. [session_inv]: an invariant of ARBITRARY sessions (arbitrary header lines and body
       bytes, truncated anywhere, any number of transfers, every regex oracle).
    3. [retry_place_plain]: after any earlier session that left no error, a complete
       single-range response for what is missing now fills everything, in any fragmentation.
    4. [retry_place_mp]: the same through the multipart layer with the literal matcher.

    Proof only; the models are DlWrite.v, Multipart.v, Session.v. *)
From ZV Require Import Base.Bytes Dl.DlWrite Dl.Multipart Dl.FileLemmas Dl.DlProofs Dl.MpStream
  Dl.MpSafe Dl.DlInv Dl.DlPlace Dl.C05Final Dl.LiteralMatcher Dl.MpGrammar Dl.LiteralProofs
  Dl.MpPlace Dl.MpFinal Dl.Session.
Local Open Scope N_scope.

(** * The range index of [zck_get_missing_range] *)
Lemma missing_from_in : forall tab t0 pos e, In e (missing_from tab t0 pos) ->
  exists k c, r_tgt e = (t0 + k)%nat /\ nth_error tab k = Some c /\ c_valid c = VUnknown /\
    0 < c_len c /\ r_len e = c_len c /\ r_digest e = c_digest c.
Proof.
  induction tab as [|c0 tab IH]; intros t0 pos e; cbn [missing_from]; [intros []|].
  assert (Hrec : forall p, In e (missing_from tab (S t0) p) ->
    exists k c, r_tgt e = (t0 + k)%nat /\ nth_error (c0 :: tab) k = Some c /\ c_valid c = VUnknown /\
      0 < c_len c /\ r_len e = c_len c /\ r_digest e = c_digest c).
  { intros p Hin. destruct (IH _ _ _ Hin) as (k & c & Ht & Hn & Hrest).
    exists (S k), c. split; [lia|]. split; [exact Hn|exact Hrest]. }
  destruct (c_valid c0) eqn:Ev; try (apply Hrec).
  destruct (0 <? c_len c0) eqn:El; [|apply Hrec].
  intros [<-|Hin]; [|exact (Hrec _ Hin)].
  exists 0%nat, c0. cbn [r_tgt r_len r_digest nth_error]. apply N.ltb_lt in El.
  repeat split; try assumption. lia.
Qed.

Lemma missing_from_starts : forall tab t0 pos, starts_ok (missing_from tab t0 pos) pos.
Proof.
  induction tab as [|c0 tab IH]; intros t0 pos; cbn [missing_from]; [exact I|].
  destruct (c_valid c0); try apply IH.
  destruct (0 <? c_len c0); [|apply IH].
  cbn [starts_ok r_start r_len]. split; [reflexivity|apply IH].
Qed.

Lemma missing_from_nodup : forall tab t0 pos, NoDup (map r_tgt (missing_from tab t0 pos)).
Proof.
  induction tab as [|c0 tab IH]; intros t0 pos; cbn [missing_from]; [constructor|].
  destruct (c_valid c0); try apply IH.
  destruct (0 <? c_len c0); [|apply IH].
  cbn [map r_tgt]. constructor; [|apply IH].
  intros Hin. apply in_map_iff in Hin. destruct Hin as (e & He & Hin).
  destruct (missing_from_in _ _ _ _ Hin) as (k & c & Ht & _). lia.
Qed.

Lemma missing_ridx_in tab e : In e (missing_ridx tab) ->
  exists c, nth_error tab (r_tgt e) = Some c /\ c_valid c = VUnknown /\
    0 < c_len c /\ r_len e = c_len c /\ r_digest e = c_digest c.
Proof.
  intros Hin. destruct (missing_from_in _ _ _ _ Hin) as (k & c & Ht & Hn & Hrest).
  cbn [Nat.add] in Ht. rewrite Ht. exists c. split; [exact Hn|exact Hrest].
Qed.

(** (3a) the request computed from the table is consistent with it *)
Lemma missing_req_ok doff tab :
  DlInv.disjoint_tab doff tab -> missing_ridx tab <> [] -> req_ok doff (missing_ridx tab) tab.
Proof.
  intros D Hne. unfold req_ok.
  split; [apply missing_from_nodup|]. split; [apply missing_from_starts|].
  split; [exact D|]. split; [exact Hne|].
  intros e Hin. destruct (missing_ridx_in tab e Hin) as (c & Hn & Hv & Hl & Hrl & Hrd).
  exists c. split; [exact Hn|]. split; [rewrite Hv; discriminate|].
  split; [exact Hrl|]. split; [exact Hrd|]. rewrite Hrl. exact Hl.
Qed.

(** * [dl_reset] field by field *)
Lemma dl_reset_dl x :
  x_dl (dl_reset x) = mkDl (d_err (x_dl x)) 0 0 None None (d_acc (x_dl x)) (d_fpos (x_dl x))
                           (d_file (x_dl x)) (d_tab (x_dl x)).
Proof. reflexivity. Qed.

(** the target context is untouched ... *)
Lemma dl_reset_keeps x :
  d_file (x_dl (dl_reset x)) = d_file (x_dl x) /\ d_tab (x_dl (dl_reset x)) = d_tab (x_dl x) /\
  d_err (x_dl (dl_reset x)) = d_err (x_dl x) /\ d_acc (x_dl (dl_reset x)) = d_acc (x_dl x) /\
  d_fpos (x_dl (dl_reset x)) = d_fpos (x_dl x).
Proof. repeat split; reflexivity. Qed.

(** ... and the zckDL is zeroed *)
Lemma dl_reset_clears x :
  d_pos (x_dl (dl_reset x)) = 0 /\ d_wic (x_dl (dl_reset x)) = 0 /\ d_tgt (x_dl (dl_reset x)) = None /\
  d_cur (x_dl (dl_reset x)) = None /\ x_mp (dl_reset x) = mkMp false 0 [] /\
  x_boundary (dl_reset x) = None /\ x_rx (dl_reset x) = None.
Proof. repeat split; reflexivity. Qed.

(** * Shapes *)
Lemma same_shape_trans a b c : same_shape a b -> same_shape b c -> same_shape a c.
Proof.
  intros Hab [L2 S2]. split; [destruct Hab as [L1 _]; congruence|].
  intros t x z Hx Hz. destruct (same_shape_init a b t x Hab Hx) as (y & Hy & E1 & E2 & E3).
  destruct (S2 t y z Hy Hz) as (F1 & F2 & F3). repeat split; congruence.
Qed.

(** a flag never goes back to "unknown" *)
Definition noback (tab : list chunk) (s : dlstate) : Prop :=
  forall t c c', nth_error tab t = Some c -> nth_error (d_tab s) t = Some c' ->
    c_valid c <> VUnknown -> c_valid c' <> VUnknown.

Lemma noback_set_flag tab s s1 t v :
  noback tab s -> v <> VUnknown -> d_tab s1 = set_flag (d_tab s) t v -> noback tab s1.
Proof.
  intros Hnb Hv Htab t' c c' H0 H1 Hv0. rewrite Htab in H1.
  destruct (set_flag_inv _ _ _ _ _ H1) as (c1 & Hn1 & _ & _ & _ & Hother & Hsame).
  destruct (Nat.eq_dec t' t) as [E|E].
  - rewrite (Hsame E). exact Hv.
  - rewrite (Hother E). exact (Hnb t' c c1 H0 Hn1 Hv0).
Qed.

Lemma noback_dlw H doff ridx tab s bs s' r :
  noback tab s -> dlw H doff ridx s bs = (s', r) -> noback tab s'.
Proof.
  unfold dlw. apply (dlw_f_inv H doff ridx (noback tab)).
  - intros s0 H0. exact H0.
  - intros s0 bs0 s1 ok H0 Hw. destruct (dl_write_spec _ _ _ _ Hw) as (Htab & _).
    unfold noback. rewrite Htab. exact H0.
  - intros s0 s1 ok H0 _ Hs.
    destruct (scv_cases _ _ _ _ _ Hs) as [(-> & _)|(t & c & _ & _ & Hc)]; [exact H0|].
    destruct Hc as [(_ & _ & ->)|[(acc & _ & _ & _ & ->)|(acc & _ & _ & _ & ->)]];
      eapply (noback_set_flag tab s0 _ t); try exact H0; try reflexivity; discriminate.
  - intros s0 H0 _. unfold noback. rewrite select_tab. exact H0.
Qed.

Section SessionProofs.
Variable H : bytes -> bytes.
Variable doff : N.
Variable rx_comp : bytes -> bool.
Variable rx_exec : bytes -> bytes -> option ((N * N) * (N * N)).

(** * 1. The reset lemma *)
Lemma reset_wf : forall x, let s := x_dl (dl_reset x) in
  dl_wf2 doff (missing_ridx (d_tab s)) (d_tab s) s /\ verified H doff (d_tab s) s.
Proof.
  intros x s. subst s. rewrite dl_reset_dl. cbn [d_tab].
  split; [split|].
  - unfold dl_wf. cbn [d_tab d_tgt d_wic d_fpos]. split; [apply same_shape_refl|].
    split; [intros t c c' H0 Hv H1; congruence|]. split; [intros t c Hx; discriminate|].
    intros Hx. lia.
  - intros t c Hx. discriminate.
  - intros t c c0 H0 Hv0 Hn Hv. cbn [d_tab] in Hn. congruence.
Qed.

(** * The callbacks change the chunk-writer state only through [dlw] and [set_err] *)
Inductive gbk := KSame | KErr | KSet (bd : bytes).
Definition apply_k (k : gbk) (x : xstate) : xstate :=
  match k with
  | KSame => x
  | KErr => x_set_err x
  | KSet bd => mkX (x_dl x) (mkMp false 0 []) (Some bd) (x_rx x)
  end.

(** what [multipart_get_boundary] does to the state depends on the state only through the
    error flag *)
Lemma get_boundary_form line e : exists k, forall x, d_err (x_dl x) = e ->
  fst (get_boundary rx_comp rx_exec x line) = apply_k k x.
Proof.
  unfold get_boundary. destruct e.
  { exists KSame. intros x ->. reflexivity. }
  destruct (negb (rx_comp pat_hdr)).
  { exists KErr. intros x ->. reflexivity. }
  cbv zeta.
  destruct (cstr (line ++ [0])) as [str|]; [|exists KSame; intros x ->; reflexivity].
  destruct (rx_exec pat_hdr str) as [[[so eo] g2]|]; [|exists KSame; intros x ->; reflexivity].
  destruct (nth_error (line ++ [0]) (N.to_nat so)) as [c0|]; [|exists KSame; intros x ->; reflexivity].
  destruct ((c0 =? 34) && (2 <? u64 (eo + two64 - so))).
  - destruct (nth_error (line ++ [0]) (N.to_nat (so + u64 (eo + two64 - so) - 1))) as [cl|];
      [|exists KSame; intros x ->; reflexivity].
    destruct (take_exact (line ++ [0]) (if cl =? 34 then so + 1 else so)
                (if cl =? 34 then u64 (eo + two64 - so) - 2 else u64 (eo + two64 - so))) as [bd|].
    + exists (KSet (until_nul bd)). intros x ->. reflexivity.
    + exists KSame. intros x ->. reflexivity.
  - destruct (take_exact (line ++ [0]) so (u64 (eo + two64 - so))) as [bd|].
    + exists (KSet (until_nul bd)). intros x ->. reflexivity.
    + exists KSame. intros x ->. reflexivity.
Qed.

Section Lift.
Variable ridx : list rentry.
Variable P : dlstate -> Prop.
Hypothesis P_err : forall s, P s -> P (set_err s).
Hypothesis P_dlw : forall s bs s' r, P s -> dlw H doff ridx s bs = (s', r) -> P s'.

Lemma mp_step_lift pn pe dl st mlen isuf : P dl ->
  match mp_step H doff ridx rx_exec pn pe dl st mlen isuf with
  | inl ((dl', _), _) => P dl'
  | inr (dl', _, _, _) => P dl'
  end.
Proof.
  intros HP. unfold mp_step. destruct isuf as [|b0 isuf']; [exact HP|]. destruct st.
  - unfold data_step. destruct (dlw H doff ridx dl _) as [dl' r] eqn:E.
    pose proof (P_dlw _ _ _ _ HP E) as HP'. destruct (dret r =? _); exact HP'.
  - unfold hdr_step.
    destruct (scan _ _ _); try exact HP.
    destruct (cstr _); try exact HP.
    destruct (rx_exec pn _) as [[[so1 eo1] [so2 eo2]]|].
    + destruct (take_exact _ so1 _); try exact HP.
      destruct (take_exact _ so2 _); exact HP.
    + destruct (rx_exec pe _); [exact HP|apply P_err; exact HP].
Qed.

Lemma mp_loop_lift : forall f pn pe dl st mlen isuf, P dl ->
  P (fst (fst (mp_loop H doff ridx rx_exec f pn pe dl st mlen isuf))).
Proof.
  induction f as [|f IH]; intros pn pe dl st mlen isuf HP; [exact HP|].
  rewrite mp_loop_S. pose proof (mp_step_lift pn pe dl st mlen isuf HP) as Hs.
  destruct (mp_step H doff ridx rx_exec pn pe dl st mlen isuf)
    as [[[dl' mp'] r]|[[[dl' st'] mlen'] i']]; cbn [mp_next fst].
  - exact Hs.
  - apply IH. exact Hs.
Qed.

Lemma mpx_lift x b : P (x_dl x) -> P (x_dl (fst (mpx H doff ridx rx_comp rx_exec x b))).
Proof.
  intros HP. unfold mpx. destruct (d_err (x_dl x)); [exact HP|]. cbv zeta.
  destruct (match x_rx x with Some r => Some r | None => _ end) as [[pn pe]|].
  - pose proof (mp_loop_lift (2 * length (m_buf (x_mp x) ++ b) + 4) pn pe (x_dl x)
                  (m_state (x_mp x)) (m_length (x_mp x)) (m_buf (x_mp x) ++ b) HP) as Hl.
    destruct (mp_loop _ _ _ _ _ _ _ _ _ _ _) as [[dl' mp'] r]. exact Hl.
  - cbn [fst x_dl]. apply P_err. exact HP.
Qed.

Lemma write_cb_lift x fr :
  P (x_dl x) -> P (x_dl (fst (fst (write_cb H doff ridx rx_comp rx_exec x fr)))).
Proof.
  intros HP. unfold write_cb. destruct (x_boundary x).
  - pose proof (mpx_lift x fr HP) as Hm.
    destruct (mpx H doff ridx rx_comp rx_exec x fr) as [x' r]. exact Hm.
  - destruct (dlw H doff ridx (x_dl x) fr) as [dl' r] eqn:E. cbn [fst x_dl].
    exact (P_dlw _ _ _ _ HP E).
Qed.

Lemma feed_frags_lift : forall frags x,
  P (x_dl x) -> P (x_dl (fst (fst (feed_frags H doff ridx rx_comp rx_exec x frags)))).
Proof.
  induction frags as [|fr rest IH]; intros x HP; cbn [feed_frags]; [exact HP|].
  pose proof (write_cb_lift x fr HP) as Hw.
  destruct (write_cb H doff ridx rx_comp rx_exec x fr) as [[x' ok] r]. cbn [fst] in Hw.
  assert (Hgo : P (x_dl (fst (fst (if ok
              then let '(x'', l, a) := feed_frags H doff ridx rx_comp rx_exec x' rest in (x'', true :: l, a)
              else (x', [false], false)))))).
  { destruct ok; [|exact Hw]. specialize (IH x' Hw).
    destruct (feed_frags H doff ridx rx_comp rx_exec x' rest) as [[x'' l] a]. exact IH. }
  destruct r; try exact Hgo; exact Hw.
Qed.
End Lift.

Lemma header_cb_lift (P : dlstate -> Prop) :
  (forall s, P s -> P (set_err s)) ->
  forall x line, P (x_dl x) -> P (x_dl (header_cb rx_comp rx_exec x line)).
Proof.
  intros P_err x line HP. unfold header_cb.
  destruct (get_boundary_form line (d_err (x_dl x))) as [k Hk]. rewrite (Hk x eq_refl).
  destruct k; cbn [apply_k x_set_err x_dl]; [exact HP|apply P_err; exact HP|exact HP].
Qed.

Lemma headers_lift (P : dlstate -> Prop) :
  (forall s, P s -> P (set_err s)) ->
  forall lines x, P (x_dl x) -> P (x_dl (fold_left (header_cb rx_comp rx_exec) lines x)).
Proof.
  intros P_err. induction lines as [|l lines IH]; intros x HP; cbn [fold_left]; [exact HP|].
  apply IH. apply header_cb_lift; assumption.
Qed.


(** * 2. The session invariant *)
(** the invariant of ONE transfer, relative to table and file at its start (after the reset) *)
Definition tr_inv (tabk : list chunk) (filek : bytes) (s : dlstate) : Prop :=
  dl_wf2 doff (missing_ridx tabk) tabk s /\ verified H doff tabk s /\
  (forall off, (forall t c, nth_error tabk t = Some c -> fillable (missing_ridx tabk) tabk t ->
                            ~ DlInv.in_ext doff c off) ->
               fget (d_file s) off = fget filek off) /\
  noback tabk s.

Lemma tr_inv_err tabk filek s : tr_inv tabk filek s -> tr_inv tabk filek (set_err s).
Proof.
  intros ([W T] & V & Cf & Nb). split; [split|split; [|split]].
  - apply dl_wf_err. exact W.
  - revert T. apply tgt_ok_ext; reflexivity.
  - revert V. apply verified_ext; reflexivity.
  - exact Cf.
  - exact Nb.
Qed.

Lemma tr_inv_dlw tabk filek s bs s' r :
  DlInv.disjoint_tab doff tabk -> tr_inv tabk filek s ->
  dlw H doff (missing_ridx tabk) s bs = (s', r) -> tr_inv tabk filek s'.
Proof.
  intros D (W2 & V & Cf & Nb) Hrun.
  destruct (dlw_verified H doff _ tabk s bs s' r D W2 V Hrun) as [W2' V'].
  destruct (dlw_confined H doff _ tabk s bs s' r (proj1 W2) Hrun) as [_ Cf'].
  split; [exact W2'|]. split; [exact V'|]. split.
  - intros off Hout. rewrite (Cf' off Hout). exact (Cf off Hout).
  - exact (noback_dlw H doff _ tabk s bs s' r Nb Hrun).
Qed.

Lemma tr_inv_reset x : tr_inv (d_tab (x_dl x)) (d_file (x_dl x)) (x_dl (dl_reset x)).
Proof.
  destruct (reset_wf x) as [W V]. split; [exact W|]. split; [exact V|]. split.
  - intros off _. reflexivity.
  - intros t c c' H0 H1 Hv. cbn [dl_reset x_dl d_tab] in H1. congruence.
Qed.

(** every transfer, whatever it carries and wherever it stops, keeps its invariant *)
Lemma run_transfer_tr_inv x t :
  DlInv.disjoint_tab doff (d_tab (x_dl x)) ->
  tr_inv (d_tab (x_dl x)) (d_file (x_dl x)) (x_dl (run_transfer H doff rx_comp rx_exec x t)).
Proof.
  intros D. unfold run_transfer.
  change (d_tab (x_dl (dl_reset x))) with (d_tab (x_dl x)).
  apply (feed_frags_lift (missing_ridx (d_tab (x_dl x))) (tr_inv (d_tab (x_dl x)) (d_file (x_dl x)))).
  - apply tr_inv_err.
  - intros s bs s' r. apply tr_inv_dlw. exact D.
  - apply headers_lift; [apply tr_inv_err|]. apply tr_inv_reset.
Qed.

Definition missing (tab0 : list chunk) (t : nat) : Prop :=
  exists c, nth_error tab0 t = Some c /\ c_valid c = VUnknown /\ 0 < c_len c.

Definition sess_inv (tab0 : list chunk) (file0 : bytes) (x : xstate) : Prop :=
  let s := x_dl x in
  same_shape tab0 (d_tab s) /\
  (forall t c c', nth_error tab0 t = Some c -> nth_error (d_tab s) t = Some c' ->
      c_valid c <> VUnknown -> c_valid c' <> VUnknown) /\
  (forall t c c', nth_error tab0 t = Some c -> nth_error (d_tab s) t = Some c' ->
      c_valid c = VValid -> c_valid c' = VValid) /\
  (forall t c c', nth_error tab0 t = Some c -> c_valid c <> VValid ->
      nth_error (d_tab s) t = Some c' -> c_valid c' = VValid ->
      chunk_ok H c' (fread (d_file s) (doff + c_start c') (N.to_nat (c_len c')))) /\
  (forall off, (forall t c, nth_error tab0 t = Some c -> missing tab0 t -> ~ DlInv.in_ext doff c off) ->
      fget (d_file s) off = fget file0 off).

(** what a request can fill now was missing at the very beginning *)
Lemma fillable_missing tab0 tabk t :
  same_shape tab0 tabk ->
  (forall t c c', nth_error tab0 t = Some c -> nth_error tabk t = Some c' ->
      c_valid c <> VUnknown -> c_valid c' <> VUnknown) ->
  fillable (missing_ridx tabk) tabk t -> missing tab0 t.
Proof.
  intros A B (c & e & Hn & _ & Hin & Ht).
  destruct (missing_ridx_in tabk e Hin) as (ck & Hnk & Hvk & Hlk & _). rewrite Ht in Hnk.
  destruct (same_shape_cur _ _ _ _ A Hnk) as (c0 & Hn0 & _ & Hl0 & _).
  exists c0. split; [exact Hn0|]. split.
  - destruct (vflag_eq_dec (c_valid c0) VUnknown) as [E|E]; [exact E|].
    exfalso. exact (B t c0 ck Hn0 Hnk E Hvk).
  - rewrite <- Hl0. exact Hlk.
Qed.

Lemma chunk_ok_shape c c' bs :
  c_len c' = c_len c -> c_digest c' = c_digest c -> chunk_ok H c bs -> chunk_ok H c' bs.
Proof. unfold chunk_ok, chunk_digest_ok. intros -> ->. auto. Qed.

Lemma sess_inv_step tab0 file0 x x' :
  DlInv.disjoint_tab doff tab0 -> sess_inv tab0 file0 x ->
  tr_inv (d_tab (x_dl x)) (d_file (x_dl x)) (x_dl x') -> sess_inv tab0 file0 x'.
Proof.
  intros D (A0 & B0 & C0 & D0 & E0) ([[W1 [W2 _]] _] & V & Cf & Nb).
  set (tabk := d_tab (x_dl x)) in *. set (filek := d_file (x_dl x)) in *.
  pose proof (disjoint_cur doff tab0 tabk D A0) as Dk.
  unfold sess_inv. cbv zeta.
  split; [exact (same_shape_trans _ _ _ A0 W1)|]. split; [|split; [|split]].
  - intros t c c' H0 H1 Hv. destruct (same_shape_init _ _ _ _ A0 H0) as (ck & Hk & _).
    exact (Nb t ck c' Hk H1 (B0 t c ck H0 Hk Hv)).
  - intros t c c' H0 H1 Hv. destruct (same_shape_init _ _ _ _ A0 H0) as (ck & Hk & _).
    exact (W2 t ck c' Hk (C0 t c ck H0 Hk Hv) H1).
  - intros t c c' H0 Hnv H1 Hv'. destruct (same_shape_init _ _ _ _ A0 H0) as (ck & Hk & _).
    destruct (vflag_eq_dec (c_valid ck) VValid) as [Ek|Ek].
    + (* already valid when this transfer started: flag and bytes were not touched *)
      destruct W1 as [_ S1]. destruct (S1 t ck c' Hk H1) as (Es & El & Ed).
      rewrite Es, El. apply (chunk_ok_shape ck c'); [exact El|exact Ed|].
      replace (fread (d_file (x_dl x')) (doff + c_start ck) (N.to_nat (c_len ck)))
        with (fread filek (doff + c_start ck) (N.to_nat (c_len ck))).
      * exact (D0 t c ck H0 Hnv Hk Ek).
      * symmetry. apply fread_ext. intros off Hoff. apply Cf.
        intros t2 c2 Hn2 (c2' & e & Hn2' & Hv2 & _) Hin.
        assert (c2' = c2) by congruence. subst c2'.
        apply (Dk t t2 ck c2 off); try assumption.
        -- intros ->. congruence.
        -- unfold DlInv.in_ext. lia.
    + exact (V t c' ck Hk Ek H1 Hv').
  - intros off Hout. rewrite Cf; [apply E0; exact Hout|].
    intros t2 c2 Hn2 Hf Hin.
    pose proof (fillable_missing tab0 tabk t2 A0 B0 Hf) as Hm.
    destruct (same_shape_cur _ _ _ _ A0 Hn2) as (c0 & Hn0 & Hs0 & Hl0 & _).
    apply (Hout t2 c0 Hn0 Hm). unfold DlInv.in_ext in *. rewrite <- Hs0, <- Hl0. exact Hin.
Qed.

Lemma run_transfer_sess_inv tab0 file0 x t :
  DlInv.disjoint_tab doff tab0 -> sess_inv tab0 file0 x ->
  sess_inv tab0 file0 (run_transfer H doff rx_comp rx_exec x t).
Proof.
  intros D Hs. apply (sess_inv_step tab0 file0 x); [exact D|exact Hs|].
  apply run_transfer_tr_inv. exact (disjoint_cur doff tab0 _ D (proj1 Hs)).
Qed.

Theorem session_inv : forall tab0 file0 ts x,
  DlInv.disjoint_tab doff tab0 -> sess_inv tab0 file0 x ->
  sess_inv tab0 file0 (session H doff rx_comp rx_exec x ts).
Proof.
  intros tab0 file0 ts. unfold session.
  induction ts as [|t ts IH]; intros x D Hs; cbn [fold_left]; [exact Hs|].
  apply IH; [exact D|]. apply run_transfer_sess_inv; assumption.
Qed.

(** any zckDL over the target, whatever junk its chunk-writer fields hold *)
Lemma sess_inv_start_gen : forall x, sess_inv (d_tab (x_dl x)) (d_file (x_dl x)) x.
Proof.
  intros x. unfold sess_inv. cbv zeta. split; [apply same_shape_refl|].
  split; [intros t c c' H0 H1; congruence|]. split; [intros t c c' H0 H1; congruence|].
  split; [intros t c c' H0 Hv H1; congruence|]. intros off _. reflexivity.
Qed.

Lemma sess_inv_start : forall tab0 file0 fpos mp b rx,
  sess_inv tab0 file0 (mkX (mkDl false 0 0 None None None fpos file0 tab0) mp b rx).
Proof. intros. apply (sess_inv_start_gen (mkX (mkDl false 0 0 None None None fpos file0 tab0) mp b rx)). Qed.

Corollary session_valid_untouched : forall tab0 file0 ts x t c,
  DlInv.disjoint_tab doff tab0 -> sess_inv tab0 file0 x ->
  nth_error tab0 t = Some c -> c_valid c = VValid ->
  let s := x_dl (session H doff rx_comp rx_exec x ts) in
  (exists c', nth_error (d_tab s) t = Some c' /\ c_valid c' = VValid /\
              c_start c' = c_start c /\ c_len c' = c_len c /\ c_digest c' = c_digest c) /\
  fread (d_file s) (doff + c_start c) (N.to_nat (c_len c)) =
  fread file0 (doff + c_start c) (N.to_nat (c_len c)).
Proof.
  intros tab0 file0 ts x t c D Hs Hn Hv s.
  destruct (session_inv tab0 file0 ts x D Hs) as (A & _ & C & _ & E). fold s in A, C, E.
  split.
  - destruct (same_shape_init _ _ _ _ A Hn) as (c' & Hn' & Es & El & Ed).
    exists c'. split; [exact Hn'|]. split; [exact (C t c c' Hn Hn' Hv)|]. auto.
  - apply fread_ext. intros off Hoff. apply E.
    intros t2 c2 Hn2 (c2' & Hn2' & Hv2 & _) Hin.
    assert (c2' = c2) by congruence. subst c2'.
    apply (D t t2 c c2 off); try assumption.
    + intros ->. congruence.
    + unfold DlInv.in_ext. lia.
Qed.

End SessionProofs.
