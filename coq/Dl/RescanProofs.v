(** The re-scan step of Dl/Session.v: it does not touch the file, keeps the table shape, and
    afterwards every flag tells the truth about the file; so a session can be continued from
    the re-scanned state with [sess_inv_start_gen] as a fresh reference point. *)
From ZV Require Import Base.Bytes Dl.DlWrite Dl.Multipart Dl.Session Dl.DlInv Dl.SessionProofs.
Local Open Scope N_scope.

Section R.
Variable H : bytes -> bytes.
Variable doff : N.

Lemma rescan_file x : d_file (x_dl (rescan H doff x)) = d_file (x_dl x).
Proof. unfold rescan. destruct (d_err (x_dl x)); reflexivity. Qed.

Lemma rescan_tab_nth file : forall tab t0 k c',
  nth_error (rescan_tab H doff file tab t0) k = Some c' ->
  exists c, nth_error tab k = Some c /\
    c' = mkChunk (c_start c) (c_len c) (c_digest c) (rescan_flag H doff file (t0 + k) c).
Proof.
  induction tab as [|c tab IH]; intros t0 k c' Hn; cbn [rescan_tab] in Hn.
  - destruct k; discriminate.
  - destruct k as [|k]; cbn [nth_error] in *.
    + inversion Hn; subst. exists c. rewrite Nat.add_0_r. split; reflexivity.
    + destruct (IH (S t0) k c' Hn) as (c0 & Hc0 & Hc'). exists c0. split; [exact Hc0|].
      rewrite Hc'. f_equal. f_equal. lia.
Qed.

(** after a re-scan (no error pending) a chunk is flagged valid only if it is the empty first
    chunk or its extent lies in the file and hashes to its digest *)
Theorem rescan_sound : forall x t c',
  d_err (x_dl x) = false ->
  nth_error (d_tab (x_dl (rescan H doff x))) t = Some c' -> c_valid c' = VValid ->
  (t = 0%nat /\ c_len c' = 0) \/
  (doff + c_start c' + c_len c' <= len (d_file (x_dl x)) /\
   chunk_ok H c' (fread (d_file (x_dl (rescan H doff x))) (doff + c_start c') (N.to_nat (c_len c')))).
Proof.
  intros x t c' He Hn Hv. rewrite rescan_file. unfold rescan in Hn. rewrite He in Hn. cbn [x_dl d_tab] in Hn.
  destruct (rescan_tab_nth _ _ _ _ _ Hn) as (c & Hc & Hc'). subst c'. cbn [c_valid c_len c_start] in *.
  cbn [Nat.add] in Hv. unfold rescan_flag in Hv.
  destruct ((t =? 0)%nat && (c_len c =? 0)) eqn:E0.
  - left. apply andb_prop in E0. destruct E0 as [E1 E2]. apply Nat.eqb_eq in E1. apply N.eqb_eq in E2. auto.
  - destruct ((doff + c_start c + c_len c <=? len (d_file (x_dl x))) &&
              chunk_digest_ok H c (fread (d_file (x_dl x)) (doff + c_start c) (N.to_nat (c_len c)))) eqn:E1;
      [|discriminate].
    right. apply andb_prop in E1. destruct E1 as [E2 E3]. apply N.leb_le in E2. split; [exact E2|].
    unfold chunk_ok, chunk_digest_ok in *. cbn [c_digest c_len]. exact E3.
Qed.

Lemma rescan_tab_shape file : forall tab t0, same_shape tab (rescan_tab H doff file tab t0).
Proof.
  intros tab t0. split.
  - revert t0. induction tab as [|c tab IH]; intros t0; cbn [rescan_tab length]; [reflexivity|]. f_equal. apply IH.
  - intros t c c' Hc Hc'. destruct (rescan_tab_nth _ _ _ _ _ Hc') as (c0 & Hc0 & Heq).
    rewrite Hc in Hc0. inversion Hc0; subst. cbn. repeat split; reflexivity.
Qed.

(** the session invariant restarts from the re-scanned state *)
Theorem rescan_restart : forall x,
  sess_inv H doff (d_tab (x_dl (rescan H doff x))) (d_file (x_dl x)) (rescan H doff x).
Proof.
  intros x. rewrite <- (rescan_file x). apply sess_inv_start_gen.
Qed.

(** zck_clear_error between transfers changes neither file nor table: the session invariant, which
    only speaks about those, is untouched *)
Theorem clear_error_sess_inv : forall tab0 file0 x,
  sess_inv H doff tab0 file0 x -> sess_inv H doff tab0 file0 (clear_error x).
Proof. intros tab0 file0 x Hs. unfold sess_inv in *. cbn [clear_error x_dl d_tab d_file]. exact Hs. Qed.
End R.

Print Assumptions rescan_sound.
Print Assumptions rescan_restart.
Print Assumptions clear_error_sess_inv.
