(** Well-formed multipart/byteranges bodies as a generator — definitions only.

    A body is a sequence of parts followed by the closing delimiter.  Each part is
      lead  "--" B CRLF  {extra header line CRLF}  Content-Range line CRLF
      {extra header line CRLF}  CRLF  payload
    where [lead] is an optional run of bytes without CR/LF/NUL (a preamble) followed by an
    optional CRLF, the Content-Range line may be spelled in any letter case with any number
    of spaces where the pattern allows them, and the payload is ARBITRARY (it may contain the
    boundary, CRLFCRLF, NUL ...): zchunk cuts it out by length. *)
From ZV Require Import Base.Bytes Dl.DlWrite Dl.Multipart Dl.LiteralMatcher.
Local Open Scope N_scope.

Definition crlf : bytes := [13; 10].

Definition plain_byte (c : byte) : Prop := c <> 0 /\ c <> 13 /\ c <> 10.
Definition line_ok (l : bytes) : Prop := l <> [] /\ Forall plain_byte l.
Definition render_lines (ls : list bytes) : bytes := concat (map (fun l => l ++ crlf) ls).

Definition boundary_ok (B : bytes) : Prop := Forall plain_byte B.

Record mpart := mkPart {
  p_pre : bytes;            (* bytes before the delimiter line (no CR/LF/NUL), usually empty *)
  p_crlf : bool;            (* is the delimiter preceded by CRLF *)
  p_before : list bytes;    (* extra header lines before the Content-Range line *)
  p_kw : bytes;             (* spelling of "content-range:" *)
  p_sp1 : nat;
  p_bytes : bytes;          (* spelling of "bytes" *)
  p_sp2 : nat;
  p_da : bytes;             (* digits of the first byte position *)
  p_sp3 : nat;
  p_sp4 : nat;
  p_db : bytes;             (* digits of the last byte position *)
  p_sp5 : nat;
  p_dt : bytes;             (* digits of the total length *)
  p_after : list bytes;     (* extra header lines after the Content-Range line *)
  p_data : bytes }.         (* payload *)

Definition sp (n : nat) : bytes := repeat 32 n.

Definition cr_line (p : mpart) : bytes :=
  p_kw p ++ sp (p_sp1 p) ++ p_bytes p ++ sp (p_sp2 p) ++ p_da p ++ sp (p_sp3 p) ++ [45] ++
  sp (p_sp4 p) ++ p_db p ++ sp (p_sp5 p) ++ [47] ++ p_dt p.

Definition p_lead (p : mpart) : bytes := p_pre p ++ (if p_crlf p then crlf else []).

(** everything of the part header before the Content-Range line *)
Definition hdr_head (B : bytes) (p : mpart) : bytes :=
  p_lead p ++ [45; 45] ++ B ++ crlf ++ render_lines (p_before p).

(** the part header including the blank line *)
Definition part_header (B : bytes) (p : mpart) : bytes :=
  hdr_head B p ++ cr_line p ++ crlf ++ render_lines (p_after p) ++ crlf.

(** the NUL-terminated string multipart_extract hands to regexec: the header with the final
    LF of the blank line cut off *)
Definition hstr (B : bytes) (p : mpart) : bytes :=
  hdr_head B p ++ cr_line p ++ crlf ++ render_lines (p_after p) ++ [13].

Definition render_part (B : bytes) (p : mpart) : bytes := part_header B p ++ p_data p.

Definition closing (B : bytes) : bytes := crlf ++ [45; 45] ++ B ++ [45; 45] ++ crlf.

Definition mp_body (B : bytes) (parts : list mpart) : bytes :=
  concat (map (render_part B) parts) ++ closing B.

(** no case-insensitive occurrence of "content-range:" *)
Definition kw_free (s : bytes) : Prop := forall k, prefix_ic kw_cr (skipn k s) = false.

Definition digits_ok (d : bytes) : Prop := d <> [] /\ Forall (fun c => is_dg c = true) d.

(** the header of a part is well formed *)
Definition part_hdr_ok (p : mpart) : Prop :=
  Forall plain_byte (p_pre p) /\
  Forall line_ok (p_before p) /\ Forall line_ok (p_after p) /\
  map lower (p_kw p) = kw_cr /\ map lower (p_bytes p) = kw_bytes /\
  digits_ok (p_da p) /\ digits_ok (p_db p) /\ digits_ok (p_dt p) /\
  kw_free (render_lines (p_after p) ++ [13]).

(** ... and its payload has the announced length (computed the way the C code does:
    [rend - rstart + 1] on [size_t]); for digit strings below 2^64 [parse_dec] is the decimal
    value, see [parse_dec_value] *)
Definition part_ok (p : mpart) : Prop :=
  part_hdr_ok p /\ p_data p <> [] /\
  len (p_data p) = u64 (parse_dec (p_db p) + two64 - parse_dec (p_da p) + 1).

(** plain decimal value of a digit string *)
Definition dec_value (d : bytes) : N := fold_left (fun acc c => acc * 10 + (c - 48)) d 0.

(** the Content-Type header line of the response *)
Definition ct_line (pre B : bytes) (quoted : bool) : bytes :=
  pre ++ kw_boundary ++ [61] ++ (if quoted then [34] ++ B ++ [34] else B) ++ crlf.
