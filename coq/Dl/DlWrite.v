(** Model of [dl_write_range] and its helpers ([dl_write], [set_chunk_valid],
    [validate_chunk], [zero_chunk]) of src/lib/dl/dl.c — definitions only.

    A pointer-mutating C function becomes a function returning the new record.  The
    running hash context [zck->check_chunk_hash] is "the bytes fed since [hash_init]"
    ([None] = context closed: never initialised or already finalised).  The target file
    is a byte list; [seek_data]+[write_data] become an explicit file position and
    [file_write], which extends with zeros like [write] behind a seek past EOF.
    I/O is fault free here (C12 quantifies over fault schedules).

    Not modelled: [int wb] truncation in [dl_write] (needs one in-memory buffer of 2 GiB
    or more), [chk->src] pointing outside the target table (no-match in the model). *)
From ZV Require Import Base.Bytes.
Local Open Scope N_scope.

(** * Files *)
Definition fget (f : bytes) (off : N) : byte := nth (N.to_nat off) f 0.

Definition file_write (f : bytes) (off : N) (bs : bytes) : bytes :=
  match bs with
  | [] => f   (* write_data returns before write(2) when length = 0 *)
  | _ => let o := N.to_nat off in
         firstn o f ++ repeat 0 (o - length f) ++ bs ++ skipn (o + length bs) f
  end.

Definition fread (f : bytes) (off : N) (n : nat) : bytes :=
  map (fun k => fget f (off + N.of_nat k)) (seq 0 n).

Fixpoint bytes_eqb (a b : bytes) : bool :=
  match a, b with
  | [], [] => true
  | x :: a', y :: b' => (x =? y) && bytes_eqb a' b'
  | _, _ => false
  end.

(** * Tables *)
Inductive vflag := VUnknown | VValid | VFailed.   (* zckChunk.valid = 0 / 1 / -1 *)
Definition is_valid (v : vflag) : bool := match v with VValid => true | _ => false end.

Record chunk := mkChunk {
  c_start : N;        (* offset inside the data section *)
  c_len : N;          (* comp_length *)
  c_digest : bytes;   (* digest, digest_size = its length *)
  c_valid : vflag }.

(** entry of [range->index]: [start] = offset inside the concatenated payload,
    [src] = index of the target chunk *)
Record rentry := mkRentry {
  r_start : N;
  r_len : N;
  r_digest : bytes;
  r_tgt : nat }.

Record dlstate := mkDl {
  d_err : bool;             (* zck->error_state > 0 (sticky, checked by the VALIDATE macros) *)
  d_pos : N;                (* dl->dl_chunk_data *)
  d_wic : N;                (* dl->write_in_chunk *)
  d_tgt : option nat;       (* dl->tgt_check *)
  d_cur : option nat;       (* dl->range->index.current, None = NULL *)
  d_acc : option bytes;     (* zck->check_chunk_hash *)
  d_fpos : N;               (* file position of zck->fd *)
  d_file : bytes;
  d_tab : list chunk }.

Definition set_err (s : dlstate) : dlstate :=
  mkDl true (d_pos s) (d_wic s) (d_tgt s) (d_cur s) (d_acc s) (d_fpos s) (d_file s) (d_tab s).

Definition set_flag (tab : list chunk) (t : nat) (v : vflag) : list chunk :=
  match nth_error tab t with
  | Some c => firstn t tab ++ mkChunk (c_start c) (c_len c) (c_digest c) v :: skipn (S t) tab
  | None => tab
  end.

(** result of one [dl_write_range] call; the C return value is [dret] *)
Inductive dres := DOk (n : N) | DFail | DFuel.
Definition dret (r : dres) : N := match r with DOk n => n | _ => 0 end.

Section WithHash.
Variable H : bytes -> bytes.        (* the chunk hash of the target *)
Variable doff : N.                  (* zck->data_offset *)
Variable ridx : list rentry.        (* dl->range->index *)

(** [dl_write]: [None] = returned -1 *)
Definition dl_write (s : dlstate) (bs : bytes) : dlstate * bool :=
  if 0 <? d_wic s then
    let wb := N.min (d_wic s) (len bs) in
    let w := firstn (N.to_nat wb) bs in
    let f' := file_write (d_file s) (d_fpos s) w in
    let s1 := mkDl (d_err s) (d_pos s) (d_wic s - wb) (d_tgt s) (d_cur s) (d_acc s)
                   (d_fpos s + wb) f' (d_tab s) in
    match w, d_acc s with
    | [], _ => (set_err s1, false)        (* hash_update(at != NULL, 0) is an error *)
    | _, None => (set_err s1, false)      (* "Hash hasn't been initialized" *)
    | _, Some a =>
        (mkDl (d_err s) (d_pos s + wb) (d_wic s - wb) (d_tgt s) (d_cur s) (Some (a ++ w))
              (d_fpos s + wb) f' (d_tab s), true)
    end
  else (s, true).

(** [set_chunk_valid] (with [validate_chunk] and [zero_chunk]); [false] = returned false *)
Definition chunk_digest_ok (c : chunk) (acc : bytes) : bool :=
  let dsz := length (c_digest c) in
  let dg := if c_len c =? 0 then repeat 0 dsz else firstn dsz (H acc) in
  bytes_eqb dg (c_digest c).

Definition set_chunk_valid (s : dlstate) : dlstate * bool :=
  match d_tgt s with
  | None => (s, true)
  | Some t =>
    match nth_error (d_tab s) t with
    | None => (s, true)
    | Some c =>
      match d_acc s with
      | None =>
          (* hash_finalize fails: set_error, the seek/write of zero_chunk are refused *)
          (mkDl true (d_pos s) (d_wic s) (d_tgt s) (d_cur s) None (d_fpos s) (d_file s)
                (set_flag (d_tab s) t VFailed), false)
      | Some acc =>
          if chunk_digest_ok c acc then
            (mkDl (d_err s) (d_pos s) (d_wic s) None (d_cur s) None (d_fpos s) (d_file s)
                  (set_flag (d_tab s) t VValid), true)
          else
            (mkDl (d_err s) (d_pos s) (d_wic s) (d_tgt s) (d_cur s) None
                  (doff + c_start c + c_len c)
                  (file_write (d_file s) (doff + c_start c) (repeat 0 (N.to_nat (c_len c))))
                  (set_flag (d_tab s) t VFailed), false)
      end
    end
  end.

(** the [for(chk = current; chk; chk = chk->next)] loop *)
Definition entry_matches (tab : list chunk) (pos : N) (e : rentry) : option chunk :=
  if r_start e =? pos then
    match nth_error tab (r_tgt e) with
    | Some c =>
        if negb (is_valid (c_valid c)) && (r_len e =? c_len c) && bytes_eqb (r_digest e) (c_digest c)
        then Some c else None
    | None => None
    end
  else None.

Fixpoint search (tab : list chunk) (pos : N) (es : list rentry) (k : nat)
  : option (nat * rentry * chunk) :=
  match es with
  | [] => None
  | e :: es' =>
      match entry_matches tab pos e with
      | Some c => Some (k, e, c)
      | None => search tab pos es' (S k)
      end
  end.

Definition select (s : dlstate) : dlstate :=
  let k0 := match d_cur s with None => 0%nat | Some k => k end in
  match search (d_tab s) (d_pos s) (skipn k0 ridx) k0 with
  | None => mkDl (d_err s) (d_pos s) (d_wic s) (d_tgt s) (Some k0) (d_acc s) (d_fpos s)
                 (d_file s) (d_tab s)
  | Some (k, e, c) =>
      mkDl (d_err s) (d_pos s) (r_len e) (Some (r_tgt e))
           (if (S k <? length ridx)%nat then Some (S k) else None)
           (Some []) (doff + c_start c) (d_file s) (d_tab s)
  end.

(** the block [if(dl->write_in_chunk == 0) {...}] *)
Definition settle (s : dlstate) : dlstate * bool :=
  let (s1, ok) := set_chunk_valid s in
  if ok then (select s1, true) else (s1, false).

(** [dl_write_range]; the C recursion runs on fuel ([S (S (length bs))] suffices) *)
Fixpoint dlw_f (fuel : nat) (s : dlstate) (bs : bytes) : dlstate * dres :=
  match fuel with
  | O => (s, DFuel)
  | S f =>
    if d_err s then (s, DFail) else
    match ridx, d_tab s with
    | [], _ | _, [] => (set_err s, DFail)
    | _, _ =>
      let wb := if 0 <? d_wic s then N.min (d_wic s) (len bs) else 0 in
      let (s1, ok) := dl_write s bs in
      if negb ok then (s1, DFail) else
      let (s2, ok2) := if d_wic s1 =? 0 then settle s1 else (s1, true) in
      if negb ok2 then (s2, DFail) else
      if (0 <? d_wic s2) && (wb <? len bs) then
        match dlw_f f s2 (skipn (N.to_nat wb) bs) with
        | (s3, DOk wb2) => if wb2 =? 0 then (s3, DFail) else (s3, DOk (wb + wb2))
        | r => r
        end
      else (s2, DOk wb)
    end
  end.

Definition dlw (s : dlstate) (bs : bytes) : dlstate * dres :=
  dlw_f (S (S (length bs))) s bs.

(** shape of the streaming law T5.1 (proved in DlProofs.v, used by MpStream.v) *)
Definition dcomb (n : N) (r : dres) : dres :=
  match r with DOk m => DOk (n + m) | x => x end.
Definition dlw_app_law : Prop := forall s a b s' n, a <> [] -> b <> [] ->
  dlw s a = (s', DOk n) ->
  dlw s (a ++ b) = (let (s'', r) := dlw s' b in (s'', dcomb n r)).

End WithHash.
