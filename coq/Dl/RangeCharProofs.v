(** Proofs about the range-string model (Dl/RangeChar.v). *)
From ZV Require Import Base.Bytes Gen.GenConsts Dl.Range Dl.RangeChar.
Local Open Scope N_scope.
Ltac Zify.zify_post_hook ::= Z.to_euclidean_division_equations.

(** * take, cstr *)

Lemma take_all : forall l n, len l <= n -> take n l = l.
Proof.
  induction l as [|x r IH]; intros n H; [reflexivity|].
  rewrite len_cons in H. cbn [take].
  replace (n =? 0) with false by (symmetry; apply N.eqb_neq; lia).
  rewrite IH by lia. reflexivity.
Qed.

Lemma take_app_exact : forall a b, take (len a) (a ++ b) = a.
Proof.
  induction a as [|x r IH]; intros b.
  - destruct b; reflexivity.
  - rewrite len_cons. cbn [app take].
    replace (1 + len r =? 0) with false by (symmetry; apply N.eqb_neq; lia).
    replace (1 + len r - 1) with (len r) by lia. rewrite IH. reflexivity.
Qed.

Lemma cstr_app_nul : forall l, Forall (fun b => b <> 0) l -> cstr (l ++ [0]) = l.
Proof.
  induction l as [|x r IH]; intros H; [reflexivity|].
  pose proof (Forall_inv H) as Hx. pose proof (Forall_inv_tail H) as Hr. cbn beta in Hx.
  cbn [app cstr]. replace (x =? 0) with false by (symmetry; apply N.eqb_neq; exact Hx).
  rewrite IH by exact Hr. reflexivity.
Qed.

(** * Digits *)

Definition is_digit (b : byte) : Prop := 48 <= b /\ b <= 57.

Lemma show_fuel_digits : forall f n acc, Forall is_digit acc -> Forall is_digit (show_fuel f n acc).
Proof.
  induction f as [|f IH]; intros n acc H; [exact H|].
  cbn [show_fuel].
  assert (Hd : Forall is_digit ((48 + n mod 10) :: acc)).
  { constructor; [|exact H]. unfold is_digit. pose proof (N.mod_lt n 10 ltac:(discriminate)). lia. }
  destruct (n / 10 =? 0); [exact Hd|apply IH; exact Hd].
Qed.

Lemma show_fuel_len : forall f n acc, len (show_fuel f n acc) <= N.of_nat f + len acc.
Proof.
  induction f as [|f IH]; intros n acc; [cbn [show_fuel]; lia|].
  cbn [show_fuel]. destruct (n / 10 =? 0).
  - rewrite len_cons. lia.
  - specialize (IH (n / 10) ((48 + n mod 10) :: acc)). rewrite len_cons in IH. lia.
Qed.

Lemma show_N_digits n : Forall is_digit (show_N n).
Proof. apply show_fuel_digits. constructor. Qed.

Lemma show_N_len n : len (show_N n) <= 20.
Proof. unfold show_N. pose proof (show_fuel_len SHOW_DIGITS (u64 n) []). rewrite len_nil in H. exact H. Qed.

Lemma digits_nonzero l : Forall is_digit l -> Forall (fun b => b <> 0) l.
Proof. apply Forall_impl. unfold is_digit. intros; lia. Qed.

Lemma show_range_nonzero p : Forall (fun b => b <> 0) (show_range p).
Proof.
  unfold show_range. apply Forall_app. split; [apply digits_nonzero, show_N_digits|].
  constructor; [discriminate|apply digits_nonzero, show_N_digits].
Qed.

Lemma join_nonzero : forall l, Forall (Forall (fun b => b <> 0)) l -> Forall (fun b => b <> 0) (join_comma l).
Proof.
  induction l as [|x r IH]; intros H; [constructor|].
  pose proof (Forall_inv H) as Hx. pose proof (Forall_inv_tail H) as Hr.
  destruct r as [|y r']; [exact Hx|].
  change (join_comma (x :: y :: r')) with (x ++ CH_COMMA :: join_comma (y :: r')).
  apply Forall_app. split; [exact Hx|]. constructor; [discriminate|apply IH; exact Hr].
Qed.

Lemma spec_string_nonzero l : Forall (fun b => b <> 0) (spec_range_string l).
Proof.
  unfold spec_range_string. apply join_nonzero. apply Forall_forall. intros x Hx.
  apply in_map_iff in Hx. destruct Hx as (p & <- & _). apply show_range_nonzero.
Qed.

(** The decimal rendering denotes the number. *)
Definition dv (v : N) (l : bytes) : N := fold_left (fun v d => 10 * v + (d - 48)) l v.

Lemma show_fuel_acc : forall f n acc, show_fuel f n acc = show_fuel f n [] ++ acc.
Proof.
  induction f as [|f IH]; intros n acc; [reflexivity|].
  cbn [show_fuel]. destruct (n / 10 =? 0); [reflexivity|].
  rewrite (IH _ (_ :: acc)), (IH _ [_]).
  rewrite <- app_assoc. reflexivity.
Qed.

Lemma show_fuel_value : forall f n, n < 10 ^ N.of_nat f -> (0 < f)%nat ->
  dec_value (show_fuel f n []) = n.
Proof.
  induction f as [|f IH]; intros n Hn Hf; [lia|].
  cbn [show_fuel]. destruct (n / 10 =? 0) eqn:E.
  - apply N.eqb_eq in E. unfold dec_value. cbn [fold_left]. lia.
  - apply N.eqb_neq in E. rewrite show_fuel_acc. unfold dec_value. rewrite fold_left_app.
    change (fold_left (fun v d : N => 10 * v + (d - 48)) (show_fuel f (n / 10) []) 0)
      with (dec_value (show_fuel f (n / 10) [])).
    assert (Hf' : (0 < f)%nat).
    { destruct f; [|lia]. cbn in Hn. lia. }
    rewrite IH; [cbn [fold_left]; lia| |exact Hf'].
    rewrite Nat2N.inj_succ, N.pow_succ_r' in Hn. lia.
Qed.

Theorem show_N_value n : dec_value (show_N n) = u64 n.
Proof.
  unfold show_N. apply show_fuel_value; [|unfold SHOW_DIGITS; lia].
  pose proof (u64_lt n). unfold two64 in H.
  eapply N.lt_trans; [exact H|]. vm_compute. reflexivity.
Qed.

(** * The text of the items *)

Lemma fmt_item_len p : 1 <= len (fmt_item p) /\ len (fmt_item p) <= 42.
Proof.
  unfold fmt_item, show_range. rewrite !len_app, !len_cons, len_nil.
  pose proof (show_N_len (fst p)). pose proof (show_N_len (snd p)). lia.
Qed.

Lemma text_len_concat : forall l, text_len l = len (concat (map fmt_item l)).
Proof.
  induction l as [|p r IH]; [reflexivity|].
  cbn [text_len map concat]. rewrite len_app, IH. reflexivity.
Qed.

Lemma text_len_bound : forall l, text_len l <= 42 * N.of_nat (length l).
Proof.
  induction l as [|p r IH]; [cbn; lia|].
  cbn [text_len length]. pose proof (fmt_item_len p). lia.
Qed.

Lemma concat_items_join : forall l, l <> [] ->
  concat (map fmt_item l) = spec_range_string l ++ [CH_COMMA].
Proof.
  induction l as [|p r IH]; intros H; [congruence|].
  destruct r as [|q r'].
  - cbn [map concat]. unfold spec_range_string. cbn [map join_comma]. rewrite app_nil_r. reflexivity.
  - change (concat (map fmt_item (p :: q :: r'))) with (fmt_item p ++ concat (map fmt_item (q :: r'))).
    rewrite IH by discriminate. unfold spec_range_string.
    change (join_comma (map show_range (p :: q :: r')))
      with (show_range p ++ CH_COMMA :: join_comma (map show_range (q :: r'))).
    unfold fmt_item. rewrite <- !app_assoc. reflexivity.
Qed.

(** * Buffer growth: the sizes form the fixed sequence BUF_SIZE, grow BUF_SIZE, ... *)

Definition grow (s : N) : N := s * RANGE_GROW_NUM / RANGE_GROW_DEN.
Fixpoint grow_iter (k : nat) (s : N) : N := match k with O => s | S k' => grow (grow_iter k' s) end.

Lemma grow_ge s : s <= grow s.
Proof. unfold grow, RANGE_GROW_NUM, RANGE_GROW_DEN. lia. Qed.

Lemma grow_iter_mono : forall k k' s, (k <= k')%nat -> grow_iter k s <= grow_iter k' s.
Proof.
  intros k k' s H. induction H as [|m H IH]; [lia|].
  cbn [grow_iter]. pose proof (grow_ge (grow_iter m s)). lia.
Qed.

Lemma grow_fits s : s <= RC_TEXT_MAX -> grow s <= INT_MAX.
Proof. unfold grow, RC_TEXT_MAX, RANGE_GROW_NUM, RANGE_GROW_DEN, INT_MAX. lia. Qed.

Lemma growths_suffice : RC_TEXT_MAX < grow_iter RC_GROWTHS BUF_SIZE.
Proof. vm_compute. reflexivity. Qed.

Lemma buf_size_pos : 0 < BUF_SIZE.
Proof. vm_compute. reflexivity. Qed.

Lemma rev_append_app (a b o : bytes) : rev_append (a ++ b) o = rev_append b (rev_append a o).
Proof. rewrite !rev_append_rev, rev_app_distr, app_assoc. reflexivity. Qed.

Lemma len_rev_append (a o : bytes) : len (rev_append a o) = len a + len o.
Proof. rewrite rev_append_rev, len_app. unfold len. rewrite rev_length. reflexivity. Qed.

(** * The loop *)

Lemma rc_loop_spec : forall fuel ris size loc out_rev k,
  size = grow_iter k BUF_SIZE -> (k <= RC_GROWTHS)%nat ->
  (length ris + (RC_GROWTHS - k) <= fuel)%nat ->
  loc = len out_rev -> loc < size ->
  loc + text_len ris <= RC_TEXT_MAX ->
  rc_loop fuel ris size loc out_rev =
  rc_finish (loc + text_len ris) (rev_append (concat (map fmt_item ris)) out_rev).
Proof.
  induction fuel as [|f IH]; intros ris size loc out_rev k Hsize Hk Hfuel Hloc Hlt Hmax.
  - destruct ris as [|ri rest]; [|cbn [length] in Hfuel; lia].
    cbn [rc_loop text_len map concat rev_append]. rewrite N.add_0_r. reflexivity.
  - destruct ris as [|ri rest].
    { cbn [rc_loop text_len map concat rev_append]. rewrite N.add_0_r. reflexivity. }
    cbn [rc_loop]. unfold snprintf.
    set (txt := fmt_item ri). cbn [text_len] in Hmax. fold txt in Hmax.
    destruct (size - loc <=? len txt) eqn:E.
    + (* grow and format the same item again *)
      apply N.leb_le in E. fold (grow size).
      assert (Hs : size <= RC_TEXT_MAX) by lia.
      replace (INT_MAX <? grow size) with false
        by (symmetry; apply N.ltb_ge; apply grow_fits; exact Hs).
      assert (Hk' : (k < RC_GROWTHS)%nat).
      { destruct (Nat.eq_dec k RC_GROWTHS) as [->|]; [|lia].
        pose proof growths_suffice. lia. }
      rewrite (IH (ri :: rest) (grow size) loc out_rev (S k)); try assumption; try lia.
      * reflexivity.
      * rewrite Hsize. reflexivity.
      * pose proof (grow_ge size). lia.
    + (* the item fits: keep it *)
      apply N.leb_gt in E.
      replace (size - loc =? 0) with false by (symmetry; apply N.eqb_neq; lia).
      rewrite (take_all txt (size - loc - 1)) by lia.
      rewrite take_app_exact.
      rewrite (IH rest size (loc + len txt) (rev_append txt out_rev) k); try assumption; try lia.
      * cbn [text_len map concat]. fold txt. rewrite rev_append_app, N.add_assoc. reflexivity.
      * cbn [length] in Hfuel. lia.
      * rewrite len_rev_append. lia.
Qed.

Lemma rc_finish_string loc o : rc_finish loc o = RcString (cstr (rev (0 :: tl o))).
Proof.
  unfold rc_finish. rewrite rev_append_rev, app_nil_r. destruct (loc =? 0) eqn:E; [reflexivity|].
  rewrite E. reflexivity.
Qed.

(** T10.6 *)
Theorem range_char_correct ris :
  ris <> [] -> text_len ris <= RC_TEXT_MAX ->
  range_char ris = RcString (spec_range_string ris).
Proof.
  intros Hne Hmax. unfold range_char.
  rewrite (rc_loop_spec _ ris BUF_SIZE 0 [] 0%nat); try reflexivity; try lia.
  rewrite rc_finish_string, rev_append_rev, app_nil_r, concat_items_join by exact Hne.
    rewrite rev_app_distr. cbn [rev app tl]. rewrite rev_involutive.
    rewrite cstr_app_nul by apply spec_string_nonzero. reflexivity.
Qed.

Theorem range_char_empty : range_char [] = RcString [].
Proof. vm_compute. reflexivity. Qed.

(** Memory safety and termination for every list the [int] buffer size allows. *)
Theorem range_char_safe ris :
  text_len ris <= RC_TEXT_MAX -> exists s, range_char ris = RcString s.
Proof.
  intros H. destruct ris as [|p r].
  - exists []. apply range_char_empty.
  - eexists. apply range_char_correct; [discriminate|exact H].
Qed.

(** The same in terms of the number of ranges. *)
Theorem range_char_correct_count ris :
  ris <> [] -> N.of_nat (length ris) <= RC_TEXT_MAX / 42 ->
  range_char ris = RcString (spec_range_string ris).
Proof.
  intros Hne Hc. apply range_char_correct; [exact Hne|].
  pose proof (text_len_bound ris). unfold RC_TEXT_MAX, INT_MAX, RANGE_GROW_NUM, RANGE_GROW_DEN in *. lia.
Qed.

(** zck_get_range *)
Theorem get_range_correct s e : get_range s e = RcString (show_range (s, e)).
Proof.
  unfold get_range. rewrite range_char_correct; [reflexivity|discriminate|].
  cbn [text_len]. pose proof (fmt_item_len (s, e)).
  unfold RC_TEXT_MAX, INT_MAX, RANGE_GROW_NUM, RANGE_GROW_DEN. lia.
Qed.
