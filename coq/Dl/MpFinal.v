(** End-to-end statements for the multipart layer instantiated with the literal matcher:
    the theorems of MpPlace.v with their two matcher premises discharged by
    LiteralProofs.v, the header callback on a well-formed Content-Type line, the whole
    transfer (header line, then the body in any fragmentation), and a concrete instance.
    No hypotheses are left: only [H], [doff], [ridx] (and the data) are quantified. *)
From ZV Require Import Base.Bytes Dl.DlWrite Dl.Multipart Dl.FileLemmas Dl.DlProofs Dl.MpStream
  Dl.MpSafe Dl.DlInv Dl.DlPlace Dl.C05Final Dl.LiteralMatcher Dl.MpGrammar Dl.LiteralProofs
  Dl.MpPlace.
Local Open Scope N_scope.

(** * 1. MpPlace.v with the matcher facts plugged in *)
Theorem mp_prefix_lit : forall H doff ridx tab0 datas B parts fpos file p q,
  req_ok doff ridx tab0 -> datas_ok H ridx tab0 datas -> wf_body B parts datas ->
  p <> [] -> p ++ q = mp_body B parts ->
  exists x', mpx H doff ridx lit_comp lit_exec (x_init B fpos file tab0) p = (x', MOk) /\
    d_err (x_dl x') = false /\
    (q = [] -> x_dl x' = fst (dlw H doff ridx (init fpos file tab0) (concat datas))).
Proof.
  intros H doff ridx. exact (mp_prefix H doff ridx lit_exec_next next_match_wf).
Qed.

Theorem mp_place_any_partition_lit : forall H doff ridx tab0 datas B parts fpos file frags,
  req_ok doff ridx tab0 -> datas_ok H ridx tab0 datas -> wf_body B parts datas ->
  Forall (fun fr => fr <> []) frags -> concat frags = mp_body B parts ->
  exists x' rets,
    feed_frags H doff ridx lit_comp lit_exec (x_init B fpos file tab0) frags = (x', rets, true) /\
    x_dl x' = fst (dlw H doff ridx (init fpos file tab0) (concat datas)).
Proof.
  intros H doff ridx. exact (mp_place_any_partition H doff ridx lit_exec_next next_match_wf).
Qed.

Theorem mp_place_lit : forall H doff ridx tab0 datas B parts fpos file frags x' rets,
  req_ok doff ridx tab0 -> datas_ok H ridx tab0 datas -> wf_body B parts datas ->
  Forall (fun fr => fr <> []) frags -> concat frags = mp_body B parts ->
  feed_frags H doff ridx lit_comp lit_exec (x_init B fpos file tab0) frags = (x', rets, true) ->
  (forall k e d c, nth_error ridx k = Some e -> nth_error datas k = Some d ->
      nth_error tab0 (r_tgt e) = Some c ->
      (exists c', nth_error (d_tab (x_dl x')) (r_tgt e) = Some c' /\ c_valid c' = VValid) /\
      fread (d_file (x_dl x')) (doff + c_start c) (length d) = d) /\
  (forall t, ~ In t (map r_tgt ridx) -> nth_error (d_tab (x_dl x')) t = nth_error tab0 t).
Proof.
  intros H doff ridx. exact (mp_place H doff ridx lit_exec_next next_match_wf).
Qed.

(** * 2. The header callback on a well-formed Content-Type line *)
Lemma nth_error_at {A} (s : list A) n x r : skipn n s = x :: r -> nth_error s n = Some x.
Proof.
  revert s. induction n as [|n IH]; intros s E.
  - rewrite skipn_O in E. subst s. reflexivity.
  - destruct s as [|y t]; [rewrite skipn_nil in E; discriminate|].
    rewrite skipn_cons in E. cbn [nth_error]. apply IH. exact E.
Qed.

Lemma take_exact_len (s d r : list N) (so : nat) :
  skipn so s = d ++ r -> take_exact s (N.of_nat so) (N.of_nat (length d)) = Some d.
Proof.
  intros E. unfold take_exact. cbv zeta. unfold bytes, byte in *.
  rewrite !Nat2N.id, E, firstn_exact by reflexivity.
  unfold len. rewrite N.eqb_refl. reflexivity.
Qed.

Lemma until_nul_nz (l : list N) : Forall (fun c => c <> 0) l -> until_nul l = l.
Proof.
  induction 1 as [|c l Hc Hl IH]; [reflexivity|].
  cbn [until_nul]. replace (c =? 0) with false by (symmetry; apply N.eqb_neq; exact Hc).
  rewrite IH. reflexivity.
Qed.

Ltac nb := unfold bytes, byte in *.

Theorem header_cb_lit : forall x pre B quoted,
  d_err (x_dl x) = false ->
  Forall (fun c => c <> 0) pre ->
  (forall k, (k < length pre)%nat -> prefix_ic kw_boundary (skipn k (pre ++ kw_boundary)) = false) ->
  Forall (fun c => c <> 0 /\ c <> 13) B -> B <> [] ->
  (quoted = false -> hd 0 B <> 32 /\ hd 0 B <> 34) ->
  len (ct_line pre B quoted) < two64 ->
  header_cb lit_comp lit_exec x (ct_line pre B quoted) =
    mkX (x_dl x) (mkMp false 0 []) (Some B) (x_rx x).
Proof.
  intros x pre B quoted Herr Hpre Hfree HB Hne Hq Hlen.
  assert (HB0 : Forall (fun c => c <> 0) B).
  { eapply Forall_impl; [|exact HB]. intros c [Hc _]. exact Hc. }
  pose proof (hdr_match_wf pre B quoted Hfree HB Hne (fun E => proj1 (Hq E))) as Hm.
  cbv zeta in Hm.
  unfold bytes, byte in *.
  remember (if quoted then [34] ++ B ++ [34] else B) as v eqn:Ev.
  remember (length pre + 9)%nat as o eqn:Eo.
  assert (Hline : ct_line pre B quoted = pre ++ kw_boundary ++ [61] ++ v ++ crlf).
  { unfold ct_line. rewrite Ev. reflexivity. }
  assert (Hv0 : Forall (fun c => c <> 0) v).
  { rewrite Ev. destruct quoted; [|exact HB0].
    apply Forall_app. split; [repeat constructor; discriminate|].
    apply Forall_app. split; [exact HB0|repeat constructor; discriminate]. }
  assert (Hnz : Forall (fun c => c <> 0) (ct_line pre B quoted)).
  { rewrite Hline. apply Forall_app. split; [exact Hpre|].
    apply Forall_app. split; [unfold kw_boundary; repeat constructor; discriminate|].
    apply Forall_app. split; [repeat constructor; discriminate|].
    apply Forall_app. split; [exact Hv0|unfold crlf; repeat constructor; discriminate]. }
  (* the buffer, cut at the start of the value *)
  assert (Hbuf : skipn o (ct_line pre B quoted ++ [0]) = v ++ crlf ++ [0]).
  { rewrite Hline. rewrite <- !app_assoc. rewrite Eo, skipn_add, skipn_exact by reflexivity.
    reflexivity. }
  assert (Hvl : N.of_nat (length v) < two64).
  { eapply N.le_lt_trans; [|exact Hlen]. rewrite Hline. unfold len.
    rewrite !app_length. lia. }
  pose proof (cstr_nz _ [] Hnz) as Hc.
  pose proof (lit_exec_hdr (ct_line pre B quoted)) as Hx. rewrite Hm in Hx.
  unfold header_cb, get_boundary. rewrite Herr.
  change (negb (lit_comp pat_hdr)) with false. cbv iota zeta.
  unfold bytes, byte in *.
  rewrite Hc, Hx.
  assert (Hbl : u64 (N.of_nat (o + length v) + two64 - N.of_nat o) = N.of_nat (length v)).
  { replace (N.of_nat (o + length v) + two64 - N.of_nat o) with (N.of_nat (length v) + 1 * two64) by lia.
    unfold u64. rewrite N.mod_add by discriminate. apply N.mod_small. exact Hvl. }
  rewrite Hbl, Nat2N.id.
  destruct quoted.
  - (* quoted: strip the two quotes *)
    subst v. cbn [app] in Hbuf. rewrite <- app_assoc in Hbuf. cbn [app] in Hbuf.
    assert (HlB : (0 < length B)%nat) by (destruct B; [congruence|cbn [length]; lia]).
    assert (Hb1 : skipn (o + 1) (ct_line pre B true ++ [0]) = B ++ 34 :: crlf ++ [0]).
    { nb. rewrite skipn_add, Hbuf. reflexivity. }
    assert (Hb2 : skipn (o + (1 + length B)) (ct_line pre B true ++ [0]) = 34 :: crlf ++ [0]).
    { nb. rewrite skipn_add, Hbuf.
      change (34 :: B ++ 34 :: crlf ++ [0]) with ((34 :: B) ++ 34 :: crlf ++ [0]).
      apply skipn_exact. reflexivity. }
    nb. cbn [app length]. rewrite app_length. cbn [length].
    rewrite (nth_error_at _ _ _ _ Hbuf), N.eqb_refl.
    assert (E2 : 2 <? N.of_nat (S (length B + 1)) = true) by (apply N.ltb_lt; lia).
    rewrite E2. cbn [andb].
    assert (E3 : N.to_nat (N.of_nat o + N.of_nat (S (length B + 1)) - 1) = (o + (1 + length B))%nat) by lia.
    rewrite E3, (nth_error_at _ _ _ _ Hb2), N.eqb_refl.
    assert (E4 : N.of_nat o + 1 = N.of_nat (o + 1)) by lia.
    assert (E5 : N.of_nat (S (length B + 1)) - 2 = N.of_nat (length B)) by lia.
    rewrite E4, E5, (take_exact_len _ B (34 :: crlf ++ [0]) (o + 1) Hb1).
    rewrite until_nul_nz by exact HB0. reflexivity.
  - (* unquoted *)
    subst v. destruct (Hq eq_refl) as [_ H34].
    assert (Hhd : exists b t, B = b :: t /\ b <> 34).
    { destruct B as [|b t]; [congruence|]. exists b, t. split; [reflexivity|exact H34]. }
    destruct Hhd as (b & t & EB & Hb).
    assert (Hb0 : skipn o (ct_line pre B false ++ [0]) = b :: t ++ crlf ++ [0]).
    { nb. rewrite Hbuf, EB. reflexivity. }
    nb. rewrite (nth_error_at _ _ _ _ Hb0).
    assert (E1 : b =? 34 = false) by (apply N.eqb_neq; exact Hb).
    rewrite E1. cbn [andb].
    rewrite (take_exact_len _ B (crlf ++ [0]) o Hbuf).
    rewrite until_nul_nz by exact HB0. reflexivity.
Qed.

(** * 3. The whole transfer *)
Definition x_start (fpos : N) (file : bytes) (tab0 : list chunk) : xstate :=
  mkX (init fpos file tab0) (mkMp false 0 []) None None.

Theorem transfer_lit : forall H doff ridx tab0 datas B parts fpos file pre quoted frags,
  req_ok doff ridx tab0 -> datas_ok H ridx tab0 datas -> wf_body B parts datas ->
  Forall (fun c => c <> 0) pre ->
  (forall k, (k < length pre)%nat -> prefix_ic kw_boundary (skipn k (pre ++ kw_boundary)) = false) ->
  B <> [] -> (quoted = false -> hd 0 B <> 32 /\ hd 0 B <> 34) -> len (ct_line pre B quoted) < two64 ->
  Forall (fun fr => fr <> []) frags -> concat frags = mp_body B parts ->
  exists x' rets,
    feed_frags H doff ridx lit_comp lit_exec
      (header_cb lit_comp lit_exec (x_start fpos file tab0) (ct_line pre B quoted)) frags = (x', rets, true) /\
    (forall k e d c, nth_error ridx k = Some e -> nth_error datas k = Some d ->
        nth_error tab0 (r_tgt e) = Some c ->
        (exists c', nth_error (d_tab (x_dl x')) (r_tgt e) = Some c' /\ c_valid c' = VValid) /\
        fread (d_file (x_dl x')) (doff + c_start c) (length d) = d) /\
    (forall t, ~ In t (map r_tgt ridx) -> nth_error (d_tab (x_dl x')) t = nth_error tab0 t).
Proof.
  intros H doff ridx tab0 datas B parts fpos file pre quoted frags
         Hreq Hd Hwf Hpre Hfree Hne Hq Hlen Hfr Hcat.
  assert (HB : Forall (fun c => c <> 0 /\ c <> 13) B).
  { destruct Hwf as (HB & _). eapply Forall_impl; [|exact HB].
    intros c (H0 & H13 & _). split; assumption. }
  rewrite (header_cb_lit (x_start fpos file tab0) pre B quoted eq_refl Hpre Hfree HB Hne Hq Hlen).
  change (mkX (x_dl (x_start fpos file tab0)) (mkMp false 0 []) (Some B) (x_rx (x_start fpos file tab0)))
    with (x_init B fpos file tab0).
  destruct (mp_place_any_partition_lit H doff ridx tab0 datas B parts fpos file frags
              Hreq Hd Hwf Hfr Hcat) as (x' & rets & Hfeed & _).
  exists x', rets. split; [exact Hfeed|].
  exact (mp_place_lit H doff ridx tab0 datas B parts fpos file frags x' rets
           Hreq Hd Hwf Hfr Hcat Hfeed).
Qed.

(** * 4. Non-vacuity: a concrete instance
    Boundary "xZ"; three chunks, chunk 1 already valid; the request asks for chunks 0 and 2.
    Part 1 carries an extra header line before its Content-Range line; part 2 spells the
    keyword in upper case, uses two spaces wherever spaces are allowed, has an extra line
    after the Content-Range line, and its payload holds CR, LF and NUL. *)

(** [kw_free] and the premise on [pre] from boolean checks over all positions *)
Lemma prefix_ic_nil p : p <> [] -> prefix_ic p [] = false.
Proof. destruct p; [congruence|reflexivity]. Qed.

Lemma kw_free_check (s : bytes) :
  forallb (fun k => negb (prefix_ic kw_cr (skipn k s))) (seq 0 (S (length s))) = true -> kw_free s.
Proof.
  intros Hc k. rewrite forallb_forall in Hc.
  destruct (le_lt_dec k (length s)) as [Hk|Hk].
  - apply negb_true_iff. apply Hc. apply in_seq. lia.
  - rewrite skipn_all2 by lia. apply prefix_ic_nil. discriminate.
Qed.

Lemma pre_free_check (pre : bytes) :
  forallb (fun k => negb (prefix_ic kw_boundary (skipn k (pre ++ kw_boundary)))) (seq 0 (length pre)) = true ->
  forall k, (k < length pre)%nat -> prefix_ic kw_boundary (skipn k (pre ++ kw_boundary)) = false.
Proof.
  intros Hc k Hk. rewrite forallb_forall in Hc.
  apply negb_true_iff. apply Hc. apply in_seq. lia.
Qed.

Module FinalExample.
Import String.
Local Open Scope N_scope.

Definition toyH (bs : bytes) : bytes := [N.of_nat (List.length bs); fold_left N.add bs 0 mod 256].
Definition B : bytes := [120; 90].                       (* "xZ" *)
Definition dA : bytes := [1; 2; 3].
Definition dM : bytes := [10; 20].
Definition dC : bytes := [7; 13; 10; 0].
Definition tab : list chunk :=
  [mkChunk 0 3 (toyH dA) VUnknown; mkChunk 3 2 (toyH dM) VValid; mkChunk 5 4 (toyH dC) VFailed].
Definition ridx : list rentry := [mkRentry 0 3 (toyH dA) 0; mkRentry 3 4 (toyH dC) 2].
Definition datas : list bytes := [dA; dC].
Definition doff : N := 2.
(* two bytes of header, chunk 0 missing, chunk 1 present, chunk 2 beyond the end of the file *)
Definition file : bytes := [255; 254; 0; 0; 0; 10; 20].

Definition part1 : mpart :=
  mkPart [] false
         [bytes_of_string "Content-Type: a/b"]
         (bytes_of_string "Content-Range:") 1 (bytes_of_string "bytes") 1
         (bytes_of_string "5") 0 0 (bytes_of_string "7") 0 (bytes_of_string "20")
         [] dA.
Definition part2 : mpart :=
  mkPart [] true
         []
         (bytes_of_string "CONTENT-RANGE:") 2 (bytes_of_string "Bytes") 2
         (bytes_of_string "10") 2 2 (bytes_of_string "13") 2 (bytes_of_string "20")
         [bytes_of_string "X-Extra: 1"] dC.
Definition parts : list mpart := [part1; part2].
Definition pre : bytes := bytes_of_string "Content-Type: multipart/byteranges; ".
Definition body : bytes := mp_body B parts.

Ltac plain := unfold plain_byte; repeat split; discriminate.
Ltac all_plain := repeat (constructor; [plain|]); constructor.

Example ex_part1 : part_ok part1.
Proof.
  unfold part_ok, part_hdr_ok. repeat split; try reflexivity; try discriminate.
  - constructor.
  - repeat constructor; try discriminate; vm_compute; all_plain.
  - constructor.
  - vm_compute. repeat constructor.
  - vm_compute. repeat constructor.
  - vm_compute. repeat constructor.
  - apply kw_free_check. vm_compute. reflexivity.
Qed.

Example ex_part2 : part_ok part2.
Proof.
  unfold part_ok, part_hdr_ok. repeat split; try reflexivity; try discriminate.
  - constructor.
  - constructor.
  - repeat constructor; try discriminate; vm_compute; all_plain.
  - vm_compute. repeat constructor.
  - vm_compute. repeat constructor.
  - vm_compute. repeat constructor.
  - apply kw_free_check. vm_compute. reflexivity.
Qed.

Example ex_wf : wf_body B parts datas.
Proof.
  unfold wf_body. split; [|split; [|split]].
  - unfold boundary_ok, B. all_plain.
  - constructor; [exact ex_part1|constructor; [exact ex_part2|constructor]].
  - discriminate.
  - reflexivity.
Qed.

Example ex_req : req_ok doff ridx tab.
Proof.
  unfold req_ok. split; [|split; [|split; [|split]]].
  - cbn. repeat constructor; cbn; intuition discriminate.
  - cbn. repeat split.
  - intros t1 t2 c1 c2 x Hne H1 H2 [Ha Hb] [Hc Hd].
    repeat (destruct t1 as [|t1]; cbn [nth_error tab] in H1; try discriminate);
    repeat (destruct t2 as [|t2]; cbn [nth_error tab] in H2; try discriminate);
    try congruence; inversion H1; inversion H2; subst; unfold doff in *;
    cbn [c_start c_len] in *; lia.
  - discriminate.
  - intros e [<-|[<-|[]]]; eexists; (split; [reflexivity|]); cbn;
      repeat split; try discriminate; lia.
Qed.

Example ex_datas : datas_ok toyH ridx tab datas.
Proof.
  unfold datas_ok, ridx, datas.
  repeat constructor; eexists; (split; [reflexivity|]); vm_compute; reflexivity.
Qed.

Example ex_pre : forall k, (k < List.length pre)%nat ->
  prefix_ic kw_boundary (skipn k (pre ++ kw_boundary)) = false.
Proof. apply pre_free_check. vm_compute. reflexivity. Qed.

(** what a run leaves behind: the file, the flags, the callback returns, the verdict *)
Definition outcome (r : xstate * list bool * bool) :=
  let '(x, rets, ok) := r in
  (d_file (x_dl x), map c_valid (d_tab (x_dl x)), forallb (fun b => b) rets, ok, d_err (x_dl x)).

Definition run (quoted : bool) (frags : list bytes) :=
  outcome (feed_frags toyH doff ridx lit_comp lit_exec
             (header_cb lit_comp lit_exec (x_start 0 file tab) (ct_line pre B quoted)) frags).

Definition expected :=
  ([255; 254; 1; 2; 3; 10; 20; 7; 13; 10; 0], [VValid; VValid; VValid], true, true, false).

(** (a) the whole body in one fragment, (b) one byte per fragment, (c) an uneven split,
    (d) the quoted form of the header line *)
Example ex_run :
  run false [body] = expected /\
  run false (map (fun c => [c]) body) = expected /\
  run false [firstn 30 body; firstn 40 (skipn 30 body); skipn 70 body] = expected /\
  run true (map (fun c => [c]) body) = expected.
Proof. vm_compute. repeat split; reflexivity. Qed.

(** the same run as an instance of the theorem *)
Example ex_transfer : forall quoted frags,
  Forall (fun fr => fr <> []) frags -> List.concat frags = body ->
  exists x' rets,
    feed_frags toyH doff ridx lit_comp lit_exec
      (header_cb lit_comp lit_exec (x_start 0 file tab) (ct_line pre B quoted)) frags = (x', rets, true) /\
    fread (d_file (x_dl x')) (doff + 0) 3 = dA /\ fread (d_file (x_dl x')) (doff + 5) 4 = dC /\
    map c_valid (d_tab (x_dl x')) = [VValid; VValid; VValid].
Proof.
  intros quoted frags Hne Hcat.
  destruct (transfer_lit toyH doff ridx tab datas B parts 0 file pre quoted frags
              ex_req ex_datas ex_wf) as (x' & rets & Hfeed & Hp & Ho); try assumption.
  - unfold pre. vm_compute. repeat (constructor; [discriminate|]). constructor.
  - exact ex_pre.
  - discriminate.
  - intros _. split; discriminate.
  - destruct quoted; vm_compute; reflexivity.
  - exists x', rets. split; [exact Hfeed|].
    destruct (Hp 0%nat _ dA (mkChunk 0 3 (toyH dA) VUnknown) eq_refl eq_refl eq_refl)
      as [(c0 & Hc0 & Hv0) Hr0].
    destruct (Hp 1%nat _ dC (mkChunk 5 4 (toyH dC) VFailed) eq_refl eq_refl eq_refl)
      as [(c2 & Hc2 & Hv2) Hr2].
    split; [exact Hr0|]. split; [exact Hr2|].
    pose proof (Ho 1%nat) as H1. cbn [map ridx r_tgt In] in H1.
    assert (Hn : ~ (0%nat = 1%nat \/ 2%nat = 1%nat \/ False)) by (intros [E|[E|[]]]; discriminate).
    specialize (H1 Hn). cbn [r_tgt] in Hc0, Hc2. cbn [tab nth_error] in H1.
    pose proof (Ho 3%nat) as H3. cbn [map ridx r_tgt In] in H3.
    assert (Hn3 : ~ (0%nat = 3%nat \/ 2%nat = 3%nat \/ False)) by (intros [E|[E|[]]]; discriminate).
    specialize (H3 Hn3). cbn [tab nth_error] in H3.
    destruct (d_tab (x_dl x')) as [|a [|b [|c [|d l]]]]; cbn [nth_error] in *; try discriminate.
    inversion Hc0; inversion Hc2; inversion H1; subst. cbn [map c_valid].
    rewrite Hv0, Hv2. reflexivity.
Qed.
End FinalExample.

Print Assumptions mp_place_any_partition_lit.
Print Assumptions header_cb_lit.
Print Assumptions transfer_lit.
