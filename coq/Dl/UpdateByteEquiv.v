(** Equivalence of chunk-level targets up to the contents of extents that are not valid.

    A write behind the end of the file makes write(2) fill the gap with zeros; skipped,
    non-valid extents in the gap then read as zeros while [Dl/Update.v] leaves them as they
    were.  Nothing in the procedure reads a non-valid extent before it is overwritten
    (copy and placement overwrite, the range computation looks at flags and sizes only, the
    final validation runs when every chunk is valid).  [eqv]: same index entries, same
    server bytes, same flags, and the same extent bytes wherever the flag is valid.
    Every step after the validity scan respects [eqv], and so does the request loop. *)
From ZV Require Import Base.Bytes Gen.GenConsts.
From ZV Require Import Dl.Update Dl.UpdateProofs.
Local Open Scope N_scope.

Definition slot_eqv (s s' : slot) : Prop :=
  s_chunk s = s_chunk s' /\ s_srv s = s_srv s' /\ s_flag s = s_flag s' /\
  (s_flag s = Valid -> s_cur s = s_cur s').
Definition eqv (sl sl' : list slot) : Prop := Forall2 slot_eqv sl sl'.

Lemma slot_eqv_refl s : slot_eqv s s.
Proof. repeat split; auto. Qed.
Lemma eqv_refl sl : eqv sl sl.
Proof. induction sl; constructor; [apply slot_eqv_refl | assumption]. Qed.
Lemma slot_eqv_trans a b c : slot_eqv a b -> slot_eqv b c -> slot_eqv a c.
Proof.
  intros [A1 [A2 [A3 A4]]] [B1 [B2 [B3 B4]]]. repeat split; try congruence.
  intros V. rewrite (A4 V). apply B4. congruence.
Qed.
Lemma eqv_trans : forall a b c, eqv a b -> eqv b c -> eqv a c.
Proof.
  induction a as [|x a IH]; intros b c E1 E2; inversion E1; subst; inversion E2; subst; constructor.
  - eapply slot_eqv_trans; eassumption.
  - eapply IH; eassumption.
Qed.
Lemma slot_eqv_sym a b : slot_eqv a b -> slot_eqv b a.
Proof. intros [A1 [A2 [A3 A4]]]. repeat split; try congruence. intros V. symmetry. apply A4. congruence. Qed.
Lemma eqv_sym : forall a b, eqv a b -> eqv b a.
Proof. induction a as [|x a IH]; intros b E; inversion E; subst; constructor; [apply slot_eqv_sym; assumption | apply IH; assumption]. Qed.

Lemma eqv_map f g sl sl' :
  (forall s s', slot_eqv s s' -> slot_eqv (f s) (g s')) -> eqv sl sl' -> eqv (map f sl) (map g sl').
Proof. intros Hf E. induction E; cbn [map]; constructor; auto. Qed.

(** when every chunk is valid the two targets are the same *)
Lemma eqv_all_valid : forall sl sl', eqv sl sl' -> Forall (fun s => s_flag s = Valid) sl -> sl = sl'.
Proof.
  induction sl as [|s sl IH]; intros sl' E V; inversion E; subst; [reflexivity|].
  inversion V; subst. f_equal; [|apply IH; assumption].
  destruct H1 as [A1 [A2 [A3 A4]]]. destruct s, y. cbn in *. subst. f_equal. auto.
Qed.

Section Ops.
Variable Hc : bytes -> bytes.
Variable Hf : bytes -> bytes.

Definition ucopy_body' (A : oldfile) (s : slot) : slot :=
  let c := s_chunk s in
  match find_digest A (c_digest c) with
  | Some (ca, data) =>
      if (c_ulen ca =? c_ulen c) && (c_clen ca =? c_clen c) then
        if (len data =? c_clen ca) && bytes_eqb (Hc data) (c_digest ca)
        then set_cur s data Valid
        else set_cur s (zeros (c_clen c)) Failed
      else s
  | None => s
  end.

Lemma ucopy_unfold' A s :
  copy_one Hc A s = match s_flag s with Valid => s | _ => ucopy_body' A s end.
Proof. unfold copy_one, ucopy_body'. destruct (s_flag s); reflexivity. Qed.

Lemma copy_one_eqv A s s' : slot_eqv s s' -> slot_eqv (copy_one Hc A s) (copy_one Hc A s').
Proof.
  intros E. pose proof E as [A1 [A2 [A3 A4]]]. rewrite !ucopy_unfold'. rewrite <- A3.
  destruct (s_flag s) eqn:Fl; [exact E| |];
    (unfold ucopy_body'; rewrite <- A1;
     destruct (find_digest A (c_digest (s_chunk s))) as [[ca data]|]; [|exact E];
     destruct ((c_ulen ca =? c_ulen (s_chunk s)) && (c_clen ca =? c_clen (s_chunk s))); [|exact E];
     destruct ((len data =? c_clen ca) && bytes_eqb (Hc data) (c_digest ca));
     unfold set_cur, slot_eqv; cbn [s_chunk s_srv s_flag s_cur]; rewrite <- A1, <- A2;
     repeat split; auto; intros X; discriminate X).
Qed.

Lemma copy_chunks_eqv A sl sl' : eqv sl sl' -> eqv (copy_chunks Hc A sl) (copy_chunks Hc A sl').
Proof. destruct A as [a|]; cbn [copy_chunks]; [|auto]. apply eqv_map. apply copy_one_eqv. Qed.

Lemma reset_failed_eqv sl sl' : eqv sl sl' -> eqv (reset_failed sl) (reset_failed sl').
Proof.
  apply eqv_map. intros s s' E. pose proof E as [A1 [A2 [A3 A4]]]. rewrite <- A3.
  destruct (s_flag s) eqn:Fl; [exact E| |exact E].
  unfold set_flag, slot_eqv; cbn [s_chunk s_srv s_flag s_cur]. repeat split; auto. intros X; discriminate X.
Qed.

Lemma is_missing_eqv s s' : slot_eqv s s' -> is_missing s = is_missing s'.
Proof. intros [_ [_ [A3 _]]]. unfold is_missing. rewrite A3. reflexivity. Qed.

Lemma missing_count_eqv sl sl' : eqv sl sl' -> missing_count sl = missing_count sl'.
Proof.
  unfold missing_count. induction 1 as [|s s' sl sl' E _ IH]; [reflexivity|].
  cbn [filter]. rewrite (is_missing_eqv s s' E). destruct (is_missing s'); cbn [length]; rewrite IH; reflexivity.
Qed.

Lemma missing_range_eqv maxr : forall sl sl' i off last cnt, eqv sl sl' ->
  missing_range maxr i off last cnt sl = missing_range maxr i off last cnt sl'.
Proof.
  induction sl as [|s sl IH]; intros sl' i off last cnt E; inversion E; subst; [reflexivity|].
  cbn [missing_range]. rewrite (is_missing_eqv s y H1). destruct H1 as [A1 _]. rewrite <- A1.
  destruct (is_missing y && negb (c_clen (s_chunk s) =? 0)).
  - destruct (maxr <=? _); [reflexivity|]. rewrite (IH l' _ _ _ _ H3). reflexivity.
  - apply IH. exact H3.
Qed.

Lemma place_eqv : forall sl sl' req i, eqv sl sl' ->
  eqv (fst (place Hc req i sl)) (fst (place Hc req i sl')) /\
  snd (place Hc req i sl) = snd (place Hc req i sl').
Proof.
  induction sl as [|s sl IH]; intros sl' req i E; inversion E; subst.
  - destruct req; cbn; split; auto; constructor.
  - destruct req as [|r req]; [rewrite !place_nil; cbn [fst snd]; auto|].
    cbn [place]. pose proof H1 as [A1 [A2 [A3 A4]]]. rewrite <- A1, <- A2.
    destruct (Nat.eqb r i).
    + destruct (chunk_ok Hc (s_chunk s) (s_srv s)).
      * destruct (IH l' req (S i) H3) as [I1 I2].
        destruct (place Hc req (S i) sl) as [x ok]. destruct (place Hc req (S i) l') as [x' ok'].
        cbn [fst snd] in *. split; [|exact I2]. constructor; [|exact I1].
        unfold set_cur; cbn [s_chunk s_srv s_flag s_cur]. rewrite <- A1, <- A2. repeat split; auto.
      * cbn [fst snd]. split; [|reflexivity]. constructor; [|exact H3].
        unfold set_cur; cbn [s_chunk s_srv s_flag s_cur]. rewrite <- A1, <- A2. repeat split; auto; try (intros X; discriminate X).
    + destruct (IH l' (r :: req) (S i) H3) as [I1 I2].
      destruct (place Hc (r :: req) (S i) sl) as [x ok]. destruct (place Hc (r :: req) (S i) l') as [x' ok'].
      cbn [fst snd] in *. split; [|exact I2]. constructor; assumption.
Qed.

Lemma place_nofail : forall sl req i, Forall (nofail) sl -> snd (place Hc req i sl) = true ->
  Forall nofail (fst (place Hc req i sl)).
Proof.
  induction sl as [|s sl IH]; intros req i NF Ok.
  - destruct req; cbn; constructor.
  - destruct req as [|r req]; [rewrite place_nil; exact NF|].
    inversion NF as [|? ? N1 N2]; subst. cbn [place] in *.
    destruct (Nat.eqb r i).
    + destruct (chunk_ok Hc (s_chunk s) (s_srv s)); [|cbn in Ok; discriminate].
      specialize (IH req (S i) N2). destruct (place Hc req (S i) sl) as [x ok]. cbn [fst snd] in *.
      constructor; [unfold nofail; cbn; discriminate | apply IH; exact Ok].
    + specialize (IH (r :: req) (S i) N2). destruct (place Hc (r :: req) (S i) sl) as [x ok]. cbn [fst snd] in *.
      constructor; [exact N1 | apply IH; exact Ok].
Qed.

(** outcomes up to [eqv] of the slots *)
Definition outcome_eqv (o o' : outcome) : Prop :=
  o_status o = o_status o' /\ o_events o = o_events o' /\
  t_hdr (o_target o) = t_hdr (o_target o') /\ t_extra (o_target o) = t_extra (o_target o') /\
  eqv (t_slots (o_target o)) (t_slots (o_target o')).

Lemma outcome_eqv_refl o : outcome_eqv o o.
Proof. repeat split; auto. apply eqv_refl. Qed.

(** the request loop respects [eqv] (no chunk is flagged failed: the state after
    [reset_failed]) *)
Lemma dl_loop_eqv : forall fuel B srv hdr extra maxr ra sl sl' ev,
  eqv sl sl' -> Forall nofail sl ->
  outcome_eqv (dl_loop Hc Hf fuel B srv hdr extra maxr ra sl ev) (dl_loop Hc Hf fuel B srv hdr extra maxr ra sl' ev).
Proof.
  induction fuel as [|fuel IH]; intros B srv hdr extra maxr ra sl sl' ev E NF.
  - cbn [dl_loop]. rewrite <- (missing_count_eqv sl sl' E).
    destruct (missing_count sl) eqn:M0.
    + rewrite <- (eqv_all_valid sl sl' E (no_missing_all_valid sl NF M0)). apply outcome_eqv_refl.
    + repeat split; auto.
  - cbn [dl_loop]. rewrite <- (missing_count_eqv sl sl' E).
    destruct (missing_count sl) eqn:M0.
    + rewrite <- (eqv_all_valid sl sl' E (no_missing_all_valid sl NF M0)). apply outcome_eqv_refl.
    + rewrite <- (missing_range_eqv maxr sl sl' 0 0 None 0 E).
      destruct (missing_range maxr 0 0 None 0 sl) as [req count].
      destruct req as [|r0 req0]; [repeat split; auto|].
      destruct (advance (length range_attempt) ra count) as [ra1|]; [|repeat split; auto].
      destruct (count <=? srv).
      * destruct (place_eqv sl sl' (r0 :: req0) 0 E) as [P1 P2].
        pose proof (place_nofail sl (r0 :: req0) 0 NF) as P3.
        destruct (place Hc (r0 :: req0) 0 sl) as [x ok]. destruct (place Hc (r0 :: req0) 0 sl') as [x' ok'].
        cbn [fst snd] in *. subst ok'. destruct ok; [apply IH; auto|]. repeat split; auto.
      * destruct (1 <? maxr); [|apply IH; assumption].
        destruct (tbl (S ra1)); [apply IH; assumption|]. repeat split; auto.
Qed.

End Ops.
