(** Proofs about the local chunk reuse model (C08). *)
From ZV Require Import Base.Bytes Gen.GenConsts Format.Header Format.ParseLemmas Format.ParseProofs
                       Read.Scan Read.ScanProofs Dl.Copy.
From ZV Require Dl.DlWrite Dl.FileLemmas.
Local Open Scope N_scope.

(** * Files *)
Lemma sub_len_le (f : bytes) off n : len (sub f off n) <= n.
Proof. unfold sub. rewrite len_firstn. lia. Qed.

Lemma sub_len (f : bytes) off n : off + n <= len f -> len (sub f off n) = n.
Proof. intros Hb. unfold sub. rewrite len_firstn, len_skipn. lia. Qed.

Lemma nth_sub (f : bytes) off n i :
  (i < N.to_nat n)%nat -> nth i (sub f off n) 0 = fget f (off + N.of_nat i).
Proof.
  intros Hi. unfold sub, DlWrite.fget.
  rewrite FileLemmas.nth_firstn_lt by exact Hi. rewrite FileLemmas.nth_skipn_add.
  replace (N.to_nat (off + N.of_nat i)) with (N.to_nat off + i)%nat by lia. reflexivity.
Qed.

(** an extent is determined by its bytes *)
Lemma sub_ext_eq (f1 f2 : bytes) off n :
  (forall x, off <= x < off + n -> fget f1 x = fget f2 x) ->
  off + n <= len f1 -> off + n <= len f2 -> sub f1 off n = sub f2 off n.
Proof.
  intros Hx H1 H2. apply (nth_ext _ _ 0 0).
  - pose proof (sub_len f1 off n H1). pose proof (sub_len f2 off n H2). unfold len, byte in *. lia.
  - intros i Hi. pose proof (sub_len f1 off n H1) as L. unfold len, byte in L, Hi.
    assert (Hi' : (i < N.to_nat n)%nat) by lia.
    rewrite !nth_sub by exact Hi'. apply Hx. lia.
Qed.

Lemma file_write_len_ge (f : bytes) off bs : len f <= len (file_write f off bs).
Proof.
  destruct bs as [|b bs]; [cbn; lia|].
  unfold len. rewrite FileLemmas.file_write_length by discriminate. lia.
Qed.

Lemma file_write_len_cover (f : bytes) off bs : bs <> [] -> off + len bs <= len (file_write f off bs).
Proof.
  intros Hb. unfold len. rewrite FileLemmas.file_write_length by exact Hb. lia.
Qed.

Lemma sub_file_write_same (f : bytes) off bs : sub (file_write f off bs) off (len bs) = bs.
Proof.
  destruct bs as [|b bs]; [reflexivity|]. set (l := b :: bs).
  assert (Hc : off + len l <= len (file_write f off l)) by (apply file_write_len_cover; discriminate).
  pose proof (sub_len _ _ _ Hc) as L.
  apply (nth_ext _ _ 0 0).
  - unfold len, byte in *. lia.
  - intros i Hi. unfold len, byte in L, Hi.
    assert (Hi' : (i < N.to_nat (len l))%nat) by (unfold len, byte; lia).
    rewrite nth_sub by exact Hi'. rewrite FileLemmas.fget_file_write.
    replace (off <=? off + N.of_nat i) with true by (symmetry; apply N.leb_le; lia).
    replace (off + N.of_nat i <? off + len l) with true by (symmetry; apply N.ltb_lt; unfold len, byte in *; lia).
    cbn [andb]. f_equal. lia.
Qed.

Lemma fget_file_write_out (f : bytes) off bs x :
  ~ (off <= x < off + len bs) -> fget (file_write f off bs) x = fget f x.
Proof.
  intros Hx. rewrite FileLemmas.fget_file_write.
  destruct (off <=? x) eqn:E1; destruct (x <? off + len bs) eqn:E2; cbn [andb]; try reflexivity.
  apply N.leb_le in E1. apply N.ltb_lt in E2. lia.
Qed.

Lemma len_repeat (a : byte) n : len (repeat a n) = N.of_nat n.
Proof. unfold len. rewrite repeat_length. reflexivity. Qed.

Lemma seek_eq (f : bytes) off : seek f off = skipn (N.to_nat off) f.
Proof.
  unfold seek. destruct (len f <=? off) eqn:E; [|reflexivity].
  apply N.leb_le in E. symmetry. apply skipn_all2. unfold len in E. lia.
Qed.

(** * The block loops *)
Lemma zero_blocks_spec fuel : forall tf pos n,
  n <= BUF_SIZE * N.of_nat fuel ->
  zero_blocks fuel tf pos n = Some (file_write tf pos (repeat 0 (N.to_nat n))).
Proof.
  induction fuel as [|fuel IH]; intros tf pos n Hn.
  - assert (n = 0) by lia. subst n. reflexivity.
  - cbn [zero_blocks]. destruct (n =? 0) eqn:E0.
    + apply N.eqb_eq in E0. subst n. reflexivity.
    + apply N.eqb_neq in E0. pose proof BUF_pos as HB. set (rb := N.min BUF_SIZE n).
      assert (Hr : 0 < rb /\ rb <= n) by (unfold rb; lia).
      rewrite IH by (unfold rb; lia).
      replace (N.to_nat n) with (N.to_nat rb + N.to_nat (n - rb))%nat by lia.
      rewrite repeat_app, FileLemmas.file_write_app, len_repeat, Nnat.N2Nat.id. reflexivity.
Qed.

Lemma zero_chunk_spec th tf tc :
  zero_chunk th tf tc = Some (file_write tf (ext_lo th tc) (repeat 0 (N.to_nat (c_clen tc)))).
Proof.
  unfold zero_chunk. apply zero_blocks_spec. pose proof BUF_pos.
  Ltac Zify.zify_post_hook ::= Z.to_euclidean_division_equations. lia.
Qed.

Lemma copy_blocks_spec fuel : forall srest tf tpos n buf acc c tf' acc',
  len buf = BUF_SIZE ->
  copy_blocks fuel srest tf tpos n buf acc = Some (c, tf', acc') ->
  exists w, acc' = acc ++ w /\ tf' = file_write tf tpos w /\ len w <= n /\ (c = true -> len w = n).
Proof.
  induction fuel as [|fuel IH]; intros srest tf tpos n buf acc c tf' acc' Hbuf E.
  - cbn [copy_blocks] in E. destruct (n =? 0) eqn:E0; [|discriminate].
    apply N.eqb_eq in E0. injection E as <- <- <-. exists []. rewrite app_nil_r. subst n.
      split; [reflexivity|]. split; [reflexivity|]. split; [cbn; lia|reflexivity].
  - cbn [copy_blocks] in E. destruct (n =? 0) eqn:E0.
    + apply N.eqb_eq in E0. injection E as <- <- <-. exists []. rewrite app_nil_r. subst n.
      split; [reflexivity|]. split; [reflexivity|]. split; [cbn; lia|reflexivity].
    + apply N.eqb_neq in E0. pose proof BUF_pos as HB. set (rb := N.min BUF_SIZE n) in *.
      assert (Hr : 0 < rb /\ rb <= n /\ rb <= BUF_SIZE) by (unfold rb; lia).
      set (got := firstn (N.to_nat rb) srest) in *.
      destruct (len got =? 0) eqn:Eg.
      * injection E as <- <- <-. exists []. rewrite app_nil_r. split; [reflexivity|].
        split; [reflexivity|]. split; [cbn; lia|discriminate].
      * set (buf' := got ++ skipn (length got) buf) in *.
        assert (Hgl : len got <= rb) by (unfold got; rewrite len_firstn; lia).
        assert (Hb' : len buf' = BUF_SIZE).
        { unfold buf'. rewrite len_app, len_skipn. unfold len in *. lia. }
        set (data := firstn (N.to_nat rb) buf') in *.
        assert (Hd : len data = rb) by (unfold data; rewrite len_firstn; lia).
        destruct (IH _ _ _ _ _ _ _ _ _ Hb' E) as (w & Ha & Ht & Hl & Hc).
        exists (data ++ w). rewrite len_app, Hd.
        split; [rewrite Ha, app_assoc; reflexivity|].
        split; [rewrite Ht, FileLemmas.file_write_app, Hd; reflexivity|].
        split; [lia|]. intros Hc'. specialize (Hc Hc'). lia.
Qed.

Lemma copy_blocks_total fuel : forall srest tf tpos n buf acc,
  (length srest < fuel)%nat -> copy_blocks fuel srest tf tpos n buf acc <> None.
Proof.
  induction fuel as [|fuel IH]; intros srest tf tpos n buf acc Hf; [lia|].
  cbn [copy_blocks]. destruct (n =? 0) eqn:E0; [discriminate|].
  apply N.eqb_neq in E0. pose proof BUF_pos as HB. set (rb := N.min BUF_SIZE n).
  destruct (len (firstn (N.to_nat rb) srest) =? 0) eqn:Eg; [discriminate|].
  apply N.eqb_neq in Eg. rewrite len_firstn in Eg.
  apply IH. rewrite skipn_length. unfold len in Eg. unfold rb in *. lia.
Qed.

(** * Lookup *)
Lemma find_i_spec {A} (p : A -> bool) : forall l i0 i x,
  find_i p l i0 = Some (i, x) ->
  (i0 <= i)%nat /\ nth_error l (i - i0) = Some x /\ p x = true /\
  (forall j y, (j < i - i0)%nat -> nth_error l j = Some y -> p y = false).
Proof.
  induction l as [|a l IH]; intros i0 i x E; [discriminate|].
  cbn [find_i] in E. destruct (p a) eqn:Ep.
  - injection E as <- <-. rewrite Nat.sub_diag. cbn [nth_error].
    split; [lia|]. split; [reflexivity|]. split; [exact Ep|]. intros j y Hj. lia.
  - destruct (IH _ _ _ E) as (I1 & I2 & I3 & I4).
    split; [lia|]. replace (i - i0)%nat with (S (i - S i0)) by lia. cbn [nth_error].
    split; [exact I2|]. split; [exact I3|].
    intros [|j] y Hj Ey; cbn [nth_error] in Ey.
    + injection Ey as <-. exact Ep.
    + apply (I4 j y); [lia|exact Ey].
Qed.

Lemma memcmp_eq_iff n a b : memcmp_eq n a b = true <-> firstn (N.to_nat n) a = firstn (N.to_nat n) b.
Proof. unfold memcmp_eq. apply bytes_eqb_eq. Qed.

Lemma memcmp_trans n a b c : memcmp_eq n a b = true -> memcmp_eq n b c = true -> memcmp_eq n a c = true.
Proof. rewrite !memcmp_eq_iff. congruence. Qed.

Lemma memcmp_sym n a b : memcmp_eq n a b = true -> memcmp_eq n b a = true.
Proof. rewrite !memcmp_eq_iff. congruence. Qed.

(** every checksum type has its own digest size (from the generated constants), so equal
    digest sizes mean equal types *)
Definition known (t : N) : Prop := dsize t <> None.

Lemma dsize_cases t d : dsize t = Some d ->
  (t = ZCK_HASH_SHA1 /\ d = DIGEST_SIZE_SHA1) \/ (t = ZCK_HASH_SHA256 /\ d = DIGEST_SIZE_SHA256) \/
  (t = ZCK_HASH_SHA512 /\ d = DIGEST_SIZE_SHA512) \/ (t = ZCK_HASH_SHA512_128 /\ d = DIGEST_SIZE_SHA512_128).
Proof.
  unfold dsize. intros E.
  destruct (t =? ZCK_HASH_SHA1) eqn:E1; [apply N.eqb_eq in E1; left; split; congruence|].
  destruct (t =? ZCK_HASH_SHA256) eqn:E2; [apply N.eqb_eq in E2; right; left; split; congruence|].
  destruct (t =? ZCK_HASH_SHA512) eqn:E3; [apply N.eqb_eq in E3; right; right; left; split; congruence|].
  destruct (t =? ZCK_HASH_SHA512_128) eqn:E4; [apply N.eqb_eq in E4; right; right; right; split; congruence|].
  discriminate.
Qed.

Lemma dsize_inj a b d : dsize a = Some d -> dsize b = Some d -> a = b.
Proof.
  intros Ha Hb. apply dsize_cases in Ha. apply dsize_cases in Hb.
  destruct Ha as [[-> Ha]|[[-> Ha]|[[-> Ha]|[-> Ha]]]];
  destruct Hb as [[-> Hb]|[[-> Hb]|[[-> Hb]|[-> Hb]]]]; try reflexivity;
  exfalso; rewrite Ha in Hb; vm_compute in Hb; discriminate Hb.
Qed.

Lemma ds_of_inj a b : known a -> known b -> ds_of a = ds_of b -> a = b.
Proof.
  unfold known, ds_of. intros Ha Hb E.
  destruct (dsize a) as [da|] eqn:Ea; [|congruence]. destruct (dsize b) as [db|] eqn:Eb; [|congruence].
  subst db. exact (dsize_inj _ _ _ Ea Eb).
Qed.

Lemma lookup_spec sh tds key i sc :
  lookup sh tds key = Some (i, sc) ->
  ds_of (h_chash sh) = tds /\ nth_error (h_chunks sh) i = Some sc /\
  memcmp_eq tds (c_digest sc) key = true /\
  (forall j y, (j < i)%nat -> nth_error (h_chunks sh) j = Some y -> memcmp_eq tds (c_digest y) key = false).
Proof.
  unfold lookup. destruct (ds_of (h_chash sh) =? tds) eqn:Ed; [|discriminate].
  apply N.eqb_eq in Ed. intros E. apply find_i_spec in E. rewrite Nat.sub_0_r in E.
  destruct E as (_ & E2 & E3 & E4). auto.
Qed.

Section Proofs.
Variable H : N -> bytes -> bytes.

(** the bytes hash, with the target's chunk checksum type, to the target's index digest *)
Definition tgt_ok (th : header) (tc : chunk) (bs : bytes) : bool :=
  memcmp_eq (ds_of (h_chash th)) (H (h_chash th) bs) (c_digest tc).

Lemma match_for_spec sh th tc sc :
  match_for sh th tc = Some sc ->
  ds_of (h_chash sh) = ds_of (h_chash th) /\ In sc (h_chunks sh) /\
  memcmp_eq (ds_of (h_chash th)) (c_digest sc) (c_digest tc) = true /\
  c_clen sc = c_clen tc /\ c_ulen sc = c_ulen tc.
Proof.
  unfold match_for. destruct (lookup sh _ _) as [[i sc']|] eqn:El; [|discriminate].
  destruct ((c_ulen sc' =? c_ulen tc) && (c_clen sc' =? c_clen tc)) eqn:Es; [|discriminate].
  intros E. injection E as <-. apply andb_prop in Es. destruct Es as [E1 E2].
  apply N.eqb_eq in E1. apply N.eqb_eq in E2.
  destruct (lookup_spec _ _ _ _ _ El) as (L1 & L2 & L3 & _).
  split; [exact L1|]. split; [exact (nth_error_In _ _ L2)|]. auto.
Qed.

Lemma in_ext_sub th tc x m : m <= c_clen tc -> ~ in_ext th tc x -> ~ (ext_lo th tc <= x < ext_lo th tc + m).
Proof. unfold in_ext. lia. Qed.

Lemma write_and_verify_spec sh sf th tf sc tc tf' nv :
  c_clen sc = c_clen tc ->
  write_and_verify H sh sf th tf sc tc = Some (tf', nv) ->
  let lo := ext_lo th tc in let n := c_clen tc in
  (forall x, ~ in_ext th tc x -> fget tf' x = fget tf x) /\
  len tf <= len tf' /\
  match nv with
  | None => True
  | Some v =>
      (v = 1%Z /\ (n = 0 \/ lo + n <= len tf') /\
       memcmp_eq (ds_of (h_chash sh)) (H (h_chash sh) (sub tf' lo n)) (c_digest sc) = true)
      \/ (v = (-1)%Z /\ sub tf' lo n = repeat 0 (N.to_nat n) /\ (n = 0 \/ lo + n <= len tf'))
  end.
Proof.
  intros Hcl E lo n. unfold write_and_verify in E. fold (ext_lo th tc) in E. fold lo in E.
  destruct (copy_blocks _ _ _ _ _ _ _) as [[[c tf1] acc]|] eqn:Ec; [|discriminate].
  apply copy_blocks_spec in Ec; [|rewrite len_repeat; lia].
  destruct Ec as (w & Ha & Ht & Hl & Hc). cbn [app] in Ha. subst acc. rewrite Hcl in Hl, Hc. fold n in Hl, Hc.
  assert (Hfr1 : forall x, ~ in_ext th tc x -> fget tf1 x = fget tf x).
  { intros x Hx. subst tf1. apply fget_file_write_out. apply in_ext_sub; assumption. }
  assert (Hlen1 : len tf <= len tf1) by (subst tf1; apply file_write_len_ge).
  destruct c.
  - specialize (Hc eq_refl).
    assert (Hsub1 : sub tf1 lo n = w) by (subst tf1; rewrite <- Hc; apply sub_file_write_same).
    assert (Hcov1 : n = 0 \/ lo + n <= len tf1).
    { destruct w as [|b w]; [left; cbn in Hc; lia|right]. subst tf1. rewrite <- Hc.
      apply file_write_len_cover. discriminate. }
    destruct (memcmp_eq _ _ _) eqn:Em.
    + injection E as <- <-. split; [exact Hfr1|]. split; [exact Hlen1|]. left.
      split; [reflexivity|]. split; [exact Hcov1|]. rewrite Hsub1. exact Em.
    + rewrite zero_chunk_spec in E. injection E as <- <-. fold lo. fold n.
      set (z := repeat 0 (N.to_nat n)).
      assert (Hz : len z = n) by (unfold z; rewrite len_repeat; lia).
      split; [|split].
      * intros x Hx. rewrite fget_file_write_out; [apply Hfr1; exact Hx|].
        apply in_ext_sub; [lia|exact Hx].
      * pose proof (file_write_len_ge tf1 lo z). lia.
      * right. split; [reflexivity|]. split.
        -- rewrite <- Hz at 1. apply sub_file_write_same.
        -- destruct (N.eq_dec n 0) as [H0|H0]; [left; exact H0|right].
           rewrite <- Hz at 1. apply file_write_len_cover. unfold z. destruct (N.to_nat n) eqn:En; [lia|discriminate].
  - injection E as <- <-. split; [exact Hfr1|]. split; [exact Hlen1|exact I].
Qed.

Lemma copy_one_spec sh sf th tc v tf v' tf' :
  known (h_chash sh) -> known (h_chash th) ->
  copy_one H sh sf th tc v tf = Some (v', tf') ->
  let lo := ext_lo th tc in let n := c_clen tc in
  (forall x, ~ in_ext th tc x -> fget tf' x = fget tf x) /\
  len tf <= len tf' /\
  (v = 1%Z -> v' = 1%Z /\ tf' = tf) /\
  (match_for sh th tc = None -> v' = v /\ tf' = tf) /\
  (v' = v \/ v' = 1%Z \/ v' = (-1)%Z) /\
  (v' = 1%Z -> v <> 1%Z -> (n = 0 \/ lo + n <= len tf') /\ tgt_ok th tc (sub tf' lo n) = true) /\
  (v' <> v -> v' = (-1)%Z -> sub tf' lo n = repeat 0 (N.to_nat n) /\ (n = 0 \/ lo + n <= len tf')).
Proof.
  intros Ks Kt E lo n. unfold copy_one in E.
  destruct (v =? 1)%Z eqn:Ev.
  - apply Z.eqb_eq in Ev. injection E as <- <-.
    repeat split; auto; try lia; try (intros; congruence).
  - apply Z.eqb_neq in Ev.
    destruct (match_for sh th tc) as [sc|] eqn:Em.
    + destruct (match_for_spec _ _ _ _ Em) as (M1 & M2 & M3 & M4 & M5).
      destruct (write_and_verify H sh sf th tf sc tc) as [[tf1 nv]|] eqn:Ew; [|discriminate].
      destruct (write_and_verify_spec _ _ _ _ _ _ _ _ M4 Ew) as (W1 & W2 & W3). fold lo in W3. fold n in W3.
      assert (Ht : h_chash sh = h_chash th) by (apply ds_of_inj; assumption).
      destruct nv as [v1|]; injection E as <- <-.
      * split; [exact W1|]. split; [exact W2|]. split; [intros; congruence|]. split; [discriminate|].
        destruct W3 as [(-> & W4 & W5)|(-> & W4 & W5)].
        -- split; [auto|]. split.
           ++ intros _ _. split; [exact W4|]. unfold tgt_ok. rewrite <- Ht in M3 |- *.
              exact (memcmp_trans _ _ _ _ W5 M3).
           ++ intros _ Hm. discriminate Hm.
        -- split; [auto|]. split; [intros Hm; discriminate Hm|]. intros _ _. split; assumption.
      * split; [exact W1|]. split; [exact W2|]. split; [intros; congruence|]. split; [discriminate|].
        split; [auto|]. split; [intros; congruence|]. intros Hne. congruence.
    + injection E as <- <-. repeat split; auto; try lia; try (intros; congruence).
Qed.

Lemma nth_tl {A} (l : list A) i d : nth (S i) l d = nth i (tl l) d.
Proof. destruct l; [destruct i; reflexivity|reflexivity]. Qed.
Lemma nth_hd {A} (l : list A) d : nth 0 l d = hd d l.
Proof. destruct l; reflexivity. Qed.

Lemma sub_preserved (f1 f2 : bytes) off n :
  (forall x, x < off + n -> fget f2 x = fget f1 x) -> len f1 <= len f2 ->
  (n = 0 \/ off + n <= len f1) -> sub f2 off n = sub f1 off n.
Proof.
  intros Hx Hl [H0|Hb]; [subst n; reflexivity|].
  apply sub_ext_eq; [intros x Hr; apply Hx; lia|lia|exact Hb].
Qed.

(** what one call of [zck_copy_chunks] establishes for the chunk at position [i] *)
Definition chunk_post (sh th : header) (tc : chunk) (v v' : Z) (tf' : bytes) : Prop :=
  let lo := ext_lo th tc in let n := c_clen tc in
  (v = 1%Z -> v' = 1%Z) /\
  (match_for sh th tc = None -> v' = v) /\
  (v' = v \/ v' = 1%Z \/ v' = (-1)%Z) /\
  (v' = 1%Z -> v <> 1%Z -> (n = 0 \/ lo + n <= len tf') /\ tgt_ok th tc (sub tf' lo n) = true) /\
  (v' <> v -> v' = (-1)%Z -> sub tf' lo n = repeat 0 (N.to_nat n)).

(** a target chunk the call may write to: not valid yet and matched by a source chunk *)
Definition fillable (sh th : header) (tc : chunk) (v : Z) : Prop :=
  v <> 1%Z /\ match_for sh th tc <> None.

Lemma copy_loop_spec sh sf th : known (h_chash sh) -> known (h_chash th) ->
  forall tcs fl tf fl' tf' s,
  starts_ok s tcs ->
  copy_loop H sh sf th tcs fl tf = Some (fl', tf') ->
  length fl' = length tcs /\
  len tf <= len tf' /\
  (forall x, x < data_offset th + s -> fget tf' x = fget tf x) /\
  (forall x, (forall i tc, nth_error tcs i = Some tc -> fillable sh th tc (nth i fl 0%Z) -> ~ in_ext th tc x) ->
             fget tf' x = fget tf x) /\
  (forall i tc, nth_error tcs i = Some tc -> chunk_post sh th tc (nth i fl 0%Z) (nth i fl' 0%Z) tf').
Proof.
  intros Ks Kt. induction tcs as [|tc tcs IH]; intros fl tf fl' tf' s Hst E.
  - cbn [copy_loop] in E. injection E as <- <-.
    split; [reflexivity|]. split; [lia|]. split; [auto|]. split; [auto|].
    intros i tc Ei. destruct i; discriminate Ei.
  - cbn [starts_ok] in Hst. destruct Hst as [Hcs Hst].
    cbn [copy_loop] in E.
    destruct (copy_one H sh sf th tc (hd 0%Z fl) tf) as [[v1 tf1]|] eqn:E1; [|discriminate].
    destruct (copy_loop H sh sf th tcs (tl fl) tf1) as [[r tf2]|] eqn:E2; [|discriminate].
    injection E as <- <-.
    destruct (copy_one_spec _ _ _ _ _ _ _ _ Ks Kt E1) as (O1 & O2 & O3 & O4 & O5 & O6 & O7).
    destruct (IH _ _ _ _ _ Hst E2) as (I1 & I2 & I3 & I4 & I5).
    assert (Hlo : ext_lo th tc = data_offset th + s) by (unfold ext_lo; rewrite Hcs; reflexivity).
    split; [cbn [length]; rewrite I1; reflexivity|]. split; [lia|]. split; [|split].
    + intros x Hx. rewrite I3 by lia. apply O1. unfold in_ext. lia.
    + intros x Hx. rewrite I4.
      * destruct (Z.eq_dec (hd 0%Z fl) 1) as [Hv|Hv]; [destruct (O3 Hv) as [_ ->]; reflexivity|].
        destruct (match_for sh th tc) eqn:Em; [|destruct (O4 eq_refl) as [_ ->]; reflexivity].
        apply O1. apply (Hx 0%nat tc eq_refl). rewrite nth_hd. split; [exact Hv|congruence].
      * intros i c Ei Hf. apply (Hx (S i) c Ei). rewrite nth_tl. exact Hf.
    + intros [|i] c Ei; cbn [nth_error] in Ei.
      * injection Ei as <-. rewrite nth_hd. cbn [nth]. unfold chunk_post.
        assert (Hpres : (c_clen tc = 0 \/ ext_lo th tc + c_clen tc <= len tf1) ->
                        sub tf2 (ext_lo th tc) (c_clen tc) = sub tf1 (ext_lo th tc) (c_clen tc)).
        { intros Hb. apply sub_preserved; [|exact I2|exact Hb]. intros x Hx. apply I3. rewrite Hlo in Hx. lia. }
        split; [intros Hv; apply (O3 Hv)|]. split; [intros Hm; apply (O4 Hm)|]. split; [exact O5|]. split.
        -- intros Hv' Hv. destruct (O6 Hv' Hv) as [B T]. rewrite (Hpres B). split; [|exact T].
           destruct B as [B|B]; [left; exact B|right; lia].
        -- intros Hne Hm. destruct (O7 Hne Hm) as [Z B]. rewrite (Hpres B). exact Z.
      * rewrite nth_tl. cbn [nth]. apply (I5 i c Ei).
Qed.

(** T8.1, T8.2, T8.3, T8.4 for one call, from any flags *)
Theorem copy_chunks_sound sh sf th tf fl fl' tf' sf' :
  known (h_chash sh) -> known (h_chash th) -> starts_ok 0 (h_chunks th) ->
  copy_chunks H sh sf th tf fl = Some (fl', tf', sf') ->
  sf' = sf /\ length fl' = length (h_chunks th) /\ len tf <= len tf' /\
  (forall x, x < data_offset th -> fget tf' x = fget tf x) /\
  (forall x, (forall i tc, nth_error (h_chunks th) i = Some tc -> fillable sh th tc (nth i fl 0%Z) ->
                           ~ in_ext th tc x) -> fget tf' x = fget tf x) /\
  (forall i tc, nth_error (h_chunks th) i = Some tc -> chunk_post sh th tc (nth i fl 0%Z) (nth i fl' 0%Z) tf').
Proof.
  intros Ks Kt Hst E. unfold copy_chunks in E.
  destruct (copy_loop H sh sf th (h_chunks th) fl tf) as [[a b]|] eqn:El; [|discriminate].
  injection E as <- <- <-.
  destruct (copy_loop_spec sh sf th Ks Kt _ _ _ _ _ 0 Hst El) as (L1 & L2 & L3 & L4 & L5).
  rewrite N.add_0_r in L3. auto 10.
Qed.

(** the model never runs out of fuel *)
Lemma write_and_verify_total sh sf th tf sc tc : write_and_verify H sh sf th tf sc tc <> None.
Proof.
  unfold write_and_verify.
  destruct (copy_blocks _ _ _ _ _ _ _) as [[[c tf1] acc]|] eqn:Ec.
  - destruct c; [|discriminate]. destruct (memcmp_eq _ _ _); [discriminate|].
    rewrite zero_chunk_spec. discriminate.
  - exfalso. revert Ec. apply copy_blocks_total. lia.
Qed.

Theorem copy_chunks_total sh sf th tf fl : copy_chunks H sh sf th tf fl <> None.
Proof.
  unfold copy_chunks.
  assert (L : forall tcs fl tf, copy_loop H sh sf th tcs fl tf <> None).
  { induction tcs as [|tc tcs IH]; intros fl0 tf0; cbn [copy_loop]; [discriminate|].
    assert (O : copy_one H sh sf th tc (hd 0%Z fl0) tf0 <> None).
    { unfold copy_one. destruct (_ =? 1)%Z; [discriminate|]. destruct (match_for sh th tc); [|discriminate].
      pose proof (write_and_verify_total sh sf th tf0 c tc) as W.
      destruct (write_and_verify H sh sf th tf0 c tc) as [[t [v|]]|]; congruence. }
    destruct (copy_one H sh sf th tc (hd 0%Z fl0) tf0) as [[v1 tf1]|]; [|congruence].
    specialize (IH (tl fl0) tf1). destruct (copy_loop H sh sf th tcs (tl fl0) tf1) as [[r t]|]; congruence. }
  specialize (L (h_chunks th) fl tf). destruct (copy_loop H sh sf th (h_chunks th) fl tf) as [[a b]|]; congruence.
Qed.

(** extents of different chunks do not overlap *)
Lemma starts_ge s cs : starts_ok s cs -> forall i a, nth_error cs i = Some a -> s <= c_start a.
Proof.
  revert s. induction cs as [|c cs IH]; intros s Hst i a Ei; [destruct i; discriminate|].
  cbn [starts_ok] in Hst. destruct Hst as [Hc Hst]. destruct i as [|i]; cbn [nth_error] in Ei.
  - injection Ei as <-. lia.
  - pose proof (IH _ Hst i a Ei). lia.
Qed.

Lemma starts_disjoint s cs : starts_ok s cs -> forall i j a b,
  nth_error cs i = Some a -> nth_error cs j = Some b -> (i < j)%nat -> c_start a + c_clen a <= c_start b.
Proof.
  revert s. induction cs as [|c cs IH]; intros s Hst i j a b Ei Ej Hij; [destruct i; discriminate|].
  cbn [starts_ok] in Hst. destruct Hst as [Hc Hst]. destruct j as [|j]; [lia|].
  cbn [nth_error] in Ej. destruct i as [|i]; cbn [nth_error] in Ei.
  - injection Ei as <-. pose proof (starts_ge _ _ Hst j b Ej). lia.
  - apply (IH _ Hst i j a b Ei Ej). lia.
Qed.

(** a chunk that is valid before a call keeps its flag and every byte of its extent *)
Theorem copy_keeps_valid sh sf th tf fl fl' tf' sf' :
  known (h_chash sh) -> known (h_chash th) -> starts_ok 0 (h_chunks th) ->
  copy_chunks H sh sf th tf fl = Some (fl', tf', sf') ->
  forall i tc, nth_error (h_chunks th) i = Some tc -> nth i fl 0%Z = 1%Z ->
  nth i fl' 0%Z = 1%Z /\ forall x, in_ext th tc x -> fget tf' x = fget tf x.
Proof.
  intros Ks Kt Hst E i tc Ei Hv.
  destruct (copy_chunks_sound _ _ _ _ _ _ _ _ Ks Kt Hst E) as (_ & _ & _ & _ & Hfr & Hpost).
  split; [apply (Hpost i tc Ei); exact Hv|].
  intros x Hx. apply Hfr. intros j c Ej [Hnv _] Hxc.
  destruct (Nat.lt_trichotomy i j) as [Hlt|[Heq|Hgt]].
  - pose proof (starts_disjoint _ _ Hst i j tc c Ei Ej Hlt). unfold in_ext, ext_lo in *. lia.
  - subst j. congruence.
  - pose proof (starts_disjoint _ _ Hst j i c tc Ej Ei Hgt). unfold in_ext, ext_lo in *. lia.
Qed.

(** T8.1 over any number of sources in any order: whatever is flagged valid at the end was
    flagged valid at the start or holds bytes that hash to the target's digest *)
Definition good_extent (th : header) (tc : chunk) (tf : bytes) : Prop :=
  (c_clen tc = 0 \/ ext_lo th tc + c_clen tc <= len tf) /\
  tgt_ok th tc (sub tf (ext_lo th tc) (c_clen tc)) = true.

Theorem copy_many_sound th : known (h_chash th) -> starts_ok 0 (h_chunks th) ->
  forall srcs, Forall (fun s => known (h_chash (fst s))) srcs ->
  forall tf fl fl' tf' (fl0 : list Z),
  (forall i tc, nth_error (h_chunks th) i = Some tc -> nth i fl 0%Z = 1%Z ->
                nth i fl0 0%Z = 1%Z \/ good_extent th tc tf) ->
  copy_many H th srcs tf fl = Some (fl', tf') ->
  forall i tc, nth_error (h_chunks th) i = Some tc -> nth i fl' 0%Z = 1%Z ->
               nth i fl0 0%Z = 1%Z \/ good_extent th tc tf'.
Proof.
  intros Kt Hst. induction srcs as [|[sh sf] srcs IH]; intros Hk tf fl fl' tf' fl0 J E.
  - cbn [copy_many] in E. injection E as <- <-. exact J.
  - cbn [copy_many] in E. inversion Hk as [|? ? Ks Hk']; subst. cbn [fst] in Ks.
    destruct (copy_chunks H sh sf th tf fl) as [[[fl1 tf1] sf1]|] eqn:Ec; [|discriminate].
    apply (IH Hk' tf1 fl1 fl' tf' fl0); [|exact E].
    intros i tc Ei Hv1.
    destruct (copy_chunks_sound _ _ _ _ _ _ _ _ Ks Kt Hst Ec) as (_ & _ & Hlen & _ & _ & Hpost).
    destruct (Z.eq_dec (nth i fl 0%Z) 1) as [Hv|Hv].
    + destruct (J i tc Ei Hv) as [J0|[Jb Jt]]; [left; exact J0|right].
      destruct (copy_keeps_valid _ _ _ _ _ _ _ _ Ks Kt Hst Ec i tc Ei Hv) as [_ Hkeep].
      assert (Hs : sub tf1 (ext_lo th tc) (c_clen tc) = sub tf (ext_lo th tc) (c_clen tc)).
      { destruct Jb as [J0|Jb]; [rewrite J0; reflexivity|].
        apply sub_ext_eq; [intros x Hx; apply Hkeep; exact Hx|lia|exact Jb]. }
      split; [destruct Jb as [Jb|Jb]; [left; exact Jb|right; lia]|]. rewrite Hs. exact Jt.
    + right. destruct (Hpost i tc Ei) as (_ & _ & _ & P4 & _). exact (P4 Hv1 Hv).
Qed.

(** T8.2: a source chunk is used only if digest, stored size and size are equal *)
Theorem match_for_sound sh th tc sc :
  match_for sh th tc = Some sc ->
  In sc (h_chunks sh) /\ ds_of (h_chash sh) = ds_of (h_chash th) /\
  memcmp_eq (ds_of (h_chash th)) (c_digest sc) (c_digest tc) = true /\
  c_clen sc = c_clen tc /\ c_ulen sc = c_ulen tc.
Proof. intros E. destruct (match_for_spec _ _ _ _ E) as (A & B & C & D & F). auto. Qed.
End Proofs.

(** * zck_find_matching_chunks (T8.5) *)
Lemma lookup_u_spec sh tds key i sc :
  lookup_u sh tds key = Some (i, sc) ->
  ds_of (h_chash sh) = tds /\ nth_error (h_chunks sh) i = Some sc /\
  exists u, c_udigest sc = Some u /\ memcmp_eq tds u key = true.
Proof.
  unfold lookup_u. destruct (ds_of (h_chash sh) =? tds) eqn:Ed; [|discriminate].
  apply N.eqb_eq in Ed. intros E. apply find_i_spec in E. rewrite Nat.sub_0_r in E.
  destruct E as (_ & E2 & E3 & _). split; [exact Ed|]. split; [exact E2|].
  destruct (c_udigest sc) as [u|]; [exists u; auto|discriminate].
Qed.

(** a pairing is made only between chunks of equal uncompressed length whose digests are
    equal: the stored-bytes digests when both files use the same compression type, otherwise
    (both files carrying them) the uncompressed digests; never anything else *)
Theorem pair_for_sound sh th tc n sc :
  pair_for sh th tc = Some (n, sc) ->
  nth_error (h_chunks sh) n = Some sc /\ c_ulen sc = c_ulen tc /\
  ds_of (h_chash sh) = ds_of (h_chash th) /\
  ((h_comp sh = h_comp th /\ memcmp_eq (ds_of (h_chash th)) (c_digest sc) (c_digest tc) = true /\
    (forall j y, (j < n)%nat -> nth_error (h_chunks sh) j = Some y ->
                 memcmp_eq (ds_of (h_chash th)) (c_digest y) (c_digest tc) = false)) \/
   (h_comp sh <> h_comp th /\ uflag sh = true /\ uflag th = true /\
    exists us ut, c_udigest sc = Some us /\ c_udigest tc = Some ut /\
                  memcmp_eq (ds_of (h_chash th)) us ut = true)).
Proof.
  unfold pair_for. intros E.
  destruct (h_comp sh =? h_comp th) eqn:Ec.
  - apply N.eqb_eq in Ec. destruct (lookup sh _ _) as [[i c]|] eqn:El; [|discriminate].
    destruct (c_ulen c =? c_ulen tc) eqn:Eu; [|discriminate]. injection E as <- <-.
    apply N.eqb_eq in Eu. destruct (lookup_spec _ _ _ _ _ El) as (L1 & L2 & L3 & L4).
    split; [exact L2|]. split; [exact Eu|]. split; [exact L1|]. left. auto.
  - apply N.eqb_neq in Ec. destruct (uflag sh && uflag th) eqn:Ef; [|discriminate].
    apply andb_prop in Ef. destruct Ef as [F1 F2].
    destruct (c_udigest tc) as [ut|] eqn:Et; [|discriminate].
    destruct (lookup_u sh _ ut) as [[i c]|] eqn:El; [|discriminate].
    destruct (c_ulen c =? c_ulen tc) eqn:Eu; [|discriminate]. injection E as <- <-.
    apply N.eqb_eq in Eu. destruct (lookup_u_spec _ _ _ _ _ El) as (L1 & L2 & us & L3 & L4).
    split; [exact L2|]. split; [exact Eu|]. split; [exact L1|]. right.
    split; [exact Ec|]. split; [exact F1|]. split; [exact F2|]. exists us, ut. auto.
Qed.

(** chunks whose flag is not 0 are skipped with their pairing; the others are paired exactly
    as [pair_for] says, or with themselves *)
Theorem find_matching_spec k sh th : forall tcs fl pr fl' pr',
  matching_loop k sh th tcs fl pr = (fl', pr') ->
  length fl' = length tcs /\ length pr' = length tcs /\
  forall i tc, nth_error tcs i = Some tc ->
    let v := nth i fl 0%Z in let p := nth i pr PUnset in
    let v' := nth i fl' 0%Z in let p' := nth i pr' PUnset in
    (v <> 0%Z -> v' = v /\ p' = p) /\
    (v = 0%Z -> (exists n sc, pair_for sh th tc = Some (n, sc) /\ v' = 1%Z /\ p' = PSrc k n) \/
                (pair_for sh th tc = None /\ v' = 0%Z /\ p' = PSelf)).
Proof.
  induction tcs as [|tc tcs IH]; intros fl pr fl' pr' E.
  - cbn [matching_loop] in E. injection E as <- <-. split; [reflexivity|]. split; [reflexivity|].
    intros i c Ei. destruct i; discriminate Ei.
  - cbn [matching_loop] in E.
    destruct (matching_loop k sh th tcs (tl fl) (tl pr)) as [rf rp] eqn:Er.
    destruct (IH _ _ _ _ Er) as (I1 & I2 & I3).
    set (v0 := hd 0%Z fl) in *. set (p0 := hd PUnset pr) in *.
    destruct (negb (v0 =? 0)%Z) eqn:Ev.
    + injection E as <- <-. cbn [length]. split; [congruence|]. split; [congruence|].
      intros [|i] c Ei; cbn [nth_error] in Ei.
      * injection Ei as <-. rewrite !nth_hd. cbn [nth]. fold v0. fold p0.
        apply negb_true_iff, Z.eqb_neq in Ev. split; [auto|]. intros Hv. contradiction.
      * rewrite !nth_tl. cbn [nth]. apply (I3 i c Ei).
    + apply negb_false_iff, Z.eqb_eq in Ev.
      destruct (pair_for sh th tc) as [[n sc]|] eqn:Ep; injection E as <- <-; cbn [length];
        (split; [congruence|]); (split; [congruence|]);
        intros [|i] c Ei; cbn [nth_error] in Ei;
        try (rewrite !nth_tl; cbn [nth]; apply (I3 i c Ei));
        injection Ei as <-; rewrite !nth_hd; cbn [nth]; fold v0; fold p0;
        (split; [intros Hv; contradiction|]); intros _.
      * left. exists n, sc. auto.
      * right. auto.
Qed.

(** the hypotheses hold for every file the (model of the) header reader accepts *)
Lemma parse_impl_chash_known (H : N -> bytes -> bytes) p f h :
  Format.ParseImpl.parse_impl H p f = Format.ParseImpl.POk h -> known (h_chash h).
Proof.
  intros E. destruct (parse_impl_ok H p f h E) as (l & hb & pf & cht & count & cs & u & _ & _ & _ & Ei & _ & ->).
  cbn [h_chash]. unfold Format.ParseImpl.read_index in Ei. cbv zeta in Ei.
  if_false Ei C0. pbind_pair Ei cht' l1 E1.
  unfold known. destruct (dsize cht') as [cds|] eqn:Eds; [|discriminate].
  pbind_pair Ei count' l2 E2.
  match type of Ei with
  | Format.ParseImpl.pbind ?x _ = Format.ParseImpl.POk _ =>
      destruct x as [[n cs']| | |] eqn:El; cbn [Format.ParseImpl.pbind] in Ei;
      [|discriminate Ei|discriminate Ei|discriminate Ei]
  end.
  if_false Ei Cn. assert (cht' = cht) by congruence. subst cht'. congruence.
Qed.
