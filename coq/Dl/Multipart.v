(** Model of src/lib/dl/multipart.c ([multipart_extract], [multipart_get_boundary],
    [gen_regex], [add_boundary_to_regex]) and of the two callbacks [zck_header_cb] /
    [zck_write_chunk_cb] of dl.c — definitions only.

    POSIX regex is an oracle: [rx_comp pat] (does [regcomp(REG_ICASE|REG_EXTENDED)]
    succeed) and [rx_exec pat str] ([regexec] on the NUL-free string [str]: no match, or
    the offsets of groups 1 and 2).  The patterns are built here from the templates
    scraped into Gen/GenConsts.v.  Every buffer read goes through [nth_error]/[cstr]/
    [take_exact]; running off the buffer is the distinct outcome [MOOB]/[GOOB].

    Simplification, justified in the comment of [mp_loop]: [header_start] is not a separate
    cursor because [header_start = i] whenever [mp->state = 0]. *)
From Coq Require Import String Ascii.
From ZV Require Import Base.Bytes Gen.GenConsts Dl.DlWrite.
Local Open Scope N_scope.

Definition bytes_of_string (s : string) : bytes := map N_of_ascii (list_ascii_of_string s).

(** GenConsts holds the C source text of the string literals: interpret the C escapes *)
Fixpoint c_unescape (b : bytes) : bytes :=
  match b with
  | 92 :: c :: t =>
      (if c =? 114 then 13 else if c =? 110 then 10 else if c =? 116 then 9 else c) :: c_unescape t
  | c :: t => c :: c_unescape t
  | [] => []
  end.

(** * Building the patterns *)
(** the escaping loop of the fixed add_boundary_to_regex: the characters listed in its
    [strchr] set (regenerated from multipart.c; empty for a tree without the fix) get a backslash *)
Definition ere_meta : bytes := Eval vm_compute in c_unescape (bytes_of_string REGEX_ESCAPE_SET).
Definition is_meta (c : byte) : bool := existsb (N.eqb c) ere_meta.
Fixpoint escape_ere (b : bytes) : bytes :=
  match b with
  | [] => []
  | c :: t => if is_meta c then 92 :: c :: escape_ere t else c :: escape_ere t
  end.

(** snprintf(regex, boundary) for a template holding one "%s" *)
Fixpoint subst_s (tmpl : bytes) (arg : bytes) : bytes :=
  match tmpl with
  | 37 :: 115 :: t => arg ++ t
  | c :: t => c :: subst_s t arg
  | [] => []
  end.

(** the templates of gen_regex / multipart_get_boundary as regenerated from multipart.c *)
Definition tmpl_next : bytes := Eval vm_compute in c_unescape (bytes_of_string REGEX_NEXT).
Definition tmpl_end : bytes := Eval vm_compute in c_unescape (bytes_of_string REGEX_END).
Definition pat_hdr : bytes := Eval vm_compute in c_unescape (bytes_of_string REGEX_BOUNDARY).
Definition pat_next (boundary : bytes) : bytes := subst_s tmpl_next (escape_ere boundary).
Definition pat_end (boundary : bytes) : bytes := subst_s tmpl_end (escape_ere boundary).

(** * State *)
Record mpstate := mkMp {
  m_state : bool;     (* mp->state != 0: inside the data of a part *)
  m_length : N;       (* mp->length *)
  m_buf : bytes }.    (* mp->buffer (NULL = []) *)

Record xstate := mkX {
  x_dl : dlstate;
  x_mp : mpstate;
  x_boundary : option bytes;          (* dl->boundary *)
  x_rx : option (bytes * bytes) }.    (* dl->dl_regex / dl->end_regex: compiled patterns *)

Inductive mstatus :=
| MOk        (* left the loop by [break]; returns l *)
| MEnd       (* closing delimiter matched, [goto end]; returns l, rest of the buffer dropped *)
| MNoRange   (* neither pattern matched: set_error, [goto end]; returns l *)
| MErr       (* returns 0 *)
| MOOB       (* a read outside the buffer *)
| MFuel.

(** C string starting at the head of [suf]: [None] = no NUL inside the buffer *)
Fixpoint cstr (suf : bytes) : option bytes :=
  match suf with
  | [] => None
  | c :: t => if c =? 0 then Some [] else option_map (cons c) (cstr t)
  end.

Definition take_exact (suf : bytes) (so n : N) : option bytes :=
  let r := firstn (N.to_nat n) (skipn (N.to_nat so) suf) in
  if len r =? n then Some r else None.

(** [(size_t)(c[0] - 48)] with [char] signed *)
Definition digit_val (c : byte) : N :=
  if c <? 128 then (c + two64 - 48) mod two64 else (c + two64 - 304) mod two64.
Definition parse_dec (ds : bytes) : N :=
  fold_left (fun acc c => u64 (acc * 10 + digit_val c)) ds 0.

(** the [for(; j<end; j++)] scan; [rem] = end - j *)
Inductive scanres := ScanFound (j : N) | ScanNone | ScanOOB.
Fixpoint scan (suf : bytes) (rem : N) (j : N) : scanres :=
  if rem <=? 4 then ScanNone else        (* j + 4 >= end *)
  match suf with
  | a :: t =>
      match t with
      | b :: c :: d :: _ =>
          if (a =? 13) && (b =? 10) && (c =? 13) && (d =? 10) then ScanFound j
          else scan t (rem - 1) (j + 1)
      | _ => ScanOOB
      end
  | [] => ScanOOB
  end.

Section WithOracles.
Variable H : bytes -> bytes.
Variable doff : N.
Variable ridx : list rentry.
Variable rx_comp : bytes -> bool.
Variable rx_exec : bytes -> bytes -> option ((N * N) * (N * N)).

Definition x_set_err (x : xstate) : xstate :=
  mkX (set_err (x_dl x)) (x_mp x) (x_boundary x) (x_rx x).

(** [gen_regex] after the D15 fix: nothing is left behind when a pattern does not compile *)
Definition gen_regex (boundary : bytes) : option (bytes * bytes) :=
  if rx_comp (pat_next boundary) then
    if rx_comp (pat_end boundary) then Some (pat_next boundary, pat_end boundary) else None
  else None.

(** The [while(i)] loop.  [isuf] is the buffer from [i] to [end].  [header_start]: it is
    assigned only together with [i] in the data branch ([header_start = i + size], then
    [i += size]) and initially equals [i]; the header branch moves [i] only when it also
    sets [mp->state = 1], and the next data iteration either breaks without saving or
    re-synchronises the two.  So whenever the save branch or the scan runs
    ([mp->state = 0]) [header_start = i], and the bytes saved are [isuf]. *)
Fixpoint mp_loop (fuel : nat) (pn pe : bytes) (dl : dlstate) (st : bool) (mlen : N) (isuf : bytes)
  : (dlstate * mpstate) * mstatus :=
  match fuel with
  | O => ((dl, mkMp st mlen []), MFuel)
  | S f =>
    if st then
      match isuf with
      | [] => ((dl, mkMp st mlen []), MOk)                       (* i >= end: break *)
      | _ =>
        let avail := len isuf in
        let size := if mlen <=? avail then mlen else avail in
        let st' := if mlen <=? avail then false else true in
        let mlen' := if mlen <=? avail then 0 else mlen - avail in
        let (dl', r) := dlw H doff ridx dl (firstn (N.to_nat size) isuf) in
        if dret r =? size then mp_loop f pn pe dl' st' mlen' (skipn (N.to_nat size) isuf)
        else ((dl', mkMp st' mlen' []), MErr)
      end
    else
      match isuf with
      | [] => ((dl, mkMp st mlen []), MOk)                       (* nothing to save *)
      | _ =>
        match scan isuf (len isuf) 0 with
        | ScanOOB => ((dl, mkMp st mlen []), MOOB)
        | ScanNone => ((dl, mkMp st mlen isuf), MOk)             (* save, break *)
        | ScanFound j =>
          (* j[3] = '\0' *)
          let mut := firstn (N.to_nat (j + 3)) isuf ++ 0 :: skipn (N.to_nat (j + 4)) isuf in
          match cstr mut with
          | None => ((dl, mkMp st mlen []), MOOB)
          | Some str =>
            match rx_exec pn str with
            | None =>
                match rx_exec pe str with
                | None => ((set_err dl, mkMp st mlen []), MNoRange)
                | Some _ => ((dl, mkMp st mlen []), MEnd)
                end
            | Some ((so1, eo1), (so2, eo2)) =>
                match take_exact mut so1 (eo1 - so1), take_exact mut so2 (eo2 - so2) with
                | Some d1, Some d2 =>
                    let rstart := parse_dec d1 in
                    let rend := parse_dec d2 in
                    mp_loop f pn pe dl true (u64 (rend + two64 - rstart + 1))
                            (skipn (N.to_nat (j + 4)) isuf)
                | _, _ => ((dl, mkMp st mlen []), MOOB)
                end
            end
          end
        end
      end
  end.

(** [multipart_extract]; called only when [dl->boundary != NULL] *)
Definition mpx (x : xstate) (b : bytes) : xstate * mstatus :=
  if d_err (x_dl x) then (x, MErr) else
  let buf := m_buf (x_mp x) ++ b in
  let boundary := match x_boundary x with Some bd => bd | None => [] end in
  match (match x_rx x with Some r => Some r | None => gen_regex boundary end) with
  | None => (mkX (set_err (x_dl x)) (mkMp (m_state (x_mp x)) (m_length (x_mp x)) [])
                 (x_boundary x) None, MErr)
  | Some (pn, pe) =>
      let '((dl', mp'), r) :=
        mp_loop (2 * length buf + 4) pn pe (x_dl x) (m_state (x_mp x)) (m_length (x_mp x)) buf in
      (mkX dl' mp' (x_boundary x) (Some (pn, pe)), r)
  end.

(** [multipart_get_boundary] *)
Inductive gstatus := GSet | GNone | GErr | GOOB.

Fixpoint until_nul (l : bytes) : bytes :=
  match l with
  | [] => []
  | c :: t => if c =? 0 then [] else c :: until_nul t
  end.

Definition get_boundary (x : xstate) (line : bytes) : xstate * gstatus :=
  if d_err (x_dl x) then (x, GErr) else
  if negb (rx_comp pat_hdr) then (x_set_err x, GErr) else
  let buf := line ++ [0] in
  match cstr buf with
  | None => (x, GOOB)
  | Some str =>
    match rx_exec pat_hdr str with
    | None => (x, GNone)
    | Some ((so, eo), _) =>
      let blen := u64 (eo + two64 - so) in
      match nth_error buf (N.to_nat so) with
      | None => (x, GOOB)
      | Some c0 =>
        let last_ok :=
          if (c0 =? 34) && (2 <? blen) then
            match nth_error buf (N.to_nat (so + blen - 1)) with
            | None => None
            | Some cl => Some (cl =? 34)
            end
          else Some false in
        match last_ok with
        | None => (x, GOOB)
        | Some q =>
          let bs := if q then so + 1 else so in
          let bl := if q then blen - 2 else blen in
          match take_exact buf bs bl with
          | None => (x, GOOB)
          | Some bd =>
              (mkX (x_dl x) (mkMp false 0 []) (Some (until_nul bd)) (x_rx x), GSet)
          end
        end
      end
    end
  end.

(** * The callbacks.  [true] = the callback returned the number of bytes it was given. *)
Definition header_cb (x : xstate) (line : bytes) : xstate :=
  fst (get_boundary x line).

Definition write_cb (x : xstate) (frag : bytes) : xstate * bool * mstatus :=
  match x_boundary x with
  | Some _ =>
      let (x', r) := mpx x frag in
      let l := len (m_buf (x_mp x) ++ frag) in
      let ret := match r with MOk | MEnd | MNoRange => l | _ => 0 end in
      (x', negb (ret =? 0) || (len frag =? 0), r)
  | None =>
      let (dl', r) := dlw H doff ridx (x_dl x) frag in
      (mkX dl' (x_mp x) None (x_rx x),
       negb (dret r =? 0) || (len frag =? 0),
       match r with DFuel => MFuel | _ => MOk end)
  end.

(** feeding a list of fragments the way the transport does: stop at the first short return *)
Fixpoint feed_frags (x : xstate) (frags : list bytes) : xstate * list bool * bool :=
  match frags with
  | [] => (x, [], true)
  | fr :: rest =>
      let '(x', ok, r) := write_cb x fr in
      match r with
      | MOOB | MFuel => (x', [false], false)
      | _ =>
        if ok then let '(x'', l, a) := feed_frags x' rest in (x'', true :: l, a)
        else (x', [false], false)
      end
  end.

End WithOracles.
