(** Facts about the literal matcher of LiteralMatcher.v: it decodes the patterns built by
    Multipart.v, obeys the [regexec] contract of MpSafe.v, and finds the Content-Range line
    of every well-formed part header (MpGrammar.v).  Proofs only. *)
From ZV Require Import Base.Bytes Dl.DlWrite Dl.Multipart Dl.LiteralMatcher Dl.MpGrammar Dl.MpSafe
  Dl.FileLemmas.
Local Open Scope N_scope.

(** * Lists *)
Lemma skipn_add {A} (a b : nat) (s : list A) : skipn (a + b) s = skipn b (skipn a s).
Proof.
  revert s. induction a as [|a IH]; intros s; [reflexivity|].
  destruct s as [|x t]; [rewrite !skipn_nil; reflexivity|].
  cbn [Nat.add skipn]. apply IH.
Qed.

Lemma skipn_exact {A} (x s : list A) n : length x = n -> skipn n (x ++ s) = s.
Proof.
  intros <-. rewrite skipn_app, skipn_all, Nat.sub_diag. reflexivity.
Qed.

Lemma skipn_step {A} (s x r : list A) a b :
  skipn a s = x ++ r -> length x = b -> skipn (a + b)%nat s = r.
Proof. intros E L. rewrite skipn_add, E. apply skipn_exact. exact L. Qed.

Lemma skipn_cons_lt {A} n (s : list A) x r : skipn n s = x :: r -> (n < length s)%nat.
Proof.
  intros E. pose proof (skipn_length n s) as L. rewrite E in L. cbn [length] in L. lia.
Qed.

Lemma firstn_exact {A} (x s : list A) n : length x = n -> firstn n (x ++ s) = x.
Proof.
  intros <-. rewrite firstn_app, firstn_all, Nat.sub_diag. cbn [firstn]. apply app_nil_r.
Qed.

(** * Matching on byte literals *)
Lemma match45 {A} (x : N) (u v : A) :
  match x with 45 => u | _ => v end = if x =? 45 then u else v.
Proof. destruct x as [|q]; [reflexivity|]. do 6 (destruct q as [q|q|]; try reflexivity). Qed.

Lemma match47 {A} (x : N) (u v : A) :
  match x with 47 => u | _ => v end = if x =? 47 then u else v.
Proof. destruct x as [|q]; [reflexivity|]. do 6 (destruct q as [q|q|]; try reflexivity). Qed.

Lemma match61 {A} (x : N) (u v : A) :
  match x with 61 => u | _ => v end = if x =? 61 then u else v.
Proof. destruct x as [|q]; [reflexivity|]. do 6 (destruct q as [q|q|]; try reflexivity). Qed.

Lemma match92 {A} (x : N) (u v : A) :
  match x with 92 => u | _ => v end = if x =? 92 then u else v.
Proof. destruct x as [|q]; [reflexivity|]. do 7 (destruct q as [q|q|]; try reflexivity). Qed.

(** * [lower], [prefix_ic], [span] *)
Lemma lower_cases c : lower c = c \/ (65 <= c /\ c <= 90 /\ lower c = c + 32).
Proof.
  unfold lower. destruct ((65 <=? c) && (c <=? 90)) eqn:E; [right|left; reflexivity].
  apply andb_true_iff in E. destruct E as [E1 E2].
  apply N.leb_le in E1. apply N.leb_le in E2. auto.
Qed.

Lemma lower_idem c : lower (lower c) = lower c.
Proof.
  destruct (lower_cases c) as [E|(A & B & E)]; [rewrite !E; reflexivity|].
  rewrite E. unfold lower at 1.
  destruct ((65 <=? c + 32) && (c + 32 <=? 90)) eqn:F; [|reflexivity].
  apply andb_true_iff in F. destruct F as [_ F]. apply N.leb_le in F. lia.
Qed.

Lemma lower_small c : c < 65 -> lower c = c.
Proof. intros H. destruct (lower_cases c) as [E|(A & _)]; [exact E|lia]. Qed.

Lemma prefix_ic_map a : forall b r, map lower a = map lower b -> prefix_ic a (b ++ r) = true.
Proof.
  induction a as [|x a IH]; intros b r E; [reflexivity|].
  destruct b as [|y b]; [discriminate|]. cbn [map] in E. inversion E as [[E1 E2]].
  cbn [app prefix_ic]. rewrite E1, N.eqb_refl. cbn [andb]. apply IH. exact E2.
Qed.

Lemma prefix_ic_self d r : prefix_ic d (d ++ r) = true.
Proof. apply prefix_ic_map. reflexivity. Qed.

(** the pattern is lower case already, the subject lowers to it *)
Lemma prefix_ic_kw kw b r : map lower kw = kw -> map lower b = kw -> prefix_ic kw (b ++ r) = true.
Proof. intros E1 E2. apply prefix_ic_map. rewrite E1, E2. reflexivity. Qed.

Lemma prefix_ic_short p : forall s r, (length p <= length s)%nat -> prefix_ic p (s ++ r) = prefix_ic p s.
Proof.
  induction p as [|a p IH]; intros s r L; [reflexivity|].
  destruct s as [|b s]; [cbn [length] in L; lia|].
  cbn [app prefix_ic]. rewrite IH; [reflexivity|]. cbn [length] in L. lia.
Qed.

Lemma span_le f s : (span f s <= length s)%nat.
Proof. induction s as [|c t IH]; cbn [span length]; [lia|]. destruct (f c); lia. Qed.

Lemma span_run f (d : bytes) : forall r,
  Forall (fun c => f c = true) d -> match r with x :: _ => f x = false | [] => True end ->
  span f (d ++ r) = length d.
Proof.
  induction d as [|c d IH]; intros r Hd Hr.
  - cbn [app length]. destruct r as [|x r]; [reflexivity|]. cbn [span]. rewrite Hr. reflexivity.
  - cbn [app span length]. rewrite (Forall_inv Hd). f_equal. apply IH; [exact (Forall_inv_tail Hd)|exact Hr].
Qed.

Lemma span_sp n x r : x <> 32 -> span is_sp (sp n ++ x :: r) = n.
Proof.
  intros Hx. rewrite span_run.
  - apply repeat_length.
  - apply Forall_forall. intros c Hc. apply repeat_spec in Hc. subst c. reflexivity.
  - unfold is_sp. apply N.eqb_neq. exact Hx.
Qed.

Lemma span_nth f s j x : nth_error s j = Some x -> f x = false -> (span f s <= j)%nat.
Proof.
  revert j. induction s as [|c t IH]; intros j E Hx; cbn [span]; [lia|].
  destruct j as [|j]; cbn [nth_error] in E.
  - inversion E. subst c. rewrite Hx. lia.
  - destruct (f c); [|lia]. specialize (IH j E Hx). lia.
Qed.

Lemma is_dg_range c : is_dg c = true -> 48 <= c /\ c <= 57.
Proof.
  unfold is_dg. intros E. apply andb_true_iff in E. destruct E as [A B].
  apply N.leb_le in A. apply N.leb_le in B. auto.
Qed.

Lemma is_dg_not c : c < 48 -> is_dg c = false.
Proof.
  intros H. destruct (is_dg c) eqn:E; [|reflexivity]. apply is_dg_range in E. lia.
Qed.

Lemma sp_head_not_dg n x r :
  is_dg x = false -> match sp n ++ x :: r with y :: _ => is_dg y = false | [] => True end.
Proof. intros Hx. destruct n as [|n]; cbn [sp repeat app]; [exact Hx|reflexivity]. Qed.

(** * The shape of a Content-Range line *)
Definition crl (kw : bytes) n1 (by_ : bytes) n2 (da : bytes) n3 n4 (db : bytes) n5 (dt tl : bytes) : bytes :=
  kw ++ sp n1 ++ by_ ++ sp n2 ++ da ++ sp n3 ++ [45] ++ sp n4 ++ db ++ sp n5 ++ [47] ++ dt ++ tl.

Lemma cr_line_crl p tl :
  cr_line p ++ tl =
  crl (p_kw p) (p_sp1 p) (p_bytes p) (p_sp2 p) (p_da p) (p_sp3 p) (p_sp4 p) (p_db p) (p_sp5 p) (p_dt p) tl.
Proof. unfold cr_line, crl. rewrite <- !app_assoc. reflexivity. Qed.

Lemma digits_head d : digits_ok d -> exists x t, d = x :: t /\ 48 <= x /\ x <= 57.
Proof.
  intros [Hne Hd]. destruct d as [|x t]; [congruence|].
  exists x, t. split; [reflexivity|]. apply is_dg_range. exact (Forall_inv Hd).
Qed.

Section CrShape.
Variables (kw : bytes) (n1 : nat) (by_ : bytes) (n2 : nat) (da : bytes) (n3 n4 : nat) (db : bytes)
          (n5 : nat) (dt : bytes).
Hypothesis Hkw : map lower kw = kw_cr.
Hypothesis Hby : map lower by_ = kw_bytes.
Hypothesis Hda : digits_ok da.
Hypothesis Hdb : digits_ok db.
Hypothesis Hdt : digits_ok dt.

Let o2 := (14 + n1 + 5 + n2)%nat.
Let o4 := (o2 + length da + n3 + 1 + n4)%nat.

Lemma kw_len : length kw = 14%nat.
Proof. rewrite <- (map_length lower), Hkw. reflexivity. Qed.

Lemma by_len : length by_ = 5%nat.
Proof. rewrite <- (map_length lower), Hby. reflexivity. Qed.

Lemma by_head : exists x t, by_ = x :: t /\ x <> 32.
Proof.
  destruct by_ as [|x t]; [discriminate|]. exists x, t. split; [reflexivity|].
  intros ->. cbn [map] in Hby. discriminate.
Qed.

Section Tail.
Variable tl : bytes.
Let s := crl kw n1 by_ n2 da n3 n4 db n5 dt tl.

Let s5 := dt ++ tl.
Let s4b := db ++ sp n5 ++ [47] ++ s5.
Let s4 := [45] ++ sp n4 ++ s4b.
Let s3 := da ++ sp n3 ++ s4.
Let s2 := by_ ++ sp n2 ++ s3.

Lemma F1 : skipn 14 s = sp n1 ++ s2.
Proof. apply skipn_exact. apply kw_len. Qed.

Lemma F3 : skipn (14 + n1) s = s2.
Proof. apply (skipn_step _ _ _ _ _ F1). apply repeat_length. Qed.

Lemma F5 : skipn (14 + n1 + 5) s = sp n2 ++ s3.
Proof. apply (skipn_step _ _ _ _ _ F3). apply by_len. Qed.

Lemma F7 : skipn o2 s = s3.
Proof. apply (skipn_step _ _ _ _ _ F5). apply repeat_length. Qed.

Lemma F9 : skipn (o2 + length da) s = sp n3 ++ s4.
Proof. apply (skipn_step _ _ _ _ _ F7). reflexivity. Qed.

Lemma F11 : skipn (o2 + length da + n3) s = s4.
Proof. apply (skipn_step _ _ _ _ _ F9). apply repeat_length. Qed.

Lemma F12 : skipn (o2 + length da + n3 + 1) s = sp n4 ++ s4b.
Proof. apply (skipn_step _ _ _ _ _ F11). reflexivity. Qed.

Lemma F13 : skipn o4 s = s4b.
Proof. apply (skipn_step _ _ _ _ _ F12). apply repeat_length. Qed.

Lemma F14 : skipn (o4 + length db) s = sp n5 ++ [47] ++ s5.
Proof. apply (skipn_step _ _ _ _ _ F13). reflexivity. Qed.

Lemma F15 : skipn (o4 + length db + n5) s = [47] ++ s5.
Proof. apply (skipn_step _ _ _ _ _ F14). apply repeat_length. Qed.

Lemma cr_at_crl : cr_at s = Some (o2, (o2 + length da)%nat, o4, (o4 + length db)%nat).
Proof.
  destruct by_head as (xb & tb & Eb & Hxb).
  destruct (digits_head _ Hda) as (xa & ta & Ea & Ha1 & Ha2).
  destruct (digits_head _ Hdb) as (xd & td & Ed & Hd1 & Hd2).
  destruct (digits_head _ Hdt) as (xt & tt & Et & Ht1 & Ht2).
  assert (G2 : span is_sp (sp n1 ++ s2) = n1).
  { unfold s2. rewrite Eb. cbn [app]. apply span_sp. exact Hxb. }
  assert (G4 : prefix_ic kw_bytes s2 = true).
  { unfold s2. apply prefix_ic_kw; [reflexivity|exact Hby]. }
  assert (G6 : span is_sp (sp n2 ++ s3) = n2).
  { unfold s3. rewrite Ea. cbn [app]. apply span_sp. lia. }
  assert (G8 : span is_dg s3 = length da).
  { unfold s3. apply span_run; [exact (proj2 Hda)|].
    unfold s4. cbn [app]. apply sp_head_not_dg. apply is_dg_not. lia. }
  assert (G10 : span is_sp (sp n3 ++ s4) = n3).
  { unfold s4. cbn [app]. apply span_sp. lia. }
  assert (G12 : span is_sp (sp n4 ++ s4b) = n4).
  { unfold s4b. rewrite Ed. cbn [app]. apply span_sp. lia. }
  assert (G13 : span is_dg s4b = length db).
  { unfold s4b. apply span_run; [exact (proj2 Hdb)|].
    cbn [app]. apply sp_head_not_dg. apply is_dg_not. lia. }
  assert (G14 : span is_sp (sp n5 ++ [47] ++ s5) = n5).
  { cbn [app]. apply span_sp. lia. }
  assert (G15 : (span is_dg s5 =? 0)%nat = false).
  { unfold s5. rewrite Et. cbn [app span].
    assert (Hx : is_dg xt = true).
    { unfold is_dg. apply andb_true_iff. split; apply N.leb_le; assumption. }
    rewrite Hx. reflexivity. }
  assert (Na : (length da =? 0)%nat = false).
  { rewrite Ea. reflexivity. }
  assert (Nb : (length db =? 0)%nat = false).
  { rewrite Ed. reflexivity. }
  unfold cr_at.
  assert (G0 : prefix_ic kw_cr s = true).
  { unfold s, crl. apply prefix_ic_kw; [reflexivity|exact Hkw]. }
  rewrite G0. cbv zeta.
  rewrite F1, G2, F3, G4, F5, G6. fold o2. rewrite F7, G8, Na, F9, G10, F11.
  unfold s4 at 1. cbn [app]. cbv beta iota.
  rewrite F12, G12. fold o4. rewrite F13, G13, Nb, F14, G14, F15.
  cbn [app]. cbv beta iota. rewrite G15. reflexivity.
Qed.

End Tail.
End CrShape.

(** * [last_cr]: nothing after the Content-Range line looks like one *)
Lemma cr_at_prefix s g : cr_at s = Some g -> prefix_ic kw_cr s = true.
Proof. unfold cr_at. destruct (prefix_ic kw_cr s); [reflexivity|discriminate]. Qed.

Lemma prefix_kw_head c t : prefix_ic kw_cr (c :: t) = true -> lower c = 99.
Proof.
  unfold kw_cr. cbn [prefix_ic]. intros E. apply andb_true_iff in E. destruct E as [E _].
  apply N.eqb_eq in E. rewrite <- E. reflexivity.
Qed.

Lemma kw_free_cons c s : lower c <> 99 -> kw_free s -> kw_free (c :: s).
Proof.
  intros Hc Hs [|k]; [|rewrite skipn_cons; apply Hs].
  rewrite skipn_O. destruct (prefix_ic kw_cr (c :: s)) eqn:E; [|reflexivity].
  apply prefix_kw_head in E. congruence.
Qed.

Lemma kw_free_app a s : Forall (fun c => lower c <> 99) a -> kw_free s -> kw_free (a ++ s).
Proof.
  induction a as [|c a IH]; intros Ha Hs; [exact Hs|].
  cbn [app]. apply kw_free_cons; [exact (Forall_inv Ha)|].
  apply IH; [exact (Forall_inv_tail Ha)|exact Hs].
Qed.

Lemma kw_free_tail c s : kw_free (c :: s) -> kw_free s.
Proof. intros H k. specialize (H (S k)). rewrite skipn_cons in H. exact H. Qed.

Lemma last_cr_none s : forall k, kw_free s -> last_cr s k = None.
Proof.
  induction s as [|c t IH]; intros k Hs; [reflexivity|].
  cbn [last_cr]. rewrite IH by (exact (kw_free_tail _ _ Hs)).
  destruct (cr_at (c :: t)) as [g|] eqn:E; [|reflexivity].
  apply cr_at_prefix in E. specialize (Hs 0%nat). rewrite skipn_O in Hs. congruence.
Qed.

Lemma last_cr_app_hit pre x s g : forall k,
  cr_at (x :: s) = Some g -> kw_free s ->
  last_cr (pre ++ x :: s) k = Some ((k + length pre)%nat, g).
Proof.
  induction pre as [|c pre IH]; intros k Hg Hs.
  - cbn [app last_cr length]. rewrite last_cr_none by exact Hs. rewrite Hg.
    rewrite Nat.add_0_r. reflexivity.
  - cbn [app last_cr length]. rewrite (IH (S k) Hg Hs).
    f_equal. f_equal. lia.
Qed.

Lemma not_c_map l m :
  map lower l = m -> forallb (fun c => negb (c =? 99)) m = true ->
  Forall (fun c => lower c <> 99) l.
Proof.
  intros <- H. rewrite forallb_forall in H. apply Forall_forall. intros c Hc.
  specialize (H (lower c) (in_map lower _ _ Hc)).
  apply negb_true_iff, N.eqb_neq in H. exact H.
Qed.

Lemma not_c_sp n : Forall (fun c => lower c <> 99) (sp n).
Proof.
  apply Forall_forall. intros c Hc. apply repeat_spec in Hc. subst c. discriminate.
Qed.

Lemma not_c_digits d : Forall (fun c => is_dg c = true) d -> Forall (fun c => lower c <> 99) d.
Proof.
  intros H. eapply Forall_impl; [|exact H]. intros c Hc. cbv beta in Hc.
  apply is_dg_range in Hc. rewrite lower_small by lia. lia.
Qed.

Lemma not_c_one c : c < 65 -> Forall (fun c => lower c <> 99) [c].
Proof. intros H. constructor; [|constructor]. rewrite lower_small by lia. lia. Qed.

(** * [find_ic] returns the first occurrence *)
Lemma find_ic_le d : forall q0 s k,
  prefix_ic d (skipn q0 s) = true -> exists q, find_ic d s k = Some q /\ (q <= k + q0)%nat.
Proof.
  induction q0 as [|q0 IH]; intros s k E.
  - rewrite skipn_O in E. exists k. split; [|lia].
    destruct s as [|x t]; cbn [find_ic]; rewrite E; reflexivity.
  - destruct s as [|x t].
    + rewrite skipn_nil in E. exists k. split; [|lia]. cbn [find_ic]. rewrite E. reflexivity.
    + rewrite skipn_cons in E. cbn [find_ic].
      destruct (prefix_ic d (x :: t)); [exists k; split; [reflexivity|lia]|].
      destruct (IH t (S k) E) as (q & Hq & Hle). exists q. split; [exact Hq|lia].
Qed.

(** * [take_exact] *)
Lemma take_exact_at (s d r : bytes) (so : nat) :
  skipn so s = d ++ r ->
  take_exact s (N.of_nat so) (N.of_nat (so + length d) - N.of_nat so) = Some d.
Proof.
  intros E. unfold take_exact. cbv zeta.
  replace (N.of_nat (so + length d) - N.of_nat so) with (N.of_nat (length d)) by lia.
  rewrite !Nat2N.id, E, firstn_exact by reflexivity.
  unfold len. rewrite N.eqb_refl. reflexivity.
Qed.

(** * (D) the matcher finds the Content-Range line of a well-formed part header *)
Theorem next_match_wf : forall B p rest,
  boundary_ok B -> part_hdr_ok p ->
  exists so1 eo1 so2 eo2,
    next_match B (hstr B p) = Some ((so1, eo1), (so2, eo2)) /\
    take_exact (hstr B p ++ rest) so1 (eo1 - so1) = Some (p_da p) /\
    take_exact (hstr B p ++ rest) so2 (eo2 - so2) = Some (p_db p).
Proof.
  intros B p rest _ (Hpre & Hbef & Haft & Hkw & Hby & Hda & Hdb & Hdt & Hfree).
  set (tail := crlf ++ render_lines (p_after p) ++ [13]).
  set (P := length (hdr_head B p)).
  set (o2 := (14 + p_sp1 p + 5 + p_sp2 p)%nat).
  set (o4 := (o2 + length (p_da p) + p_sp3 p + 1 + p_sp4 p)%nat).
  assert (Hs : forall tl, hstr B p ++ tl = hdr_head B p ++ cr_line p ++ tail ++ tl).
  { intros tl. unfold hstr, tail. rewrite <- !app_assoc. reflexivity. }
  assert (Hs0 : hstr B p = hdr_head B p ++ cr_line p ++ tail) by reflexivity.
  (* the Content-Range line parses *)
  pose proof (cr_at_crl _ (p_sp1 p) _ (p_sp2 p) _ (p_sp3 p) (p_sp4 p) _ (p_sp5 p) _
                        Hkw Hby Hda Hdb Hdt tail) as Hcr.
  rewrite <- cr_line_crl in Hcr. fold o2 o4 in Hcr.
  (* nothing later does *)
  assert (Hk : exists x kw', p_kw p = x :: kw' /\ map lower kw' = tl kw_cr).
  { destruct (p_kw p) as [|x kw']; [discriminate|]. exists x, kw'. split; [reflexivity|].
    cbn [map] in Hkw. rewrite <- Hkw. reflexivity. }
  destruct Hk as (x & kw' & Ekw & Hkw').
  assert (Hfree' : kw_free (kw' ++ sp (p_sp1 p) ++ p_bytes p ++ sp (p_sp2 p) ++ p_da p ++
                   sp (p_sp3 p) ++ [45] ++ sp (p_sp4 p) ++ p_db p ++ sp (p_sp5 p) ++ [47] ++
                   p_dt p ++ tail)).
  { apply kw_free_app; [eapply not_c_map; [exact Hkw'|reflexivity]|].
    apply kw_free_app; [apply not_c_sp|].
    apply kw_free_app; [eapply not_c_map; [exact Hby|reflexivity]|].
    apply kw_free_app; [apply not_c_sp|].
    apply kw_free_app; [apply not_c_digits; exact (proj2 Hda)|].
    apply kw_free_app; [apply not_c_sp|].
    apply kw_free_app; [apply not_c_one; lia|].
    apply kw_free_app; [apply not_c_sp|].
    apply kw_free_app; [apply not_c_digits; exact (proj2 Hdb)|].
    apply kw_free_app; [apply not_c_sp|].
    apply kw_free_app; [apply not_c_one; lia|].
    apply kw_free_app; [apply not_c_digits; exact (proj2 Hdt)|].
    unfold tail, crlf. cbn [app].
    apply kw_free_cons; [discriminate|]. apply kw_free_cons; [discriminate|]. exact Hfree. }
  assert (Hline : cr_line p ++ tail =
                  x :: kw' ++ sp (p_sp1 p) ++ p_bytes p ++ sp (p_sp2 p) ++ p_da p ++
                   sp (p_sp3 p) ++ [45] ++ sp (p_sp4 p) ++ p_db p ++ sp (p_sp5 p) ++ [47] ++
                   p_dt p ++ tail).
  { unfold cr_line. rewrite Ekw, <- !app_assoc. reflexivity. }
  assert (Hlast : last_cr (hstr B p) 0 =
                  Some (P, (o2, (o2 + length (p_da p))%nat, o4, (o4 + length (p_db p))%nat))).
  { rewrite Hs0, Hline. rewrite Hline in Hcr.
    rewrite (last_cr_app_hit _ _ _ _ 0%nat Hcr Hfree'). reflexivity. }
  (* the delimiter occurs inside the head *)
  assert (Hhead : hdr_head B p = p_lead p ++ delim B ++ render_lines (p_before p)).
  { unfold hdr_head, delim, crlf. cbn [app]. rewrite <- app_assoc. reflexivity. }
  destruct (find_ic_le (delim B) (length (p_lead p)) (hstr B p) 0%nat) as (q & Hq & Hqle).
  { rewrite Hs0, Hhead, <- !app_assoc. rewrite skipn_exact by reflexivity. apply prefix_ic_self. }
  assert (HqP : (q + length (delim B) <= P)%nat).
  { unfold P. rewrite Hhead, !app_length. lia. }
  exists (N.of_nat (P + o2)), (N.of_nat (P + (o2 + length (p_da p)))),
         (N.of_nat (P + o4)), (N.of_nat (P + (o4 + length (p_db p)))).
  split; [|split].
  - unfold next_match. rewrite Hlast, Hq.
    apply Nat.leb_le in HqP. rewrite HqP. reflexivity.
  - rewrite Nat.add_assoc. apply take_exact_at with
      (r := sp (p_sp3 p) ++ [45] ++ sp (p_sp4 p) ++ p_db p ++ sp (p_sp5 p) ++ [47] ++ p_dt p ++ tail ++ rest).
    rewrite Hs, skipn_add. unfold P. rewrite skipn_exact by reflexivity.
    rewrite cr_line_crl. unfold o2.
    apply (F7 _ _ _ _ _ _ _ _ _ _ Hkw Hby).
  - rewrite Nat.add_assoc. apply take_exact_at with
      (r := sp (p_sp5 p) ++ [47] ++ p_dt p ++ tail ++ rest).
    rewrite Hs, skipn_add. unfold P. rewrite skipn_exact by reflexivity.
    rewrite cr_line_crl. unfold o4, o2.
    apply (F13 _ _ _ _ _ _ _ _ _ _ Hkw Hby).
Qed.

(** * (A) Pattern decoding *)
Lemma unescape_cons c t : c <> 92 -> unescape (c :: t) = c :: unescape t.
Proof.
  intros Hc. cbn [unescape]. rewrite match92.
  destruct (c =? 92) eqn:E; [apply N.eqb_eq in E; congruence|reflexivity].
Qed.

Lemma unescape_escape : forall B, unescape (escape_ere B) = B.
Proof.
  induction B as [|c t IH]; [reflexivity|].
  cbn [escape_ere]. destruct (is_meta c) eqn:E.
  - cbn [unescape]. rewrite IH. reflexivity.
  - rewrite unescape_cons; [rewrite IH; reflexivity|].
    intros ->. vm_compute in E. discriminate.
Qed.

Lemma pat_next_eq B : pat_next B = pre_next ++ escape_ere B ++ suf_next.
Proof. reflexivity. Qed.

Lemma pat_end_eq B : pat_end B = pre_end ++ escape_ere B ++ suf_end.
Proof. reflexivity. Qed.

Lemma strip_ok pre suf e : strip pre suf (pre ++ e ++ suf) = Some e.
Proof.
  unfold strip. cbv zeta. rewrite !app_length.
  assert (L : (length pre + length suf <=? length pre + (length e + length suf))%nat = true).
  { apply Nat.leb_le. lia. }
  rewrite L. rewrite firstn_exact by reflexivity.
  replace (length pre + (length e + length suf) - length suf)%nat with (length pre + length e)%nat by lia.
  rewrite app_assoc, skipn_exact by (rewrite app_length; reflexivity).
  rewrite <- app_assoc, skipn_exact by reflexivity.
  replace (length pre + (length e + length suf) - length pre - length suf)%nat with (length e) by lia.
  rewrite firstn_exact by reflexivity.
  rewrite !(proj2 (bytes_eqb_eq _ _) eq_refl). reflexivity.
Qed.

Lemma lit_exec_next : forall B str, lit_exec (pat_next B) str = next_match B str.
Proof.
  intros B str. unfold lit_exec.
  assert (E : bytes_eqb (pat_next B) pat_hdr = false) by reflexivity.
  rewrite E, pat_next_eq, strip_ok, unescape_escape. reflexivity.
Qed.

Lemma strip_next_end B : strip pre_next suf_next (pat_end B) = None.
Proof.
  unfold strip. cbv zeta.
  assert (E : bytes_eqb (firstn (length pre_next) (pat_end B)) pre_next = false).
  { rewrite pat_end_eq. unfold pre_end, pre_next. cbn [length app firstn bytes_eqb].
    reflexivity. }
  rewrite E, andb_false_r. reflexivity.
Qed.

Lemma lit_exec_end : forall B str,
  lit_exec (pat_end B) str = (if end_match B str then Some ((0,0),(0,0)) else None).
Proof.
  intros B str. unfold lit_exec.
  assert (E : bytes_eqb (pat_end B) pat_hdr = false) by reflexivity.
  rewrite E, strip_next_end, pat_end_eq, strip_ok, unescape_escape. reflexivity.
Qed.

Lemma lit_exec_hdr : forall str, lit_exec pat_hdr str = hdr_match str.
Proof. intros str. unfold lit_exec. rewrite (proj2 (bytes_eqb_eq _ _) eq_refl). reflexivity. Qed.

(** * (B) The literal matcher obeys the [regexec] contract *)
Lemma cr_at_bounds s a b c d :
  cr_at s = Some (a, b, c, d) -> (a <= b /\ b <= c /\ c <= d /\ d <= length s)%nat.
Proof.
  unfold cr_at. destruct (prefix_ic kw_cr s); [|discriminate]. cbv zeta.
  remember ((14 + span is_sp (skipn 14 s))%nat) as o1 eqn:Eo1.
  destruct (prefix_ic kw_bytes (skipn o1 s)); [|discriminate].
  remember ((o1 + 5 + span is_sp (skipn (o1 + 5) s))%nat) as o2 eqn:Eo2.
  remember (span is_dg (skipn o2 s)) as d1 eqn:Ed1.
  destruct (d1 =? 0)%nat; [discriminate|].
  remember ((o2 + d1 + span is_sp (skipn (o2 + d1) s))%nat) as o3 eqn:Eo3.
  destruct (skipn o3 s) as [|x r3] eqn:E3; [discriminate|].
  rewrite match45. destruct (x =? 45); [|discriminate].
  remember ((o3 + 1 + span is_sp (skipn (o3 + 1) s))%nat) as o4 eqn:Eo4.
  remember (span is_dg (skipn o4 s)) as d2 eqn:Ed2.
  destruct (d2 =? 0)%nat; [discriminate|].
  remember ((o4 + d2 + span is_sp (skipn (o4 + d2) s))%nat) as o5 eqn:Eo5.
  destruct (skipn o5 s) as [|y r5] eqn:E5; [discriminate|].
  rewrite match47. destruct (y =? 47); [|discriminate].
  destruct (span is_dg r5 =? 0)%nat; [discriminate|].
  intros H. injection H as Ha Hb Hc Hd.
  apply skipn_cons_lt in E5. lia.
Qed.

Lemma last_cr_spec s : forall k p g,
  last_cr s k = Some (p, g) ->
  exists j, p = (k + j)%nat /\ (j < length s)%nat /\ cr_at (skipn j s) = Some g.
Proof.
  induction s as [|c t IH]; intros k p g; cbn [last_cr]; [discriminate|].
  destruct (last_cr t (S k)) as [[p' g']|] eqn:E.
  - intros H. inversion H. subst p' g'.
    destruct (IH _ _ _ E) as (j & Hp & Hj & Hc).
    exists (S j). rewrite skipn_cons. cbn [length]. split; [lia|]. split; [lia|exact Hc].
  - destruct (cr_at (c :: t)) as [g'|] eqn:Ec; [|discriminate].
    intros H. inversion H. subst p g'.
    exists 0%nat. rewrite skipn_O. cbn [length]. split; [lia|]. split; [lia|exact Ec].
Qed.

Lemma next_match_bounds B str so1 eo1 so2 eo2 :
  next_match B str = Some ((so1, eo1), (so2, eo2)) ->
  so1 <= eo1 /\ eo1 <= len str /\ so2 <= eo2 /\ eo2 <= len str.
Proof.
  unfold next_match.
  destruct (last_cr str 0) as [[p [[[a b] c] d]]|] eqn:E; [|discriminate].
  destruct (find_ic (delim B) str 0) as [q|]; [|discriminate].
  destruct (q + length (delim B) <=? p)%nat; [|discriminate].
  intros H. inversion H. subst so1 eo1 so2 eo2.
  destruct (last_cr_spec _ _ _ _ E) as (j & Hp & Hj & Hc).
  apply cr_at_bounds in Hc. rewrite skipn_length in Hc. unfold len. lia.
Qed.

Lemma last_index_spec x s : forall k j,
  last_index x s k = Some j -> exists i, j = (k + i)%nat /\ nth_error s i = Some x.
Proof.
  induction s as [|c t IH]; intros k j; cbn [last_index]; [discriminate|].
  destruct (last_index x t (S k)) as [j'|] eqn:E.
  - intros H. inversion H. subst j'. destruct (IH _ _ E) as (i & Hj & Hn).
    exists (S i). split; [lia|exact Hn].
  - destruct (c =? x) eqn:Ec; [|discriminate]. apply N.eqb_eq in Ec. subst c.
    intros H. inversion H. subst j. exists 0%nat. split; [lia|reflexivity].
Qed.

Lemma hdr_at_bounds s a b : hdr_at s = Some (a, b) -> (a <= b /\ b <= length s)%nat.
Proof.
  unfold hdr_at. destruct (prefix_ic kw_boundary s); [|discriminate]. cbv zeta.
  remember ((8 + span is_sp (skipn 8 s))%nat) as o1 eqn:Eo1.
  destruct (skipn o1 s) as [|x r] eqn:E; [discriminate|].
  rewrite match61. destruct (x =? 61); [|discriminate].
  destruct (last_index 13 r 0) as [j|] eqn:El; [|discriminate].
  intros H. injection H as Ha Hb.
  destruct (last_index_spec _ _ _ _ El) as (i & Hj & Hn). cbn [Nat.add] in Hj. subst i.
  assert (Hsp : (span is_sp r <= j)%nat) by (eapply span_nth; [exact Hn|reflexivity]).
  assert (Hjr : (j < length r)%nat) by (apply nth_error_Some; congruence).
  pose proof (skipn_length o1 s) as L. rewrite E in L. cbn [length] in L. lia.
Qed.

Lemma hdr_first_spec s : forall k a b,
  hdr_first s k = Some (a, b) -> (a <= b /\ b <= k + length s)%nat.
Proof.
  induction s as [|c t IH]; intros k a b; cbn [hdr_first]; [discriminate|].
  destruct (hdr_at (c :: t)) as [[a' b']|] eqn:E.
  - intros H. inversion H. subst a b. apply hdr_at_bounds in E. lia.
  - intros H. apply IH in H. cbn [length]. lia.
Qed.

Lemma hdr_match_bounds str so1 eo1 so2 eo2 :
  hdr_match str = Some ((so1, eo1), (so2, eo2)) ->
  so1 <= eo1 /\ eo1 <= len str /\ so2 <= eo2 /\ eo2 <= len str.
Proof.
  unfold hdr_match. destruct (hdr_first str 0) as [[a b]|] eqn:E; [|discriminate].
  intros H. inversion H. subst so1 eo1 so2 eo2.
  apply hdr_first_spec in E. unfold len. lia.
Qed.

Theorem lit_contract : rx_contract lit_exec.
Proof.
  intros pat str so1 eo1 so2 eo2. unfold lit_exec.
  destruct (bytes_eqb pat pat_hdr); [apply hdr_match_bounds|].
  destruct (strip pre_next suf_next pat) as [e|]; [apply next_match_bounds|].
  destruct (strip pre_end suf_end pat) as [e|]; [|discriminate].
  destruct (end_match (unescape e) str); [|discriminate].
  intros H. inversion H. unfold len. lia.
Qed.

(** * (C) Digits *)
Lemma digit_val_dg c : is_dg c = true -> digit_val c = c - 48.
Proof.
  intros H. apply is_dg_range in H. unfold digit_val.
  assert (E : c <? 128 = true) by (apply N.ltb_lt; lia). rewrite E.
  replace (c + two64 - 48) with (c - 48 + 1 * two64) by (unfold two64; lia).
  rewrite N.mod_add by (unfold two64; lia). apply N.mod_small. unfold two64. lia.
Qed.

Lemma dec_value_snoc d c : dec_value (d ++ [c]) = dec_value d * 10 + (c - 48).
Proof. unfold dec_value. rewrite fold_left_app. reflexivity. Qed.

Lemma parse_dec_snoc d c : parse_dec (d ++ [c]) = u64 (parse_dec d * 10 + digit_val c).
Proof. unfold parse_dec. rewrite fold_left_app. reflexivity. Qed.

Lemma parse_dec_value : forall d,
  Forall (fun c => is_dg c = true) d -> dec_value d < two64 -> parse_dec d = dec_value d.
Proof.
  induction d as [|c d IH] using rev_ind; intros Hd Hv; [reflexivity|].
  apply Forall_app in Hd. destruct Hd as [Hd Hc]. apply Forall_inv in Hc.
  rewrite dec_value_snoc in *. rewrite parse_dec_snoc.
  rewrite digit_val_dg by exact Hc.
  rewrite IH; [apply u64_small; exact Hv|exact Hd|]. lia.
Qed.

(** * (E) The header-line pattern on a well-formed Content-Type line *)
Lemma last_index_none x s : forall k, ~ In x s -> last_index x s k = None.
Proof.
  induction s as [|c t IH]; intros k Hn; [reflexivity|].
  cbn [last_index]. rewrite IH by (intros Hi; apply Hn; right; exact Hi).
  destruct (c =? x) eqn:E; [|reflexivity].
  apply N.eqb_eq in E. exfalso. apply Hn. left. exact E.
Qed.

Lemma last_index_app x v r : forall k,
  ~ In x r -> last_index x (v ++ x :: r) k = Some (k + length v)%nat.
Proof.
  induction v as [|c v IH]; intros k Hn.
  - cbn [app last_index length]. rewrite last_index_none by exact Hn.
    rewrite N.eqb_refl, Nat.add_0_r. reflexivity.
  - cbn [app last_index length]. rewrite IH by exact Hn. f_equal. lia.
Qed.

Lemma hdr_first_hit pre x s a b : forall k,
  (forall j, (j < length pre)%nat -> hdr_at (skipn j (pre ++ x :: s)) = None) ->
  hdr_at (x :: s) = Some (a, b) ->
  hdr_first (pre ++ x :: s) k = Some ((k + length pre + a)%nat, (k + length pre + b)%nat).
Proof.
  induction pre as [|c pre IH]; intros k Hn Hh.
  - cbn [app hdr_first length]. rewrite Hh. rewrite !Nat.add_0_r. reflexivity.
  - cbn [app hdr_first length].
    pose proof (Hn 0%nat) as H0. rewrite skipn_O in H0. cbn [app length] in H0.
    rewrite H0 by lia.
    rewrite IH; [f_equal; f_equal; lia| |exact Hh].
    intros j Hj. specialize (Hn (S j)). cbn [app] in Hn. rewrite skipn_cons in Hn.
    apply Hn. cbn [length]. lia.
Qed.

Theorem hdr_match_wf : forall pre B quoted,
  (forall k, (k < length pre)%nat -> prefix_ic kw_boundary (skipn k (pre ++ kw_boundary)) = false) ->
  Forall (fun c => c <> 0 /\ c <> 13) B -> B <> [] ->
  (quoted = false -> hd 0 B <> 32) ->
  let v := if quoted then [34] ++ B ++ [34] else B in
  hdr_match (ct_line pre B quoted) =
    Some ((N.of_nat (length pre + 9), N.of_nat (length pre + 9 + length v)), (0, 0)).
Proof.
  intros pre B quoted Hpre HB Hne Hq v.
  assert (Hline : ct_line pre B quoted = pre ++ 98 :: tl kw_boundary ++ 61 :: v ++ crlf).
  { unfold ct_line. fold v. reflexivity. }
  (* the value: starts with a non-space, holds no CR *)
  assert (Hv13 : ~ In 13 v).
  { assert (HB13 : ~ In 13 B).
    { intros Hi. rewrite Forall_forall in HB. destruct (HB _ Hi) as [_ H]. congruence. }
    unfold v. destruct quoted; [|exact HB13].
    cbn [app]. intros [Hi|Hi]; [discriminate|].
    apply in_app_or in Hi. destruct Hi as [Hi|[Hi|[]]]; [exact (HB13 Hi)|discriminate]. }
  assert (Hv0 : exists x t, v = x :: t /\ x <> 32).
  { unfold v. destruct quoted.
    - cbn [app]. eexists _, _. split; [reflexivity|discriminate].
    - destruct B as [|x t]; [congruence|]. exists x, t. split; [reflexivity|].
      exact (Hq eq_refl). }
  destruct Hv0 as (xv & tv & Ev & Hxv).
  assert (Hat : hdr_at (kw_boundary ++ 61 :: v ++ crlf) = Some (9%nat, (9 + length v)%nat)).
  { unfold hdr_at. rewrite prefix_ic_self. cbv zeta.
    unfold kw_boundary. cbn [app skipn span]. change (is_sp 61) with false.
    cbv beta iota. cbn [Nat.add skipn]. cbv beta iota.
    unfold crlf.
    match goal with |- match ?t with _ => _ end = _ =>
      replace t with (Some (0 + length v)%nat)
        by (symmetry; apply (last_index_app 13 v [10] 0%nat); intros [H|[]]; discriminate)
    end.
    rewrite Ev. cbn [app span].
    assert (Es : is_sp xv = false) by (apply N.eqb_neq; exact Hxv).
    rewrite Es. f_equal. }
  assert (Hnone : forall j, (j < length pre)%nat ->
            hdr_at (skipn j (pre ++ 98 :: tl kw_boundary ++ 61 :: v ++ crlf)) = None).
  { intros j Hj. unfold hdr_at.
    assert (E : prefix_ic kw_boundary
                  (skipn j (pre ++ 98 :: tl kw_boundary ++ 61 :: v ++ crlf)) = false).
    { specialize (Hpre j Hj).
      change (98 :: tl kw_boundary ++ 61 :: v ++ crlf)
        with (kw_boundary ++ 61 :: v ++ crlf).
      rewrite app_assoc, skipn_app.
      replace (j - length (pre ++ kw_boundary))%nat with 0%nat by (rewrite app_length; lia).
      rewrite skipn_O, prefix_ic_short; [exact Hpre|].
      rewrite skipn_length, app_length.
      change (length kw_boundary) with 8%nat. lia. }
    rewrite E. reflexivity. }
  pose proof (hdr_first_hit pre 98 (tl kw_boundary ++ 61 :: v ++ crlf) _ _ 0%nat Hnone Hat) as HF.
  unfold hdr_match. rewrite Hline.
  match goal with |- match ?t with _ => _ end = _ =>
    replace t with (Some ((0 + length pre + 9)%nat, (0 + length pre + (9 + length v))%nat))
      by (symmetry; exact HF)
  end.
  f_equal. f_equal. f_equal; f_equal; lia.
Qed.

Print Assumptions lit_contract.
Print Assumptions next_match_wf.
Print Assumptions hdr_match_wf.
Print Assumptions lit_exec_next.
Print Assumptions parse_dec_value.
Print Assumptions unescape_escape.
Print Assumptions lit_exec_end.
Print Assumptions lit_exec_hdr.
