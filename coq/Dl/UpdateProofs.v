(** Proofs about the chunk-level update procedure ([Dl/Update.v]): termination within the
    explicit fuel, convergence to the new file, the exact request set, and the restart
    properties (C04 / C11). *)
From ZV Require Import Base.Bytes Gen.GenConsts Dl.Update.
Local Open Scope N_scope.

(* ------------------------------------------------------------------------------------ *)
(** * bytes *)

Lemma bytes_eqb_eq a : forall b, bytes_eqb a b = true <-> a = b.
Proof.
  induction a as [|x a IH]; intros [|y b]; cbn [bytes_eqb]; split; intro H;
    try reflexivity; try discriminate.
  - apply andb_true_iff in H. destruct H as [H1 H2]. apply N.eqb_eq in H1. apply IH in H2. congruence.
  - inversion H; subst. apply andb_true_iff. split; [apply N.eqb_refl | apply IH; reflexivity].
Qed.

Lemma bytes_eqb_refl a : bytes_eqb a a = true.
Proof. apply bytes_eqb_eq. reflexivity. Qed.

Definition bytes_eq_dec : forall a b : bytes, {a = b} + {a <> b} := list_eq_dec N.eq_dec.

Lemma len_zero_nil (d : bytes) : len d = 0 -> d = [].
Proof. destruct d; [reflexivity|]. unfold len. cbn [length]. lia. Qed.

Lemma len_firstn_skipn (k : nat) (a b : bytes) :
  (k <= length a)%nat -> length (firstn k a ++ skipn k b) = Nat.max k (length b).
Proof. intros H. rewrite app_length, firstn_length, skipn_length. lia. Qed.

(* ------------------------------------------------------------------------------------ *)
(** * the back-off table *)

Definition table_okb : bool :=
  (0 <? length range_attempt)%nat &&
  forallb (fun i => match tbl i with
                    | Some a => if 1 <? a then match tbl (S i) with Some _ => true | None => false end else true
                    | None => true
                    end) (seq 0 (length range_attempt)).

(** every entry above 1 has a successor (the table ends with an entry <= 1): checked on the
    table scraped from zck_dl.c *)
Lemma table_ok : table_okb = true.
Proof. vm_compute. reflexivity. Qed.

Lemma tbl_some_lt i a : tbl i = Some a -> (i < length range_attempt)%nat.
Proof. unfold tbl. intros H. apply nth_error_Some. congruence. Qed.

Lemma tbl_lt_some i : (i < length range_attempt)%nat -> exists a, tbl i = Some a.
Proof.
  unfold tbl. intros H. destruct (nth_error range_attempt i) eqn:E; [eauto|].
  apply nth_error_None in E. lia.
Qed.

Lemma tbl_succ i a : tbl i = Some a -> 1 < a -> exists b, tbl (S i) = Some b.
Proof.
  intros Hi Ha. pose proof table_ok as T. unfold table_okb in T.
  apply andb_true_iff in T. destruct T as [_ T]. rewrite forallb_forall in T.
  specialize (T i). rewrite Hi in T.
  assert (In i (seq 0 (length range_attempt))) as Hin.
  { apply in_seq. pose proof (tbl_some_lt _ _ Hi). lia. }
  specialize (T Hin). apply N.ltb_lt in Ha. rewrite Ha in T.
  destruct (tbl (S i)); [eauto | discriminate].
Qed.

Lemma tbl_0 : exists m, tbl 0 = Some m.
Proof.
  apply tbl_lt_some. pose proof table_ok as T. unfold table_okb in T.
  apply andb_true_iff in T. destruct T as [T _]. apply Nat.ltb_lt in T. exact T.
Qed.

Lemma advance_ok : forall k ra c,
  (ra < length range_attempt)%nat -> (length range_attempt - ra <= k)%nat ->
  exists ra1, advance k ra c = Some ra1 /\ (ra <= ra1)%nat /\ (ra1 < length range_attempt)%nat /\
              (ra1 = ra \/ exists b, tbl ra1 = Some b /\ c < b).
Proof.
  induction k as [|k IH]; intros ra c Hra Hk; [lia|].
  destruct (tbl_lt_some _ Hra) as [a Ea].
  cbn [advance]. rewrite Ea.
  destruct (1 <? a) eqn:E1.
  - apply N.ltb_lt in E1. destruct (tbl_succ _ _ Ea E1) as [b Eb]. rewrite Eb.
    destruct (c <? b) eqn:E2.
    + apply N.ltb_lt in E2. pose proof (tbl_some_lt _ _ Eb) as Hs.
      destruct (IH (S ra) c Hs ltac:(lia)) as [ra1 [H1 [H2 [H3 H4]]]].
      exists ra1. split; [exact H1|]. split; [lia|]. split; [exact H3|].
      right. destruct H4 as [-> | H4]; [eauto | exact H4].
    + exists ra. repeat split; try lia; auto.
  - exists ra. repeat split; try lia; auto.
Qed.

(* ------------------------------------------------------------------------------------ *)
(** * dl_header: request ranges and descriptor position *)

(** With the position restored (the code after the D33 fix) [zck_read_header] starts
    reading exactly behind the bytes the library already holds, for every lead length. *)
Lemma dl_header_pos_ok lead hlen :
  hf_pos (dl_header_fetch true lead hlen) = hf_loaded (dl_header_fetch true lead hlen).
Proof. unfold dl_header_fetch. destruct (_ <? _); reflexivity. Qed.

(** every header byte is requested exactly once: one probe [0, 88], then [89, total-1]
    exactly when the header is longer than the probe *)
Lemma dl_header_requests restore lead hlen :
  hf_requests (dl_header_fetch restore lead hlen) =
    if min_download <? lead + hlen then [(0, min_download - 1); (min_download, lead + hlen - 1)]
    else [(0, min_download - 1)].
Proof. unfold dl_header_fetch. destruct (_ <? _); reflexivity. Qed.

(** the code before the fix was right exactly when the lead is not shorter than the 25
    bytes read_lead consumes, or the header fits into the probe *)
Lemma dl_header_pos_old lead hlen :
  hf_pos (dl_header_fetch false lead hlen) = hf_loaded (dl_header_fetch false lead hlen) <->
  (lead_preread <= lead \/ lead + hlen <= min_download).
Proof.
  unfold dl_header_fetch. destruct (min_download <? lead + hlen) eqn:E; cbn [hf_pos hf_loaded].
  - apply N.ltb_lt in E. split; intro H; [left; lia | destruct H; lia].
  - apply N.ltb_ge in E. split; intro H; [right; exact E | reflexivity].
Qed.

(* ------------------------------------------------------------------------------------ *)
Section P.
Variable Hc : bytes -> bytes.
Variable Hf : bytes -> bytes.

Definition collision : Prop := exists x y : bytes, x <> y /\ Hc x = Hc y.

Local Notation chunk_ok := (chunk_ok Hc).
Local Notation digest_ok := (digest_ok Hc).
Local Notation scan_flag := (scan_flag Hc).
Local Notation scan_flags := (scan_flags Hc).
Local Notation find_valid := (find_valid Hc Hf).
Local Notation copy_one := (copy_one Hc).
Local Notation copy_chunks := (copy_chunks Hc).
Local Notation place := (place Hc).
Local Notation validate_data := (validate_data Hc Hf).
Local Notation finish := (finish Hc Hf).
Local Notation dl_loop := (dl_loop Hc Hf).
Local Notation update := (update Hc Hf).
Local Notation needed := (needed Hc).
Local Notation usable_in := (usable_in Hc).

(** B is a valid file: every chunk's stored bytes have the stored length and pass
    [validate_chunk] (so the index digest of a zero-length chunk is all zeros); the data
    digest is the overall checksum of the data section. *)
Definition srv_ok (s : slot) : Prop := chunk_ok (s_chunk s) (s_srv s) = true.
Definition wf_new (B : newfile) (sl : list slot) : Prop :=
  Forall srv_ok sl /\
  (b_uncomp B = false -> Hf (concat (map s_srv sl)) = b_ddigest B).

(** the target is a file: an extent never holds more bytes than its length *)
Definition fits (s : slot) : Prop := len (s_cur s) <= c_clen (s_chunk s).
Definition wf_target (T : target) : Prop := Forall fits (t_slots T).

(** invariant of every slot during the run *)
Definition good (s : slot) : Prop :=
  srv_ok s /\ (s_flag s = Valid -> chunk_ok (s_chunk s) (s_cur s) = true).
Definition shape (sl : list slot) : list (chunk * bytes) := map (fun s => (s_chunk s, s_srv s)) sl.

Lemma chunk_ok_split c d : chunk_ok c d = true <-> len d = c_clen c /\ digest_ok c d = true.
Proof.
  unfold Update.chunk_ok, complete. rewrite andb_true_iff, N.eqb_eq. tauto.
Qed.

Lemma chunk_ok_eq_or_collision c x y :
  chunk_ok c x = true -> chunk_ok c y = true -> x = y \/ collision.
Proof.
  intros Hx Hy. apply chunk_ok_split in Hx. apply chunk_ok_split in Hy.
  destruct Hx as [Lx Dx], Hy as [Ly Dy].
  destruct (bytes_eq_dec x y) as [E|E]; [left; exact E|].
  unfold Update.digest_ok in Dx, Dy. destruct (c_clen c =? 0) eqn:Z.
  - apply N.eqb_eq in Z. rewrite Z in Lx, Ly.
    apply len_zero_nil in Lx. apply len_zero_nil in Ly. left. congruence.
  - right. exists x, y. split; [exact E|].
    apply bytes_eqb_eq in Dx. apply bytes_eqb_eq in Dy. congruence.
Qed.

(* ---------------------------------------------------------------------------------- *)
(** ** header fetch *)

Lemma write_prefix_shape : forall sl p, shape (write_prefix p sl) = shape sl.
Proof.
  induction sl as [|s sl IH]; intros p; [reflexivity|].
  cbn [write_prefix]. destruct (p =? 0); [reflexivity|].
  unfold shape in *. cbn [map set_cur s_chunk s_srv]. f_equal. apply IH.
Qed.

Lemma write_prefix_fits : forall sl p,
  Forall srv_ok sl -> Forall fits sl -> Forall fits (write_prefix p sl).
Proof.
  induction sl as [|s sl IH]; intros p Hs Hf'; [constructor|].
  cbn [write_prefix]. destruct (p =? 0); [exact Hf'|].
  inversion Hs as [|? ? Hs1 Hs2]; subst. inversion Hf' as [|? ? Hf1 Hf2]; subst.
  constructor; [|apply IH; assumption].
  unfold fits in *. cbn [set_cur s_cur s_chunk].
  apply chunk_ok_split in Hs1. destruct Hs1 as [L _].
  unfold len in *. rewrite len_firstn_skipn by lia. lia.
Qed.

Lemma write_prefix_srv_ok : forall sl p, Forall srv_ok sl -> Forall srv_ok (write_prefix p sl).
Proof.
  induction sl as [|s sl IH]; intros p Hs; [constructor|].
  cbn [write_prefix]. destruct (p =? 0); [exact Hs|].
  inversion Hs; subst. constructor; [assumption | apply IH; assumption].
Qed.

(** an extent that already holds B's bytes still holds them after the probe *)
Lemma write_prefix_keeps : forall sl p i s,
  nth_error sl i = Some s -> s_cur s = s_srv s ->
  exists s', nth_error (write_prefix p sl) i = Some s' /\ s_cur s' = s_srv s' /\
             s_chunk s' = s_chunk s /\ s_srv s' = s_srv s.
Proof.
  induction sl as [|s0 sl IH]; intros p i s Hn He; [destruct i; discriminate|].
  cbn [write_prefix]. destruct (p =? 0); [exists s; auto|].
  destruct i as [|i]; cbn [nth_error] in *.
  - inversion Hn; subst. eexists. split; [reflexivity|].
    cbn [set_cur s_cur s_srv s_chunk]. rewrite He, firstn_skipn. auto.
  - apply IH; assumption.
Qed.

(* ---------------------------------------------------------------------------------- *)
(** ** validity scan *)

Lemma scan_flags_shape : forall sl first, shape (scan_flags first sl) = shape sl.
Proof.
  induction sl as [|s sl IH]; intros first; [reflexivity|].
  cbn [Update.scan_flags]. unfold shape in *. cbn [map set_flag s_chunk s_srv]. f_equal. apply IH.
Qed.

Lemma scan_flags_cur : forall sl first, map s_cur (scan_flags first sl) = map s_cur sl.
Proof.
  induction sl as [|s sl IH]; intros first; [reflexivity|].
  cbn [Update.scan_flags map set_flag s_cur]. f_equal. apply IH.
Qed.

(** a zero-length extent of a valid B always passes the test *)
Lemma zero_len_ok s : srv_ok s -> fits s -> c_clen (s_chunk s) = 0 -> chunk_ok (s_chunk s) (s_cur s) = true.
Proof.
  intros Hs Hfit Z. unfold fits in Hfit. rewrite Z in Hfit.
  assert (s_cur s = []) as E by (apply len_zero_nil; lia).
  apply chunk_ok_split in Hs. destruct Hs as [_ D].
  apply chunk_ok_split. rewrite E. split; [rewrite Z; reflexivity|].
  unfold Update.digest_ok in *. rewrite Z in *. cbn [N.eqb] in *. exact D.
Qed.

Lemma scan_flag_valid first s :
  srv_ok s -> fits s -> scan_flag first s = Valid -> chunk_ok (s_chunk s) (s_cur s) = true.
Proof.
  intros Hs Hfit. unfold Update.scan_flag. destruct (skipped first (s_chunk s)) eqn:K.
  - intros _. unfold skipped in K. apply andb_true_iff in K. destruct K as [_ K]. apply N.eqb_eq in K.
    apply zero_len_ok; assumption.
  - destruct (chunk_ok _ _); [reflexivity | discriminate].
Qed.

Lemma scan_flag_zero first s :
  srv_ok s -> fits s -> c_clen (s_chunk s) = 0 -> scan_flag first s = Valid.
Proof.
  intros Hs Hfit Z. unfold Update.scan_flag. destruct (skipped _ _); [reflexivity|].
  rewrite (zero_len_ok s Hs Hfit Z). reflexivity.
Qed.

Lemma scan_flags_good : forall sl first,
  Forall srv_ok sl -> Forall fits sl -> Forall good (scan_flags first sl).
Proof.
  induction sl as [|s sl IH]; intros first Hs Hfit; [constructor|].
  inversion Hs; subst. inversion Hfit; subst.
  cbn [Update.scan_flags]. constructor.
  - split; [assumption|]. cbn [set_flag s_flag s_chunk s_cur].
    apply scan_flag_valid; assumption.
  - apply IH; assumption.
Qed.

Lemma all_valid_spec sl : all_valid sl = true <-> Forall (fun s => s_flag s = Valid) sl.
Proof.
  unfold all_valid. rewrite forallb_forall, Forall_forall.
  split; intros H s Hin; specialize (H s Hin); destruct (s_flag s); cbn in *; congruence.
Qed.

Lemma good_eq_or_collision : forall sl,
  Forall good sl -> Forall (fun s => s_flag s = Valid) sl ->
  map s_cur sl = map s_srv sl \/ collision.
Proof.
  induction sl as [|s sl IH]; intros G V; [left; reflexivity|].
  inversion G as [|? ? [G1 G2] G3]; subst. inversion V as [|? ? V1 V2]; subst.
  destruct (IH G3 V2) as [E|C]; [|right; exact C].
  destruct (chunk_ok_eq_or_collision _ _ _ (G2 V1) G1) as [E1|C]; [|right; exact C].
  left. cbn [map]. congruence.
Qed.

Lemma find_valid_shape B sl : shape (snd (find_valid B sl)) = shape sl.
Proof.
  unfold Update.find_valid.
  destruct (all_valid _); [destruct (b_uncomp B); [|destruct (bytes_eqb _ _)]|]; cbn [snd];
    try apply scan_flags_shape.
  unfold shape. rewrite map_map. cbn [set_flag s_chunk s_srv]. apply scan_flags_shape.
Qed.

Lemma find_valid_good B sl :
  Forall srv_ok sl -> Forall fits sl -> Forall good (snd (find_valid B sl)).
Proof.
  intros Hs Hfit. pose proof (scan_flags_good sl true Hs Hfit) as G.
  unfold Update.find_valid.
  destruct (all_valid _); [destruct (b_uncomp B); [|destruct (bytes_eqb _ _)]|]; cbn [snd]; try exact G.
  apply Forall_forall. intros s Hin. apply in_map_iff in Hin. destruct Hin as [s0 [<- Hin]].
  rewrite Forall_forall in G. destruct (G s0 Hin) as [G1 _].
  split; [exact G1|]. cbn [set_flag s_flag]. intros X; discriminate X.
Qed.

Lemma find_valid_true B sl sl1 :
  find_valid B sl = (true, sl1) -> sl1 = scan_flags true sl /\ all_valid sl1 = true.
Proof.
  unfold Update.find_valid. destruct (all_valid (scan_flags true sl)) eqn:A.
  - destruct (b_uncomp B); [|destruct (bytes_eqb _ _)]; intros H; inversion H; subst; auto.
  - intros H; inversion H.
Qed.

(** the data hashed by the scan is the whole data section when the target holds B *)
Lemma scanned_data_eq : forall sl first,
  Forall srv_ok sl -> map s_cur sl = map s_srv sl ->
  scanned_data first sl = concat (map s_srv sl).
Proof.
  induction sl as [|s sl IH]; intros first Hs E; [reflexivity|].
  inversion Hs as [|? ? H1 H2]; subst. cbn [map] in E. inversion E as [[E1 E2]].
  cbn [scanned_data map concat]. rewrite (IH false) by assumption.
  f_equal. destruct (skipped first (s_chunk s)) eqn:K; [|exact E1].
  unfold skipped in K. apply andb_true_iff in K. destruct K as [_ K]. apply N.eqb_eq in K.
  apply chunk_ok_split in H1. destruct H1 as [L _].
  rewrite K in L. symmetry. apply len_zero_nil. exact L.
Qed.

(** all chunks individually valid but the data digest differs: two different byte strings
    with the same chunk checksum are at hand *)
Lemma find_valid_mismatch_collision B sl :
  wf_new B sl -> Forall fits sl ->
  all_valid (scan_flags true sl) = true -> b_uncomp B = false ->
  bytes_eqb (Hf (scanned_data true sl)) (b_ddigest B) = false -> collision.
Proof.
  intros [Hs Hd] Hfit A U M.
  pose proof (scan_flags_good sl true Hs Hfit) as G.
  apply all_valid_spec in A.
  destruct (good_eq_or_collision _ G A) as [E|C]; [|exact C].
  rewrite scan_flags_cur in E.
  assert (map s_srv (scan_flags true sl) = map s_srv sl) as E2.
  { pose proof (scan_flags_shape sl true) as S. unfold shape in S.
    apply (f_equal (map snd)) in S. rewrite !map_map in S. exact S. }
  rewrite E2 in E. rewrite (scanned_data_eq sl true Hs E), (Hd U), bytes_eqb_refl in M. discriminate.
Qed.

(* ---------------------------------------------------------------------------------- *)
(** ** copy from A, reset *)

Lemma find_digest_some A d ca data :
  find_digest A d = Some (ca, data) -> c_digest ca = d.
Proof.
  induction A as [|[c x] A IH]; cbn [find_digest]; [discriminate|].
  destruct (bytes_eqb (c_digest c) d) eqn:E.
  - intros H; inversion H; subst. apply bytes_eqb_eq. exact E.
  - exact IH.
Qed.

Lemma copy_one_shape A s : s_chunk (copy_one A s) = s_chunk s /\ s_srv (copy_one A s) = s_srv s.
Proof.
  unfold Update.copy_one.
  destruct (s_flag s); [auto| |];
    (destruct (find_digest A _) as [[ca data]|]; [|auto];
     destruct (_ && _); [|auto]; destruct (_ && _); cbn [set_cur s_chunk s_srv]; auto).
Qed.

Lemma copy_success A s ca data :
  srv_ok s -> find_digest A (c_digest (s_chunk s)) = Some (ca, data) ->
  (c_ulen ca =? c_ulen (s_chunk s)) && (c_clen ca =? c_clen (s_chunk s)) = true ->
  (len data =? c_clen ca) && bytes_eqb (Hc data) (c_digest ca) = true ->
  chunk_ok (s_chunk s) data = true.
Proof.
  intros G1 FD SZ CK.
  apply andb_true_iff in SZ; destruct SZ as [_ SZ]; apply N.eqb_eq in SZ.
  apply andb_true_iff in CK; destruct CK as [CK1 CK2]; apply N.eqb_eq in CK1.
  apply find_digest_some in FD.
  apply chunk_ok_split; split; [congruence|].
  apply chunk_ok_split in G1; destruct G1 as [_ D].
  unfold Update.digest_ok in *; destruct (c_clen (s_chunk s) =? 0); [exact D|].
  rewrite <- FD; exact CK2.
Qed.

Lemma copy_one_good A s : good s -> good (copy_one A s).
Proof.
  intros [G1 G2]. destruct (copy_one_shape A s) as [E1 E2].
  split; [unfold srv_ok; rewrite E1, E2; exact G1|].
  intros V. rewrite E1. clear E1 E2. unfold Update.copy_one in *.
  destruct (s_flag s) eqn:Fl; [apply G2; reflexivity| |];
    (destruct (find_digest A _) as [[ca data]|] eqn:FD; [|rewrite Fl in V; discriminate];
     destruct ((c_ulen ca =? c_ulen (s_chunk s)) && (c_clen ca =? c_clen (s_chunk s))) eqn:SZ;
       [|rewrite Fl in V; discriminate];
     destruct ((len data =? c_clen ca) && bytes_eqb (Hc data) (c_digest ca)) eqn:CK;
       cbn [set_cur s_flag s_chunk s_cur] in *; [|discriminate];
     eapply copy_success; eassumption).
Qed.

Lemma copy_chunks_good A sl : Forall good sl -> Forall good (copy_chunks A sl).
Proof.
  destruct A as [a|]; cbn [Update.copy_chunks]; [|auto].
  intros G. apply Forall_forall. intros s Hin. apply in_map_iff in Hin.
  destruct Hin as [s0 [<- Hin]]. apply copy_one_good. rewrite Forall_forall in G. auto.
Qed.

Lemma copy_chunks_shape A sl : shape (copy_chunks A sl) = shape sl.
Proof.
  destruct A as [a|]; cbn [Update.copy_chunks]; [|reflexivity].
  unfold shape. rewrite map_map. apply map_ext. intros s.
  destruct (copy_one_shape a s) as [-> ->]. reflexivity.
Qed.

Definition nofail (s : slot) : Prop := s_flag s <> Failed.

Lemma reset_failed_props sl :
  Forall good sl ->
  Forall good (reset_failed sl) /\ Forall nofail (reset_failed sl) /\ shape (reset_failed sl) = shape sl.
Proof.
  intros G. unfold reset_failed. split; [|split].
  - apply Forall_forall. intros s Hin. apply in_map_iff in Hin. destruct Hin as [s0 [<- Hin]].
    rewrite Forall_forall in G. pose proof (G s0 Hin) as G0.
    destruct (s_flag s0) eqn:Fl; [exact G0| |exact G0].
    destruct G0 as [G1 G2]. split; [exact G1|]. cbn [set_flag s_flag]. intros X; discriminate X.
  - apply Forall_forall. intros s Hin. apply in_map_iff in Hin. destruct Hin as [s0 [<- Hin]].
    unfold nofail. destruct (s_flag s0) eqn:Fl; cbn [set_flag s_flag]; congruence.
  - unfold shape. rewrite map_map. apply map_ext. intros s. destruct (s_flag s); reflexivity.
Qed.

(* ---------------------------------------------------------------------------------- *)
(** ** missing chunks, the range computation and the placement of a served request *)

Fixpoint missing_idx (i : nat) (sl : list slot) : list nat :=
  match sl with
  | [] => []
  | s :: rest => if is_missing s then i :: missing_idx (S i) rest else missing_idx (S i) rest
  end.

Lemma filter_len_le {X} (f : X -> bool) l : (length (filter f l) <= length l)%nat.
Proof. induction l as [|x l IH]; cbn [filter length]; [lia|]. destruct (f x); cbn [length]; lia. Qed.

Lemma missing_count_idx : forall sl i, missing_count sl = length (missing_idx i sl).
Proof.
  unfold missing_count. induction sl as [|s sl IH]; intros i; [reflexivity|].
  cbn [filter missing_idx]. destruct (is_missing s); cbn [length]; rewrite (IH (S i)); reflexivity.
Qed.

Lemma missing_idx_ge : forall sl i j, In j (missing_idx i sl) -> (i <= j)%nat.
Proof.
  induction sl as [|s sl IH]; intros i j; cbn [missing_idx]; [intros []|].
  destruct (is_missing s); cbn [In]; [intros [<-|H]; [lia|]|intros H]; apply IH in H; lia.
Qed.

Lemma no_missing_all_valid sl :
  Forall nofail sl -> missing_count sl = O -> Forall (fun s => s_flag s = Valid) sl.
Proof.
  unfold missing_count. induction sl as [|s sl IH]; intros N M; [constructor|].
  inversion N as [|? ? N1 N2]; subst. cbn [filter] in M. unfold is_missing in M at 1.
  destruct (s_flag s) eqn:Fl; cbn [flag_eqb] in M.
  - constructor; [exact Fl | apply IH; assumption].
  - elim N1. exact Fl.
  - discriminate.
Qed.

(** the branch condition of [missing_range] *)
Definition wanted (s : slot) : bool := is_missing s && negb (c_clen (s_chunk s) =? 0).

Lemma mr_mono : forall sl maxr i off last cnt req c,
  missing_range maxr i off last cnt sl = (req, c) -> cnt <= c.
Proof.
  induction sl as [|s sl IH]; intros maxr i off last cnt req c; cbn [missing_range].
  - intros H; inversion H; lia.
  - destruct (is_missing s && negb (c_clen (s_chunk s) =? 0)).
    + set (cnt' := if match last with Some e => off <=? e | None => false end then cnt else cnt + 1).
      assert (cnt <= cnt') by (subst cnt'; destruct (match last with Some e => off <=? e | None => false end); lia).
      destruct (maxr <=? cnt').
      * intros E; inversion E; subst; lia.
      * destruct (missing_range maxr (S i) _ _ cnt' sl) as [r c'] eqn:R.
        intros E; inversion E; subst. apply IH in R. lia.
    + apply IH.
Qed.

Lemma mr_pos : forall sl maxr i off last cnt req c,
  missing_range maxr i off last cnt sl = (req, c) ->
  (last = None \/ 1 <= cnt) -> req <> [] -> 1 <= c.
Proof.
  induction sl as [|s sl IH]; intros maxr i off last cnt req c; cbn [missing_range].
  - intros E _ H. inversion E; subst. elim H. reflexivity.
  - destruct (is_missing s && negb (c_clen (s_chunk s) =? 0)).
    + intros E L _.
      set (cnt' := if match last with Some e => off <=? e | None => false end then cnt else cnt + 1) in *.
      assert (1 <= cnt') as P.
      { subst cnt'. destruct L as [-> | L]; [lia|].
        destruct (match last with Some e => off <=? e | None => false end); lia. }
      destruct (maxr <=? cnt').
      * inversion E; subst; exact P.
      * destruct (missing_range maxr (S i) _ _ cnt' sl) as [r c'] eqn:R.
        inversion E; subst. apply mr_mono in R. lia.
    + apply IH.
Qed.

Lemma mr_bound : forall sl maxr i off last cnt req c,
  missing_range maxr i off last cnt sl = (req, c) ->
  cnt < N.max maxr 1 -> c <= N.max maxr 1.
Proof.
  induction sl as [|s sl IH]; intros maxr i off last cnt req c; cbn [missing_range].
  - intros H L; inversion H; lia.
  - destruct (is_missing s && negb (c_clen (s_chunk s) =? 0)).
    + set (cnt' := if match last with Some e => off <=? e | None => false end then cnt else cnt + 1).
      assert (cnt' <= cnt + 1) by (subst cnt'; destruct (match last with Some e => off <=? e | None => false end); lia).
      destruct (maxr <=? cnt') eqn:St.
      * intros E L; inversion E; subst; lia.
      * apply N.leb_gt in St.
        destruct (missing_range maxr (S i) _ _ cnt' sl) as [r c'] eqn:R.
        intros E L; inversion E; subst. eapply IH; [exact R | lia].
    + apply IH.
Qed.

Lemma place_nil i sl : place [] i sl = (sl, true).
Proof. destruct sl; reflexivity. Qed.

(** indices produced by [missing_range] are those of missing slots, not below [i] *)
Lemma mr_ge : forall sl maxr i off last cnt req c j,
  missing_range maxr i off last cnt sl = (req, c) -> In j req -> (i <= j)%nat.
Proof.
  induction sl as [|s sl IH]; intros maxr i off last cnt req c j; cbn [missing_range].
  - intros E; inversion E; subst. intros [].
  - destruct (is_missing s && negb (c_clen (s_chunk s) =? 0)).
    + destruct (maxr <=? _).
      * intros E; inversion E; subst. intros [<-|[]]. lia.
      * destruct (missing_range maxr (S i) _ _ _ sl) as [r c'] eqn:R.
        intros E; inversion E; subst. intros [<-|H]; [lia|]. apply (IH _ _ _ _ _ _ _ _ R) in H. lia.
    + intros E H. apply (IH _ _ _ _ _ _ _ _ E) in H. lia.
Qed.

(** A zero-length chunk is never missing ([zvalid]: it is flagged valid).  This is what
    the validity scan establishes for a valid B unless it invalidates every chunk. *)
Definition zvalid (s : slot) : Prop := c_clen (s_chunk s) = 0 -> s_flag s = Valid.

(** General form: the callbacks make exactly the requested chunks valid, leave everything
    else as it was, and the number of missing chunks drops by the length of the request. *)
Lemma mr_place_gen : forall sl maxr i off last cnt req c,
  missing_range maxr i off last cnt sl = (req, c) ->
  Forall good sl -> Forall nofail sl ->
  exists sl', place req i sl = (sl', true) /\ Forall good sl' /\ Forall nofail sl' /\
              shape sl' = shape sl /\ (missing_count sl' + length req = missing_count sl)%nat /\
              (Forall zvalid sl -> Forall zvalid sl').
Proof.
  induction sl as [|s sl IH]; intros maxr i off last cnt req c; cbn [missing_range].
  - intros E _ _. inversion E; subst. exists []. cbn. repeat split; auto.
  - intros E G NF. inversion G as [|? ? G1 G2]; subst. inversion NF as [|? ? N1 N2]; subst.
    unfold missing_count in *. cbn [filter].
    destruct (is_missing s && negb (c_clen (s_chunk s) =? 0)) eqn:Wd.
    + apply andb_true_iff in Wd. destruct Wd as [M _]. rewrite M.
      set (cnt' := if match last with Some e => off <=? e | None => false end then cnt else cnt + 1) in *.
      destruct G1 as [Gs Gv]. pose proof Gs as Gs'. unfold srv_ok in Gs'.
      assert (good (set_cur s (s_srv s) Valid)) as Gn by (split; [exact Gs | intros _; exact Gs]).
      assert (nofail (set_cur s (s_srv s) Valid)) as Nn by (unfold nofail; cbn; discriminate).
      assert (is_missing (set_cur s (s_srv s) Valid) = false) as Mn by reflexivity.
      assert (zvalid (set_cur s (s_srv s) Valid)) as Zn by (intros _; reflexivity).
      destruct (maxr <=? cnt').
      * inversion E; subst.
        exists (set_cur s (s_srv s) Valid :: sl).
        cbn [Update.place]. rewrite Nat.eqb_refl, Gs', place_nil.
        split; [reflexivity|]. split; [constructor; assumption|]. split; [constructor; assumption|].
        split; [reflexivity|]. cbn [filter]. rewrite Mn. cbn [length].
        split; [lia|]. intros Z. inversion Z; subst. constructor; assumption.
      * destruct (missing_range maxr (S i) _ _ cnt' sl) as [r c'] eqn:R.
        inversion E; subst.
        destruct (IH _ _ _ _ _ _ _ R G2 N2) as [sl' [P1 [P2 [P3 [P4 [P5 P6]]]]]].
        exists (set_cur s (s_srv s) Valid :: sl').
        cbn [Update.place]. rewrite Nat.eqb_refl, Gs', P1.
        split; [reflexivity|]. split; [constructor; assumption|]. split; [constructor; assumption|].
        split; [unfold shape in *; cbn [map set_cur s_chunk s_srv]; f_equal; exact P4|].
        cbn [filter]. rewrite Mn. cbn [length].
        split; [lia|]. intros Z. inversion Z; subst. constructor; [assumption | apply P6; assumption].
    + destruct (IH _ _ _ _ _ _ _ E G2 N2) as [sl' [P1 [P2 [P3 [P4 [P5 P6]]]]]].
      exists (s :: sl').
      split.
      { destruct req as [|r req']; cbn [Update.place].
        - rewrite place_nil in P1. inversion P1; subst. reflexivity.
        - assert (Nat.eqb r i = false) as Ne.
          { apply Nat.eqb_neq. intro X. subst r.
            pose proof (mr_ge _ _ _ _ _ _ _ _ i E (or_introl eq_refl)). lia. }
          rewrite Ne, P1. reflexivity. }
      split; [constructor; assumption|]. split; [constructor; assumption|].
      split; [unfold shape in *; cbn [map]; f_equal; exact P4|].
      cbn [filter]. split.
      * destruct (is_missing s); cbn [length]; lia.
      * intros Z. inversion Z; subst. constructor; [assumption | apply P6; assumption].
Qed.

(** With no zero-length chunk missing, the request is a non-empty prefix (in file order) of
    the missing chunks. *)
Lemma mr_place : forall sl maxr i off last cnt req c,
  missing_range maxr i off last cnt sl = (req, c) ->
  Forall good sl -> Forall nofail sl -> Forall zvalid sl ->
  exists sl', place req i sl = (sl', true) /\
              missing_idx i sl = req ++ missing_idx i sl' /\
              (missing_idx i sl <> [] -> req <> []).
Proof.
  induction sl as [|s sl IH]; intros maxr i off last cnt req c; cbn [missing_range].
  - intros E _ _ _. inversion E; subst. exists []. cbn. auto.
  - intros E G NF ZV. inversion G as [|? ? G1 G2]; subst. inversion NF as [|? ? N1 N2]; subst.
    inversion ZV as [|? ? Z1 Z2]; subst.
    cbn [missing_idx]. destruct (is_missing s) eqn:M; cbn [andb] in E.
    + assert (negb (c_clen (s_chunk s) =? 0) = true) as NZ.
      { destruct (c_clen (s_chunk s) =? 0) eqn:Z; [|reflexivity]. apply N.eqb_eq in Z.
        specialize (Z1 Z). unfold is_missing in M. rewrite Z1 in M. discriminate. }
      rewrite NZ in E.
      set (cnt' := if match last with Some e => off <=? e | None => false end then cnt else cnt + 1) in *.
      destruct G1 as [Gs Gv]. pose proof Gs as Gs'. unfold srv_ok in Gs'.
      assert (is_missing (set_cur s (s_srv s) Valid) = false) as Mn by reflexivity.
      destruct (maxr <=? cnt').
      * inversion E; subst.
        exists (set_cur s (s_srv s) Valid :: sl).
        cbn [Update.place]. rewrite Nat.eqb_refl, Gs', place_nil.
        split; [reflexivity|].
        split; [cbn [missing_idx app]; rewrite Mn; reflexivity | discriminate].
      * destruct (missing_range maxr (S i) _ _ cnt' sl) as [r c'] eqn:R.
        inversion E; subst.
        destruct (IH _ _ _ _ _ _ _ R G2 N2 Z2) as [sl' [P1 [P5 P6]]].
        exists (set_cur s (s_srv s) Valid :: sl').
        cbn [Update.place]. rewrite Nat.eqb_refl, Gs', P1.
        split; [reflexivity|].
        split; [cbn [missing_idx app]; rewrite Mn; f_equal; exact P5 | discriminate].
    + destruct (IH _ _ _ _ _ _ _ E G2 N2 Z2) as [sl' [P1 [P5 P6]]].
      exists (s :: sl').
      split.
      { destruct req as [|r req']; cbn [Update.place].
        - rewrite place_nil in P1. inversion P1; subst. reflexivity.
        - assert (Nat.eqb r i = false) as Ne.
          { apply Nat.eqb_neq. intro X. subst r.
            pose proof (mr_ge _ _ _ _ _ _ _ _ i E (or_introl eq_refl)). lia. }
          rewrite Ne, P1. reflexivity. }
      cbn [missing_idx]. rewrite M. split; [exact P5 | exact P6].
Qed.

(* ---------------------------------------------------------------------------------- *)
(** ** the request loop *)

Lemma served_chunks_app e1 e2 :
  served_chunks (e1 ++ e2) = served_chunks e1 ++ served_chunks e2.
Proof.
  induction e1 as [|[r c|r c] e1 IH]; cbn [served_chunks app]; [reflexivity| |exact IH].
  rewrite IH, app_assoc. reflexivity.
Qed.

Lemma asked_chunks_app e1 e2 : asked_chunks (e1 ++ e2) = asked_chunks e1 ++ asked_chunks e2.
Proof.
  induction e1 as [|[r c|r c] e1 IH]; cbn [asked_chunks app]; [reflexivity| |];
    rewrite IH, app_assoc; reflexivity.
Qed.

(** The loop in general: it ends - within the fuel, never indexing outside the back-off
    table - either regularly (all chunks valid, final validation run) or in [EmptyRange],
    and the latter only if a zero-length chunk is missing ([~ Forall zvalid]). In the
    regular case the served requests are the missing chunks, in file order, each once. *)
Lemma loop_ok : forall fuel B srv hdr extra maxr ra sl ev,
  1 <= srv -> Forall good sl -> Forall nofail sl ->
  (ra < length range_attempt)%nat ->
  (forall a, tbl ra = Some a -> a <= 1 -> maxr <= 1) ->
  (missing_count sl + (length range_attempt - ra) <= fuel)%nat ->
  let R := dl_loop fuel B srv hdr extra maxr ra sl ev in
  (o_status R = EmptyRange /\ Forall good (t_slots (o_target R)) /\ ~ Forall zvalid sl) \/
  (exists sl_end ev',
    R = finish B hdr sl_end (ev ++ ev') /\
    Forall good sl_end /\ Forall (fun s => s_flag s = Valid) sl_end /\ shape sl_end = shape sl /\
    (Forall zvalid sl ->
       served_chunks ev' = missing_idx 0 sl /\
       (forall i, In i (asked_chunks ev') -> In i (missing_idx 0 sl)))).
Proof.
  induction fuel as [|fuel IH]; intros B srv hdr extra maxr ra sl ev Hsrv G NF Hra Inv Hfuel R; subst R.
  - assert (missing_count sl = O) as M0 by lia. right.
    exists sl, []. cbn [Update.dl_loop]. rewrite M0, app_nil_r.
    split; [reflexivity|]. split; [exact G|]. split; [apply no_missing_all_valid; assumption|].
    split; [reflexivity|]. intros _. rewrite (missing_count_idx sl 0) in M0.
    destruct (missing_idx 0 sl); [|discriminate]. cbn. auto.
  - cbn [Update.dl_loop]. destruct (missing_count sl) as [|n] eqn:M0.
    + right. exists sl, []. rewrite app_nil_r.
      split; [reflexivity|]. split; [exact G|]. split; [apply no_missing_all_valid; assumption|].
      split; [reflexivity|]. intros _. rewrite (missing_count_idx sl 0) in M0.
      destruct (missing_idx 0 sl); [|discriminate]. cbn. auto.
    + destruct (missing_range maxr 0 0 None 0 sl) as [req c] eqn:MR.
      assert (missing_idx 0 sl <> []) as Hne.
      { rewrite (missing_count_idx sl 0) in M0. destruct (missing_idx 0 sl); discriminate. }
      destruct (mr_place_gen _ _ _ _ _ _ _ _ MR G NF) as [sl' [P1 [P2 [P3 [P4 [P5 PZ]]]]]].
      destruct req as [|r0 req0].
      { (* nothing but zero-length chunks is missing *)
        left. cbn [o_status o_target t_slots]. split; [reflexivity|]. split; [exact G|].
        intros ZV. destruct (mr_place _ _ _ _ _ _ _ _ MR G NF ZV) as [_ [_ [_ Q]]]. apply (Q Hne). reflexivity. }
      cbv iota. remember (r0 :: req0) as req eqn:Ereq.
      assert (req <> []) as Rne by (rewrite Ereq; discriminate).
      assert ((1 <= length req)%nat) as Rlen by (rewrite Ereq; cbn [length]; lia).
      clear Ereq r0 req0.
      pose proof (mr_pos _ _ _ _ _ _ _ _ MR (or_introl eq_refl) Rne) as Cpos.
      pose proof (mr_bound _ _ _ _ _ _ _ _ MR ltac:(lia)) as Cbound.
      destruct (advance_ok (length range_attempt) ra c Hra ltac:(lia)) as [ra1 [A1 [A2 [A3 A4]]]].
      assert (forall a, tbl ra1 = Some a -> a <= 1 -> maxr <= 1) as Inv1.
      { intros a Ea La. destruct A4 as [-> | [b [Eb Lb]]]; [eauto|].
        rewrite Ea in Eb. inversion Eb; subst. lia. }
      rewrite A1.
      destruct (c <=? srv) eqn:Sv.
      * (* served *)
        rewrite P1.
        assert (missing_count sl' < missing_count sl)%nat as Dec.
        { lia. }
        specialize (IH B srv hdr extra maxr ra1 sl' (ev ++ [Served req c]) Hsrv P2 P3 A3 Inv1 ltac:(lia)).
        cbn zeta in IH.
        destruct IH as [[S1 [S2 S3]] | [sl_end [ev' [R1 [R2 [R3 [R4 R5]]]]]]].
        -- left. split; [exact S1|]. split; [exact S2|]. intros ZV. apply S3. apply PZ. exact ZV.
        -- right. exists sl_end, (Served req c :: ev').
           split; [rewrite R1, <- app_assoc; reflexivity|].
           split; [exact R2|]. split; [exact R3|]. split; [congruence|].
           intros ZV. destruct (R5 (PZ ZV)) as [R6 R7].
           destruct (mr_place _ _ _ _ _ _ _ _ MR G NF ZV) as [sl'' [Q1 [Q5 _]]].
           rewrite P1 in Q1. inversion Q1; subst sl''.
           cbn [served_chunks asked_chunks]. split; [rewrite R6, Q5; reflexivity|].
           intros i Hin. rewrite Q5. apply in_app_iff. apply in_app_iff in Hin.
           destruct Hin as [Hin|Hin]; [left; exact Hin | right; apply R7; exact Hin].
      * (* refused *)
        apply N.leb_gt in Sv.
        assert (1 < maxr) as Hm by lia.
        pose proof Hm as Hm'. apply N.ltb_lt in Hm'. rewrite Hm'.
        destruct (tbl_lt_some _ A3) as [a Ea].
        assert (1 < a) as La.
        { destruct (N.le_gt_cases a 1) as [L|L]; [|lia]. specialize (Inv1 a Ea L). lia. }
        destruct (tbl_succ _ _ Ea La) as [m Em]. rewrite Em.
        pose proof (tbl_some_lt _ _ Em) as Hs.
        specialize (IH B srv hdr extra m (S ra1) sl (ev ++ [Refused req c]) Hsrv G NF Hs
                     ltac:(intros a' Ea' La'; rewrite Em in Ea'; inversion Ea'; subst; exact La')
                     ltac:(lia)).
        cbn zeta in IH.
        destruct IH as [[S1 [S2 S3]] | [sl_end [ev' [R1 [R2 [R3 [R4 R5]]]]]]].
        -- left. auto.
        -- right. exists sl_end, (Refused req c :: ev').
           split; [rewrite R1, <- app_assoc; reflexivity|].
           split; [exact R2|]. split; [exact R3|]. split; [exact R4|].
           intros ZV. destruct (R5 ZV) as [R6 R7].
           destruct (mr_place _ _ _ _ _ _ _ _ MR G NF ZV) as [sl'' [_ [Q5 _]]].
           cbn [served_chunks asked_chunks]. split; [exact R6|].
           intros i Hin. apply in_app_iff in Hin.
           destruct Hin as [Hin|Hin]; [rewrite Q5; apply in_app_iff; left; exact Hin | apply R7; exact Hin].
Qed.

(* ---------------------------------------------------------------------------------- *)
(** ** shape transfer *)

Lemma shape_srv sl : map s_srv sl = map snd (shape sl).
Proof. unfold shape. rewrite map_map. reflexivity. Qed.

Lemma shape_chunk sl : map s_chunk sl = map fst (shape sl).
Proof. unfold shape. rewrite map_map. reflexivity. Qed.

Lemma srv_ok_shape : forall sl sl', shape sl' = shape sl -> Forall srv_ok sl -> Forall srv_ok sl'.
Proof.
  induction sl as [|s sl IH]; intros [|s' sl'] E H; try discriminate; [constructor|].
  unfold shape in E. cbn [map] in E. inversion E as [[E1 E2 E3]]. inversion H; subst.
  constructor; [unfold srv_ok in *; congruence | apply IH; assumption].
Qed.

Lemma wf_new_shape B sl sl' : shape sl' = shape sl -> wf_new B sl -> wf_new B sl'.
Proof.
  intros E [H1 H2]. split; [eapply srv_ok_shape; eassumption|].
  rewrite shape_srv, E, <- shape_srv. exact H2.
Qed.

(* ---------------------------------------------------------------------------------- *)
(** ** final validation *)

Lemma scan_all_valid : forall sl first,
  Forall (fun s => chunk_ok (s_chunk s) (s_cur s) = true) sl -> all_valid (scan_flags first sl) = true.
Proof.
  induction sl as [|s sl IH]; intros first H; [reflexivity|].
  inversion H as [|? ? H1 H2]; subst. cbn [Update.scan_flags]. unfold all_valid in *. cbn [forallb].
  rewrite (IH false H2), andb_true_r. cbn [set_flag s_flag].
  unfold Update.scan_flag. destruct (skipped _ _); [reflexivity|]. rewrite H1. reflexivity.
Qed.

Lemma good_valid_cur_ok sl :
  Forall good sl -> Forall (fun s => s_flag s = Valid) sl ->
  Forall (fun s => chunk_ok (s_chunk s) (s_cur s) = true) sl.
Proof.
  intros G V. rewrite Forall_forall in *. intros s Hin. destruct (G s Hin) as [_ G2]. auto.
Qed.

Lemma scan_flags_good_cur : forall sl first,
  Forall (fun s => chunk_ok (s_chunk s) (s_cur s) = true) sl -> Forall good sl ->
  Forall good (scan_flags first sl).
Proof.
  induction sl as [|s sl IH]; intros first C G; [constructor|].
  inversion C; subst. inversion G as [|? ? [G1 _] G3]; subst.
  cbn [Update.scan_flags]. constructor; [split; [exact G1 | intros _; assumption] | apply IH; assumption].
Qed.

Lemma validate_data_props B sl :
  Forall good sl -> Forall (fun s => s_flag s = Valid) sl ->
  exists ok sl', validate_data B sl = (ok, sl') /\ Forall (fun s => s_flag s = Valid) sl' /\
                 Forall good sl' /\ map s_cur sl' = map s_cur sl /\ shape sl' = shape sl.
Proof.
  intros G V. unfold Update.validate_data. destruct (b_uncomp B) eqn:U.
  - pose proof (scan_all_valid sl true (good_valid_cur_ok sl G V)) as A.
    unfold Update.find_valid. rewrite A, U. exists true, (scan_flags true sl).
    split; [reflexivity|]. split; [apply all_valid_spec; exact A|].
    split; [|split; [apply scan_flags_cur | apply scan_flags_shape]].
    apply scan_flags_good_cur; [apply good_valid_cur_ok; assumption | exact G].
  - eexists _, sl. split; [reflexivity|]. auto.
Qed.

Lemma validate_data_true B sl :
  wf_new B sl -> map s_cur sl = map s_srv sl -> fst (validate_data B sl) = true.
Proof.
  intros [Hs Hd] E.
  assert (Forall (fun s => chunk_ok (s_chunk s) (s_cur s) = true) sl) as C.
  { clear Hd. induction sl as [|s sl IH]; [constructor|].
    inversion Hs; subst. cbn [map] in E. inversion E as [[E1 E2]].
    constructor; [rewrite E1; assumption | apply IH; assumption]. }
  unfold Update.validate_data. destruct (b_uncomp B) eqn:U.
  - unfold Update.find_valid. rewrite (scan_all_valid sl true C), U. reflexivity.
  - cbn [fst]. apply andb_true_iff. split.
    + apply forallb_forall. intros s Hin. rewrite Forall_forall in C.
      specialize (C s Hin). apply andb_true_iff in C. tauto.
    + rewrite E, (Hd eq_refl). apply bytes_eqb_refl.
Qed.

Lemma finish_props B hdr sl ev :
  Forall good sl -> Forall (fun s => s_flag s = Valid) sl ->
  exists (ok : bool) sl', finish B hdr sl ev = mkO (Done (if ok then 0 else 1)) (mkT hdr sl' []) ev /\
                 validate_data B sl = (ok, sl') /\
                 Forall (fun s => s_flag s = Valid) sl' /\ Forall good sl' /\
                 map s_cur sl' = map s_cur sl /\ shape sl' = shape sl.
Proof.
  intros G V. destruct (validate_data_props B sl G V) as [ok [sl' [E [H1 [H2 [H3 H4]]]]]].
  exists ok, sl'. unfold Update.finish. rewrite E. auto 10.
Qed.

(* ---------------------------------------------------------------------------------- *)
(** ** which chunks are missing after scan + copy + reset *)

Lemma missing_after_copy A : forall sl first i,
  missing_idx i (reset_failed (copy_chunks A (scan_flags first sl))) = needed A first i sl.
Proof.
  induction sl as [|s sl IH]; intros first i; [destruct A; reflexivity|].
  specialize (IH false (S i)).
  destruct A as [a|]; cbn [Update.copy_chunks Update.scan_flags map reset_failed missing_idx Update.needed] in *;
    rewrite IH; clear IH.
  - unfold Update.copy_one, Update.usable_in. cbn [set_flag s_flag s_chunk].
    destruct (scan_flag first s) eqn:SF; cbn [flag_eqb orb]; [reflexivity| |].
    + destruct (find_digest a (c_digest (s_chunk s))) as [[ca data]|]; [|reflexivity].
      destruct ((c_ulen ca =? c_ulen (s_chunk s)) && (c_clen ca =? c_clen (s_chunk s))); [|reflexivity].
      cbn [andb].
      destruct ((len data =? c_clen ca) && bytes_eqb (Hc data) (c_digest ca)); reflexivity.
    + unfold Update.scan_flag in SF. destruct (skipped _ _); [discriminate|].
      destruct (Update.chunk_ok _ _ _); discriminate.
  - cbn [Update.usable_in orb]. rewrite orb_false_r. cbn [set_flag s_flag].
    destruct (scan_flag first s) eqn:SF; cbn [flag_eqb]; reflexivity.
Qed.

Lemma needed_all_valid A : forall sl first i,
  all_valid (scan_flags first sl) = true -> needed A first i sl = [].
Proof.
  induction sl as [|s sl IH]; intros first i H; [reflexivity|].
  cbn [Update.scan_flags] in H. unfold all_valid in *. cbn [forallb set_flag s_flag] in H.
  apply andb_true_iff in H. destruct H as [H1 H2].
  cbn [Update.needed]. rewrite H1. cbn [orb]. apply IH. exact H2.
Qed.

(** every needed chunk is one whose extent does not pass the validity test *)
Lemma needed_spec A : forall sl first j i,
  In i (needed A first j sl) ->
  exists k s, i = (j + k)%nat /\ nth_error sl k = Some s /\ chunk_ok (s_chunk s) (s_cur s) = false /\
              usable_in A (s_chunk s) = false.
Proof.
  induction sl as [|s sl IH]; intros first j i; cbn [Update.needed]; [intros []|].
  destruct (flag_eqb (scan_flag first s) Valid || usable_in A (s_chunk s)) eqn:E.
  - intros H. destruct (IH _ _ _ H) as [k [s' [E1 [E2 E3]]]].
    exists (S k), s'. split; [lia|]. split; [exact E2 | exact E3].
  - intros [<- | H].
    + exists O, s. split; [lia|]. split; [reflexivity|].
      apply orb_false_iff in E. destruct E as [E1 E2]. split; [|exact E2].
      unfold Update.scan_flag in E1. destruct (skipped _ _); [discriminate|].
      destruct (Update.chunk_ok _ _ _); [discriminate | reflexivity].
    + destruct (IH _ _ _ H) as [k [s' [E1 [E2 E3]]]].
      exists (S k), s'. split; [lia|]. split; [exact E2 | exact E3].
Qed.

Lemma needed_ge A : forall sl first j i, In i (needed A first j sl) -> (j <= i)%nat.
Proof.
  intros sl first j i H. destruct (needed_spec A _ _ _ _ H) as [k [_ [-> _]]]. lia.
Qed.

Lemma needed_nodup A : forall sl first j, NoDup (needed A first j sl).
Proof.
  induction sl as [|s sl IH]; intros first j; cbn [Update.needed]; [constructor|].
  destruct (_ || _); [apply IH|]. constructor; [|apply IH].
  intros H. apply needed_ge in H. lia.
Qed.

(* ---------------------------------------------------------------------------------- *)
(** ** the whole procedure *)

Lemma fetch_header_props B T :
  wf_new B (t_slots T) -> wf_target T ->
  let T1 := fetch_header B T in
  t_hdr T1 = b_hdr B /\ shape (t_slots T1) = shape (t_slots T) /\
  wf_new B (t_slots T1) /\ Forall fits (t_slots T1).
Proof.
  intros W Hfit. cbn. split; [reflexivity|]. split; [apply write_prefix_shape|].
  split; [eapply wf_new_shape; [apply write_prefix_shape | exact W]|].
  destruct W as [Hs _]. apply write_prefix_fits; assumption.
Qed.

(** after the scan of a valid B (not invalidated as a whole), after the copy and after the
    reset no zero-length chunk is missing *)
Lemma scan_flags_zvalid : forall sl first,
  Forall srv_ok sl -> Forall fits sl -> Forall zvalid (scan_flags first sl).
Proof.
  induction sl as [|s sl IH]; intros first Hs Hfit; [constructor|].
  inversion Hs; subst. inversion Hfit; subst. cbn [Update.scan_flags].
  constructor; [|apply IH; assumption].
  unfold zvalid. cbn [set_flag s_flag s_chunk]. intros Z. apply scan_flag_zero; assumption.
Qed.

Lemma copy_reset_zvalid A sl : Forall zvalid sl -> Forall zvalid (reset_failed (copy_chunks A sl)).
Proof.
  intros ZV. unfold reset_failed. apply Forall_forall. intros s Hin.
  apply in_map_iff in Hin. destruct Hin as [s1 [<- Hin]].
  assert (zvalid s1) as Z1.
  { destruct A as [a|]; cbn [Update.copy_chunks] in Hin.
    - apply in_map_iff in Hin. destruct Hin as [s0 [<- Hin]]. rewrite Forall_forall in ZV.
      specialize (ZV s0 Hin). unfold zvalid in *. destruct (copy_one_shape a s0) as [E1 _]. rewrite E1.
      intros Z. specialize (ZV Z). unfold Update.copy_one. rewrite ZV. exact ZV.
    - rewrite Forall_forall in ZV. auto. }
  unfold zvalid in *. destruct (s_flag s1) eqn:Fl; cbn [set_flag s_chunk s_flag]; intros Z; specialize (Z1 Z);
    [exact Fl | discriminate Z1 | discriminate Z1].
Qed.

Lemma update_master A B srv T :
  wf_new B (t_slots T) -> wf_target T ->
  let o := update A B srv T in
  let N := needed A true 0 (t_slots (fetch_header B T)) in
  (collision /\ Forall good (t_slots (o_target o)) /\
   (o_status o = EmptyRange \/ exists e, o_status o = Done e)) \/
  exists sl_end (ok : bool),
    o_status o = Done (if ok then 0 else 1) /\
    o_target o = mkT (b_hdr B) sl_end [] /\
    shape sl_end = shape (t_slots T) /\ Forall good sl_end /\
    (1 <= srv -> Forall (fun s => s_flag s = Valid) sl_end) /\
    (srv = 0 -> map s_cur sl_end = map s_srv sl_end) /\
    (map s_cur sl_end = map s_srv sl_end -> ok = true) /\
    (1 <= srv -> served_chunks (o_events o) = N /\
                 forall i, In i (asked_chunks (o_events o)) -> In i N).
Proof.
  intros W Hfit o N. subst o. unfold Update.update.
  destruct (srv =? 0) eqn:S0.
  - (* no range support: whole file *)
    right. apply N.eqb_eq in S0.
    set (sl := map (fun s => set_cur s (s_srv s) Missing) (t_slots T)).
    assert (shape sl = shape (t_slots T)) as Sh.
    { unfold sl, shape. rewrite map_map. reflexivity. }
    assert (map s_cur sl = map s_srv sl) as Ec.
    { unfold sl. rewrite !map_map. reflexivity. }
    pose proof (wf_new_shape B _ _ Sh W) as W'.
    pose proof (validate_data_true B sl W' Ec) as Vt.
    unfold Update.finish. destruct (validate_data B sl) as [ok sl'] eqn:V. cbn [fst] in Vt. subst ok.
    assert (b_uncomp B = true \/ sl' = sl) as Cases.
    { unfold Update.validate_data in V. destruct (b_uncomp B); [left; reflexivity|right]. inversion V; reflexivity. }
    assert (shape sl' = shape sl /\ map s_cur sl' = map s_cur sl) as [Sh' Ec'].
    { destruct Cases as [U | ->]; [|auto].
      unfold Update.validate_data in V. rewrite U in V.
      pose proof (find_valid_shape B sl) as X. rewrite V in X. cbn [snd] in X. split; [exact X|].
      unfold Update.find_valid in V. destruct (all_valid _); [rewrite U in V|]; inversion V; apply scan_flags_cur. }
    exists sl', true. cbn [o_status o_target o_events].
    split; [reflexivity|]. split; [reflexivity|]. split; [congruence|].
    split.
    { (* good *)
      destruct W' as [Hs _]. pose proof (srv_ok_shape _ _ Sh' Hs) as Hs'.
      assert (map s_cur sl' = map s_srv sl') as E3.
      { rewrite Ec', Ec, !shape_srv, Sh'. reflexivity. }
      clear - Hs' E3. induction sl' as [|s sl' IH]; [constructor|].
      inversion Hs'; subst. cbn [map] in E3. inversion E3 as [[E1 E2]].
      constructor; [split; [assumption | intros _; rewrite E1; assumption] | apply IH; assumption]. }
    split; [intros X; lia|].
    split; [intros _; rewrite Ec', Ec, !shape_srv, Sh'; reflexivity|].
    split; [reflexivity|]. intros X; lia.
  - apply N.eqb_neq in S0. assert (1 <= srv) as Hsrv by lia.
    destruct (fetch_header_props B T W Hfit) as [Eh [Sh1 [W1 Fit1]]].
    set (T1 := fetch_header B T) in *.
    pose proof W1 as [Hs1 Hd1].
    pose proof (find_valid_good B (t_slots T1) Hs1 Fit1) as G1.
    pose proof (find_valid_shape B (t_slots T1)) as ShF.
    destruct (find_valid B (t_slots T1)) as [all sl1] eqn:FV. cbn [snd] in *.
    destruct all.
    + (* everything already valid *)
      right. destruct (find_valid_true _ _ _ FV) as [E1 A1].
      exists sl1, true. cbn [o_status o_target o_events served_chunks asked_chunks].
      split; [reflexivity|]. split; [rewrite Eh; reflexivity|]. split; [congruence|].
      split; [exact G1|]. split; [intros _; apply all_valid_spec; exact A1|].
      split; [intros X; lia|]. split; [reflexivity|].
      intros _. subst N sl1. rewrite (needed_all_valid A _ true 0 A1). split; [reflexivity | intros i []].
    + destruct (reset_failed_props _ (copy_chunks_good A _ G1)) as [G2 [NF2 Sh2]].
      set (sl2 := reset_failed (copy_chunks A sl1)) in *.
      destruct tbl_0 as [m Em]. rewrite Em.
      pose proof (loop_ok (loop_fuel sl2) B srv (t_hdr T1) (t_extra T1) m 0 sl2 [] Hsrv G2 NF2
                  ltac:(apply (tbl_some_lt _ _ Em))
                  ltac:(intros a Ea La; rewrite Em in Ea; inversion Ea; subst; exact La)
                  ltac:(unfold loop_fuel, missing_count; pose proof (filter_len_le is_missing sl2); lia))
        as L. cbn zeta in L.
      (* which find_valid branch produced sl1 *)
      unfold Update.find_valid in FV.
      destruct (all_valid (scan_flags true (t_slots T1))) eqn:AV.
      * (* each chunk checksum matched but the data digest did not *)
        destruct (b_uncomp B) eqn:U; [inversion FV|].
        destruct (bytes_eqb _ _) eqn:M; [inversion FV|].
        assert collision as C by (apply (find_valid_mismatch_collision B (t_slots T1)); assumption).
        left. split; [exact C|].
        destruct L as [[S1 [S2 _]] | [sl_end [ev' [R1 [R2 [R3 _]]]]]].
        -- split; [exact S2 | left; exact S1].
        -- rewrite R1.
           destruct (finish_props B (t_hdr T1) sl_end ([] ++ ev') R2 R3) as [ok [sl' [Fi [_ [_ [G' _]]]]]].
           rewrite Fi. cbn [o_status o_target t_slots]. split; [exact G' | right; eauto].
      * inversion FV; subst sl1. right.
        assert (Forall zvalid sl2) as ZV2.
        { apply copy_reset_zvalid. apply scan_flags_zvalid; assumption. }
        destruct L as [[_ [_ S3]] | [sl_end [ev' [R1 [R2 [R3 [R4 R5]]]]]]]; [elim S3; exact ZV2|].
        destruct (R5 ZV2) as [R6 R7].
        rewrite R1. cbn [app].
        destruct (finish_props B (t_hdr T1) sl_end ev' R2 R3) as [ok [sl' [Fi [Vd [V' [G' [Ec' Sh']]]]]]].
        rewrite Fi. exists sl', ok. cbn [o_status o_target o_events].
        split; [reflexivity|]. split; [rewrite Eh; reflexivity|].
        assert (shape sl' = shape (t_slots T)) as ShAll.
        { rewrite Sh', R4, Sh2, copy_chunks_shape. congruence. }
        split; [exact ShAll|]. split; [exact G'|]. split; [intros _; exact V'|].
        split; [intros X; lia|].
        split.
        { intros E. pose proof (wf_new_shape B _ _ ShAll W) as W'.
          assert (shape sl_end = shape sl') as X by congruence.
          pose proof (wf_new_shape B _ _ X W') as We.
          assert (map s_cur sl_end = map s_srv sl_end) as Ee.
          { rewrite <- Ec', E, !shape_srv. congruence. }
          pose proof (validate_data_true B sl_end We Ee) as Vt. rewrite Vd in Vt. exact Vt. }
        intros _. subst N. unfold sl2 in R6, R7. rewrite missing_after_copy in R6, R7.
        split; [exact R6 | exact R7].
Qed.

(* ---------------------------------------------------------------------------------- *)
(** ** the theorems *)

(** membership in [needed], spelled out *)
Lemma needed_iff A : forall sl first j i,
  In i (needed A first j sl) <->
  exists k s, i = (j + k)%nat /\ nth_error sl k = Some s /\
              scan_flag (first && Nat.eqb k 0) s <> Valid /\ usable_in A (s_chunk s) = false.
Proof.
  induction sl as [|s sl IH]; intros first j i; cbn [Update.needed].
  - split; [intros [] | intros [k [s [_ [H _]]]]; destruct k; discriminate].
  - destruct (flag_eqb (scan_flag first s) Valid || usable_in A (s_chunk s)) eqn:E.
    + rewrite IH. split.
      * intros [k [s' [E1 [E2 E3]]]]. exists (S k), s'. split; [lia|]. split; [exact E2|].
        cbn [Nat.eqb]. rewrite andb_false_r. exact E3.
      * intros [k [s' [E1 [E2 [E3 E4]]]]]. destruct k as [|k].
        -- cbn [nth_error] in E2. inversion E2; subst s'. cbn [Nat.eqb] in E3. rewrite andb_true_r in E3.
           apply orb_true_iff in E. destruct E as [E|E]; [|congruence].
           destruct (scan_flag first s); cbn in E; congruence.
        -- exists k, s'. split; [lia|]. split; [exact E2|]. cbn [Nat.eqb] in E3. rewrite andb_false_r in E3. auto.
    + apply orb_false_iff in E. destruct E as [Ea Eb]. cbn [In]. rewrite IH. split.
      * intros [<- | [k [s' [E1 [E2 E3]]]]].
        -- exists O, s. split; [lia|]. split; [reflexivity|]. cbn [Nat.eqb]. rewrite andb_true_r.
           split; [|exact Eb]. intros X. rewrite X in Ea. discriminate.
        -- exists (S k), s'. split; [lia|]. split; [exact E2|]. cbn [Nat.eqb]. rewrite andb_false_r. exact E3.
      * intros [k [s' [E1 [E2 [E3 E4]]]]]. destruct k as [|k]; [left; lia|].
        right. exists k, s'. split; [lia|]. split; [exact E2|]. cbn [Nat.eqb] in E3. rewrite andb_false_r in E3. auto.
Qed.

(** T4.1 *)
Theorem update_converges A B srv T :
  wf_new B (t_slots T) -> wf_target T ->
  let o := update A B srv T in
  ((exists e, o_status o = Done e) \/ (o_status o = EmptyRange /\ collision)) /\
  (collision \/
   (o_status o = Done 0 /\
    t_hdr (o_target o) = b_hdr B /\ t_extra (o_target o) = [] /\
    map s_cur (t_slots (o_target o)) = map s_srv (t_slots T) /\
    map s_chunk (t_slots (o_target o)) = map s_chunk (t_slots T) /\
    (1 <= srv -> Forall (fun s => s_flag s = Valid) (t_slots (o_target o))) /\
    fst (validate_data B (t_slots (o_target o))) = true)).
Proof.
  intros W Hfit o.
  destruct (update_master A B srv T W Hfit)
    as [[C [_ St]] | [sl_end [ok [M1 [M2 [M3 [M4 [M5 [M6 [M7 M8]]]]]]]]]].
  { fold o in St. split; [|left; exact C]. destruct St as [St|St]; [right; auto | left; exact St]. }
  fold o in M1, M2, M8.
  split; [left; eauto|].
  assert (map s_cur sl_end = map s_srv sl_end \/ collision) as [E|C]; [| |left; exact C].
  { destruct (N.eq_dec srv 0) as [Z|Z]; [left; apply M6; exact Z|].
    apply good_eq_or_collision; [exact M4 | apply M5; lia]. }
  right. rewrite M1, M2, (M7 E). cbn [t_hdr t_slots t_extra].
  split; [reflexivity|]. split; [reflexivity|]. split; [reflexivity|].
  split; [rewrite E, !shape_srv, M3; reflexivity|].
  split; [rewrite !shape_chunk, M3; reflexivity|].
  split; [exact M5|].
  apply validate_data_true; [eapply wf_new_shape; eassumption | exact E].
Qed.

(** T4.2 *)
Theorem update_requests A B srv T :
  wf_new B (t_slots T) -> wf_target T -> 1 <= srv ->
  let o := update A B srv T in
  let N := needed A true 0 (t_slots (fetch_header B T)) in
  collision \/
  (served_chunks (o_events o) = N /\ (forall i, In i (asked_chunks (o_events o)) -> In i N)).
Proof.
  intros W Hfit Hsrv o N.
  destruct (update_master A B srv T W Hfit) as [[C _] | [sl_end [ok [_ [_ [_ [_ [_ [_ [_ M8]]]]]]]]]].
  - left. exact C.
  - right. exact (M8 Hsrv).
Qed.

(** T11.1: what a (re)start marks valid really is valid - after the scan, after the copy
    from A, and at the end *)
Theorem restart_valid_sound A B srv T :
  wf_new B (t_slots T) -> wf_target T ->
  let scanned := snd (find_valid B (t_slots (fetch_header B T))) in
  (forall s, In s scanned -> s_flag s = Valid -> chunk_ok (s_chunk s) (s_cur s) = true) /\
  (forall s, In s (copy_chunks A scanned) -> s_flag s = Valid -> chunk_ok (s_chunk s) (s_cur s) = true) /\
  (forall s, In s (t_slots (o_target (update A B srv T))) -> s_flag s = Valid ->
             chunk_ok (s_chunk s) (s_cur s) = true).
Proof.
  intros W Hfit scanned.
  destruct (fetch_header_props B T W Hfit) as [_ [_ [[Hs1 _] Fit1]]].
  pose proof (find_valid_good B _ Hs1 Fit1) as G1. fold scanned in G1.
  pose proof (copy_chunks_good A _ G1) as G2.
  assert (Forall good (t_slots (o_target (update A B srv T)))) as M4.
  { destruct (update_master A B srv T W Hfit) as [[_ [Gd _]] | [sl_end [ok [_ [M2 [_ [M4 _]]]]]]].
    - exact Gd.
    - rewrite M2. exact M4. }
  rewrite Forall_forall in G1, G2, M4.
  split; [|split]; intros s Hin V; [destruct (G1 s Hin) | destruct (G2 s Hin) | destruct (M4 s Hin)]; auto.
Qed.

(** T11.1: a chunk whose extent passes the validity test when the restart begins is not
    requested again *)
Theorem restart_no_refetch A B srv T i s :
  wf_new B (t_slots T) -> wf_target T -> 1 <= srv ->
  nth_error (t_slots (fetch_header B T)) i = Some s -> chunk_ok (s_chunk s) (s_cur s) = true ->
  collision \/ ~ In i (asked_chunks (o_events (update A B srv T))).
Proof.
  intros W Hfit Hsrv Hn Hok.
  destruct (update_requests A B srv T W Hfit Hsrv) as [C|[_ R]]; [left; exact C|].
  right. intros Hin. apply R in Hin. apply needed_spec in Hin.
  destruct Hin as [k [s' [E1 [E2 [E3 _]]]]]. cbn [Nat.add] in E1. subst k.
  rewrite Hn in E2. inversion E2; subst s'. congruence.
Qed.

(** ... in particular an extent that was completely and correctly written before the
    interruption (it holds B's bytes in the state the restart finds) *)
Corollary restart_no_refetch_written A B srv T i s :
  wf_new B (t_slots T) -> wf_target T -> 1 <= srv ->
  nth_error (t_slots T) i = Some s -> s_cur s = s_srv s ->
  collision \/ ~ In i (asked_chunks (o_events (update A B srv T))).
Proof.
  intros W Hfit Hsrv Hn He.
  destruct (write_prefix_keeps (t_slots T) (min_download - len (b_hdr B)) i s Hn He)
    as [s' [N1 [N2 [N3 N4]]]].
  apply (restart_no_refetch A B srv T i s' W Hfit Hsrv N1).
  destruct W as [Hs _]. rewrite Forall_forall in Hs.
  pose proof (Hs s (nth_error_In _ _ Hn)) as Ok. unfold srv_ok in Ok. congruence.
Qed.

(* ---------------------------------------------------------------------------------- *)
(** ** interrupted runs leave targets: every write step of the procedure, cut after any
       number of bytes, keeps every extent within its length ([wf_target]) *)

Lemma fits_partial_write s (d : bytes) (n : nat) f :
  fits s -> len d <= c_clen (s_chunk s) ->
  fits (set_cur s (firstn n d ++ skipn n (s_cur s)) f).
Proof.
  unfold fits, len. cbn [set_cur s_cur s_chunk]. intros H1 H2.
  rewrite app_length, firstn_length, skipn_length. lia.
Qed.

Lemma len_zeros n : len (zeros n) = n.
Proof. unfold len, zeros. rewrite repeat_length. lia. Qed.

Lemma copy_one_fits A s : fits s -> fits (copy_one A s).
Proof.
  intros F. unfold Update.copy_one.
  destruct (s_flag s); [exact F| |];
    (destruct (find_digest A _) as [[ca data]|]; [|exact F];
     destruct ((c_ulen ca =? c_ulen (s_chunk s)) && (c_clen ca =? c_clen (s_chunk s))) eqn:SZ; [|exact F];
     apply andb_true_iff in SZ; destruct SZ as [_ SZ]; apply N.eqb_eq in SZ;
     destruct ((len data =? c_clen ca) && bytes_eqb (Hc data) (c_digest ca)) eqn:CK;
     unfold fits; cbn [set_cur s_cur s_chunk];
     [apply andb_true_iff in CK; destruct CK as [CK _]; apply N.eqb_eq in CK; lia
     | rewrite len_zeros; lia]).
Qed.

Lemma place_fits : forall sl req i,
  Forall srv_ok sl -> Forall fits sl -> Forall fits (fst (place req i sl)).
Proof.
  induction sl as [|s sl IH]; intros req i Hs Hf'.
  - destruct req; cbn; constructor.
  - destruct req as [|r req]; [rewrite place_nil; exact Hf'|].
    inversion Hs as [|? ? H1 H2]; subst. inversion Hf' as [|? ? F1 F2]; subst.
    cbn [Update.place]. destruct (Nat.eqb r i).
    + unfold srv_ok in H1. rewrite H1.
      specialize (IH req (S i) H2 F2). destruct (place req (S i) sl) as [x ok]. cbn [fst] in *.
      constructor; [|exact IH]. unfold fits. cbn [set_cur s_cur s_chunk].
      apply chunk_ok_split in H1. destruct H1 as [L _]. lia.
    + specialize (IH (r :: req) (S i) H2 F2). destruct (place (r :: req) (S i) sl) as [x ok]. cbn [fst] in *.
      constructor; assumption.
Qed.

Theorem write_steps_keep_target_shape :
  (forall p sl, Forall srv_ok sl -> Forall fits sl -> Forall fits (write_prefix p sl)) /\
  (forall A sl, Forall fits sl -> Forall fits (copy_chunks A sl)) /\
  (forall req i sl, Forall srv_ok sl -> Forall fits sl -> Forall fits (fst (place req i sl))) /\
  (forall s d n f, fits s -> len d <= c_clen (s_chunk s) ->
                   fits (set_cur s (firstn n d ++ skipn n (s_cur s)) f)).
Proof.
  split; [intros; apply write_prefix_fits; assumption|].
  split.
  { intros [a|] sl F; cbn [Update.copy_chunks]; [|exact F].
    apply Forall_forall. intros s Hin. apply in_map_iff in Hin. destruct Hin as [s0 [<- Hin]].
    apply copy_one_fits. rewrite Forall_forall in F. auto. }
  split; [intros; apply place_fits; assumption|].
  intros; apply fits_partial_write; assumption.
Qed.

End P.
