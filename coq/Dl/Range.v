(** Missing-range requests: specification layer and faithful model of
    /repo/src/lib/dl/range.c (range_insert_new, range_remove, range_merge_combined,
    range_add, zck_get_missing_range, zck_get_range_count).  Definitions only. *)
From ZV Require Import Base.Bytes.
Local Open Scope N_scope.

(** * Data *)

(** One entry of the target's chunk index as the functions see it: [chk->start] (offset in
    the body), [chk->comp_length] (stored size), [chk->valid] (0 missing, 1 valid,
    -1 failed).  [chk->number] is the position in the table. *)
Record chunk := mkChunk { c_start : N; c_len : N; c_valid : Z }.

(** A [zckRangeItem]: inclusive byte range [(start, end)]. *)
Definition item := (N * N)%type.

(** * Specification layer *)

(** The parser builds the table so that every start is the sum of the stored sizes before
    it (index_read.c: [new->start = idx_loc; idx_loc += new->comp_length]). *)
Fixpoint wf_from (s0 : N) (l : list chunk) : Prop :=
  match l with
  | [] => True
  | c :: r => c_start c = s0 /\ wf_from (s0 + c_len c) r
  end.
Fixpoint wf_fromb (s0 : N) (l : list chunk) : bool :=
  match l with
  | [] => true
  | c :: r => (c_start c =? s0) && wf_fromb (s0 + c_len c) r
  end.
Fixpoint total_len (l : list chunk) : N :=
  match l with [] => 0 | c :: r => c_len c + total_len r end.

(** Well-formed target: non-empty header, running-sum starts, the whole file addressable
    with a [size_t]. *)
Definition wf_tableb (hdr : N) (l : list chunk) : bool :=
  (0 <? hdr) && wf_fromb 0 l && (hdr + total_len l <? two64).
Definition wf_table (hdr : N) (l : list chunk) : Prop :=
  0 < hdr /\ wf_from 0 l /\ hdr + total_len l < two64.

(** Chunks paired with their number. *)
Fixpoint number_from (n : N) (l : list chunk) : list (N * chunk) :=
  match l with
  | [] => []
  | c :: r => (n, c) :: number_from (n + 1) r
  end.
Definition numbered (l : list chunk) : list (N * chunk) := number_from 0 l.

Definition is_missing (nc : N * chunk) : bool := (c_valid (snd nc) =? 0)%Z.
Definition has_bytes (nc : N * chunk) : bool := negb (c_len (snd nc) =? 0).

(** The missing chunks, in file order; those of them that have bytes to fetch. *)
Definition missing (l : list chunk) : list (N * chunk) := filter is_missing (numbered l).
Definition fetchable (l : list chunk) : list (N * chunk) := filter has_bytes (missing l).

(** File extent of a chunk: the bytes [hdr + start .. hdr + start + len - 1]. *)
Definition in_ext (hdr : N) (c : chunk) (b : N) : Prop :=
  hdr + c_start c <= b /\ b < hdr + c_start c + c_len c.
Definition ext (hdr : N) (c : chunk) : item :=
  (hdr + c_start c, hdr + c_start c + c_len c - 1).

(** Bytes requested by a range list. *)
Definition covers (l : list item) (b : N) : Prop :=
  exists p, In p l /\ fst p <= b /\ b <= snd p.

(** Ascending, non-overlapping, non-adjacent (at least one byte between neighbours), every
    item non-empty. *)
Fixpoint separated (l : list item) : Prop :=
  match l with
  | [] => True
  | p :: r => fst p <= snd p /\
              match r with [] => True | q :: _ => snd p + 1 < fst q end /\
              separated r
  end.

(** Merged extents of a list of chunks given in file order: neighbours whose extents touch
    become one range. *)
Fixpoint coalesce (l : list item) : list item :=
  match l with
  | [] => []
  | p :: r =>
      match coalesce r with
      | [] => [p]
      | q :: r' => if snd p + 1 =? fst q then (fst p, snd q) :: r' else p :: q :: r'
      end
  end.

Definition extents (hdr : N) (l : list (N * chunk)) : list item := map (fun nc => ext hdr (snd nc)) l.
Definition entries (l : list (N * chunk)) : list (N * N) := map (fun nc => (fst nc, c_len (snd nc))) l.

(** The request for a limit: the shortest non-empty prefix (file order) of the chunks that
    have bytes to fetch whose merged extents reach [limit] separate ranges - everything when
    there is no limit or the limit is never reached. *)
Fixpoint spec_take (hdr : N) (limit : Z) (taken_rev : list (N * chunk)) (rest : list (N * chunk))
  : list (N * chunk) :=
  match rest with
  | [] => rev taken_rev
  | x :: r =>
      let t := x :: taken_rev in
      if ((0 <=? limit)%Z && (Z.to_N limit <=? N.of_nat (length (coalesce (extents hdr (rev t))))))%bool
      then rev t else spec_take hdr limit t r
  end.

Definition spec_covered (hdr : N) (l : list chunk) (limit : Z) : list (N * chunk) :=
  spec_take hdr limit [] (fetchable l).

(** (ranges, range index as (chunk number, stored size), count) *)
Definition spec_missing_ranges (hdr : N) (l : list chunk) (limit : Z)
  : list item * list (N * N) * N :=
  let cov := spec_covered hdr l limit in
  let rs := coalesce (extents hdr cov) in
  (rs, entries cov, N.of_nat (length rs)).

(** * Implementation model *)

(** [size_t] arithmetic where the code relies on it. *)
Definition dec64 (x : N) : N := if x =? 0 then two64 - 1 else x - 1.   (* x - 1, for x < 2^64 *)
Definition sub64 (a b : N) : N := u64 (a + (two64 - u64 b)).    (* a - b *)

(** The [zckRange]: the linked list of items as an ascending list, [count], and the range
    index (one entry (number, comp_length) per [index_new_chunk] call; kept newest first). *)
Record rstate := mkR { r_items : list item; r_count : N; r_index_rev : list (N * N) }.

(** range_merge_combined: [ptr] is [cur], the rest of the list follows.  While the next item
    starts at or before [cur.end + 1] ([ptr->end >= ptr->next->start - 1], the subtraction
    in [size_t]) it is absorbed, [count] drops by one and [ptr] stays; otherwise [ptr]
    advances. *)
Fixpoint merge_from (cur : item) (rest : list item) (count : N) : list item * N :=
  match rest with
  | [] => ([cur], count)
  | nx :: r =>
      if dec64 (fst nx) <=? snd cur then
        merge_from (fst cur, if snd cur <? snd nx then snd nx else snd cur) r (count - 1)
      else let (l, c) := merge_from nx r count in (cur :: l, c)
  end.
Definition merge_combined (l : list item) (count : N) : list item * N :=
  match l with
  | [] => ([], count)
  | p :: r => merge_from p r count
  end.

(** The walk of range_add over the list.  Result: the new list and whether
    range_insert_new was called (which is what appends to the range index).
    - [start > ptr->start]: next item;
    - [start < ptr->start]: new item in front of [ptr];
    - equal starts: [ptr->end] is raised, no new item, no index entry;
    - end of list: new last item. *)
Fixpoint insert_walk (start end_ : N) (l : list item) : list item * bool :=
  match l with
  | [] => ([(start, end_)], true)
  | p :: r =>
      if fst p <? start then let (r', b) := insert_walk start end_ r in (p :: r', b)
      else if start <? fst p then ((start, end_) :: p :: r, true)
      else ((fst p, if snd p <? end_ then end_ else snd p) :: r, false)
  end.

(** range_add for chunk [c] with number [num]: [start = chk->start + header_len],
    [end = chk->start + header_len + chk->comp_length - 1] in [size_t]; the index entry
    gets [end - start + 1] as its size; [count] goes up by one in every branch, then the
    merge pass runs. *)
Definition range_add (hdr : N) (c : chunk) (num : N) (st : rstate) : rstate :=
  let start := u64 (c_start c + hdr) in
  let end_ := dec64 (u64 (u64 (c_start c + hdr) + c_len c)) in
  let (items1, inserted) := insert_walk start end_ (r_items st) in
  let idx := if inserted then (num, u64 (sub64 end_ start + 1)) :: r_index_rev st
             else r_index_rev st in
  let (items2, cnt) := merge_combined items1 (r_count st + 1) in
  mkR items2 cnt idx.

(** zck_get_missing_range: chunks with [valid != 0] are skipped, so are chunks without
    bytes; after each addition the loop stops when
    [max_ranges >= 0 && range->count >= max_ranges]. *)
Fixpoint missing_loop (hdr : N) (limit : Z) (l : list chunk) (num : N) (st : rstate) : rstate :=
  match l with
  | [] => st
  | c :: r =>
      if negb (c_valid c =? 0)%Z then missing_loop hdr limit r (num + 1) st
      else if c_len c =? 0 then missing_loop hdr limit r (num + 1) st
      else
        let st' := range_add hdr c num st in
        if ((0 <=? limit)%Z && (Z.to_N limit <=? r_count st'))%bool then st'
        else missing_loop hdr limit r (num + 1) st'
  end.

Definition empty_range : rstate := mkR [] 0 [].

(** (range->first ..., range->index as (src->number, comp_length), zck_get_range_count) *)
Definition missing_range (hdr : N) (l : list chunk) (limit : Z) : list item * list (N * N) * N :=
  let st := missing_loop hdr limit l 0 empty_range in
  (r_items st, rev_append (r_index_rev st) [], r_count st).
