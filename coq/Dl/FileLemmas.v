(** Pointwise facts about [file_write] / [fget] / [fread] of DlWrite.v. *)
From ZV Require Import Base.Bytes Dl.DlWrite.
Local Open Scope N_scope.

Lemma nth_skipn_add {A} (l : list A) n i d : nth i (skipn n l) d = nth (n + i) l d.
Proof.
  revert l. induction n as [|n IH]; intros l; [reflexivity|].
  destruct l as [|x l]; cbn [skipn Nat.add nth].
  - destruct i; reflexivity.
  - apply IH.
Qed.

Lemma nth_firstn_lt {A} (l : list A) n i d : (i < n)%nat -> nth i (firstn n l) d = nth i l d.
Proof.
  revert l i. induction n as [|n IH]; intros l i Hi; [lia|].
  destruct l as [|x l]; [destruct i; reflexivity|].
  destruct i as [|i]; cbn [firstn nth]; [reflexivity|]. apply IH. lia.
Qed.

Lemma nth_repeat_any {A} (a : A) m i : nth i (repeat a m) a = a.
Proof.
  revert i. induction m as [|m IH]; intros i; destruct i; cbn [repeat nth]; auto.
Qed.

Lemma file_write_nil f off : file_write f off [] = f.
Proof. reflexivity. Qed.

Lemma file_write_length f off bs :
  bs <> [] -> length (file_write f off bs) = Nat.max (length f) (N.to_nat off + length bs).
Proof.
  intros Hbs. unfold file_write. destruct bs as [|b bs]; [congruence|]. cbv zeta.
  rewrite !app_length, firstn_length, repeat_length, skipn_length. lia.
Qed.

Lemma fget_file_write f off bs x :
  fget (file_write f off bs) x =
  if (off <=? x) && (x <? off + len bs) then nth (N.to_nat (x - off)) bs 0 else fget f x.
Proof.
  unfold fget, file_write, len. destruct bs as [|b bs].
  - cbn [length N.of_nat]. rewrite N.add_0_r.
    destruct (off <=? x) eqn:E1; destruct (x <? off) eqn:E2; cbn [andb]; try reflexivity.
    apply N.leb_le in E1. apply N.ltb_lt in E2. lia.
  - cbv zeta. set (l := b :: bs). remember (N.to_nat off) as o eqn:Ho.
    rewrite app_assoc.
    match goal with |- context [nth _ (?P ++ _) _] =>
      assert (Hpre : length P = o) by (rewrite app_length, firstn_length, repeat_length; lia) end.
    destruct (off <=? x) eqn:E1; cbn [andb].
    + apply N.leb_le in E1.
      rewrite app_nth2 by lia. rewrite Hpre.
      destruct (x <? off + N.of_nat (length l)) eqn:E2.
      * apply N.ltb_lt in E2. rewrite app_nth1 by lia. f_equal. lia.
      * apply N.ltb_ge in E2. rewrite app_nth2 by lia. rewrite nth_skipn_add. f_equal. lia.
    + apply N.leb_gt in E1. rewrite app_nth1 by lia.
      destruct (Nat.lt_ge_cases (N.to_nat x) (length f)) as [Hl|Hl].
      * rewrite app_nth1 by (rewrite firstn_length; lia). apply nth_firstn_lt. lia.
      * rewrite app_nth2 by (rewrite firstn_length; lia).
        rewrite nth_repeat_any. symmetry. apply nth_overflow. lia.
Qed.

Lemma file_ext (f1 f2 : bytes) :
  length f1 = length f2 -> (forall x, fget f1 x = fget f2 x) -> f1 = f2.
Proof.
  intros Hl Hx. apply (nth_ext f1 f2 0 0 Hl). intros n _.
  specialize (Hx (N.of_nat n)). unfold fget in Hx. rewrite Nnat.Nat2N.id in Hx. exact Hx.
Qed.

Lemma file_write_app f off a b :
  file_write f off (a ++ b) = file_write (file_write f off a) (off + len a) b.
Proof.
  destruct a as [|a0 a]. { cbn [app len length N.of_nat]. rewrite N.add_0_r. reflexivity. }
  destruct b as [|b0 b]. { rewrite app_nil_r. reflexivity. }
  apply file_ext.
  - rewrite !file_write_length by (try discriminate; destruct a; discriminate).
    rewrite app_length. unfold len. lia.
  - intros x. rewrite !fget_file_write. rewrite len_app.
    set (la := len (a0 :: a)). set (lb := len (b0 :: b)).
    assert (Hla : N.to_nat la = length (a0 :: a)) by (unfold la, len; lia).
    destruct (off <=? x) eqn:E1; destruct (x <? off + la) eqn:E3; cbn [andb].
    + apply N.leb_le in E1. apply N.ltb_lt in E3.
      replace (x <? off + (la + lb)) with true by (symmetry; apply N.ltb_lt; lia).
      replace (off + la <=? x) with false by (symmetry; apply N.leb_gt; lia). cbn [andb].
      apply app_nth1. lia.
    + apply N.leb_le in E1. apply N.ltb_ge in E3.
      replace (off + la <=? x) with true by (symmetry; apply N.leb_le; lia). cbn [andb].
      destruct (x <? off + la + lb) eqn:E4.
      * apply N.ltb_lt in E4.
        replace (x <? off + (la + lb)) with true by (symmetry; apply N.ltb_lt; lia).
        rewrite app_nth2 by lia. f_equal. lia.
      * apply N.ltb_ge in E4.
        replace (x <? off + (la + lb)) with false by (symmetry; apply N.ltb_ge; lia).
        reflexivity.
    + apply N.leb_gt in E1. apply N.ltb_lt in E3.
      replace (off + la <=? x) with false by (symmetry; apply N.leb_gt; lia). reflexivity.
    + apply N.leb_gt in E1. apply N.ltb_ge in E3. lia.
Qed.

Lemma fread_length f off n : length (fread f off n) = n.
Proof. unfold fread. rewrite map_length, seq_length. reflexivity. Qed.

Lemma fread_ext f1 f2 off n :
  (forall x, off <= x < off + N.of_nat n -> fget f1 x = fget f2 x) ->
  fread f1 off n = fread f2 off n.
Proof.
  intros Hx. unfold fread. apply map_ext_in. intros k Hk. apply in_seq in Hk. apply Hx. lia.
Qed.

Lemma nth_fread f off n k : (k < n)%nat -> nth k (fread f off n) 0 = fget f (off + N.of_nat k).
Proof.
  intros Hk. unfold fread.
  rewrite (nth_indep _ 0 (fget f (off + N.of_nat 0)))
    by (rewrite map_length, seq_length; exact Hk).
  change (fget f (off + N.of_nat 0)) with ((fun j => fget f (off + N.of_nat j)) 0%nat).
  rewrite map_nth. rewrite seq_nth by exact Hk. reflexivity.
Qed.

Lemma fread_file_write f off bs :
  fread (file_write f off bs) off (length bs) = bs.
Proof.
  apply (nth_ext _ _ 0 0). { apply fread_length. }
  intros n Hn. rewrite fread_length in Hn. rewrite nth_fread by exact Hn.
  rewrite fget_file_write. unfold len.
  replace (off <=? off + N.of_nat n) with true by (symmetry; apply N.leb_le; lia).
  replace (off + N.of_nat n <? off + N.of_nat (length bs)) with true
    by (symmetry; apply N.ltb_lt; lia).
  cbn [andb]. f_equal. lia.
Qed.

Lemma bytes_eqb_eq a b : bytes_eqb a b = true <-> a = b.
Proof.
  revert b. induction a as [|x a IH]; intros [|y b]; cbn [bytes_eqb]; split; intros Hx;
    try reflexivity; try discriminate.
  - apply andb_prop in Hx. destruct Hx as [H1 H2]. apply N.eqb_eq in H1. apply IH in H2. congruence.
  - injection Hx as -> ->. rewrite N.eqb_refl. cbn [andb]. apply IH. reflexivity.
Qed.
