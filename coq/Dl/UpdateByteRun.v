(** The update procedure at BYTE level, composed from the byte-level component models, and
    its simulation by the chunk-level procedure of [Dl/Update.v].

    Byte-level steps (each is the model another vertical proved against its own
    specification): header fetch = a write of B's first max(probe, header) bytes at offset 0
    and [parse_impl] (C13); validity scan = [Scan.validate_checksums] (C09); copy =
    [Copy.copy_chunks] (C08) + [reset_flags]; request = [Range.missing_range] (C10) with
    zckdl's [range_attempt] back-off ([Update.advance], pure arithmetic on the item count);
    transfer = [Multipart.feed_frags] over [DlWrite.dlw] on a fresh zckDL for the request
    (C05; that a zck_dl_reset zckDL behaves like a fresh one is C05_session /
    retry_place_plain / retry_place_mp); final ftruncate.

    This file, part 1: representation changes between the component models (header record +
    flag list + file  <->  DlWrite chunk table + file), the request as a prefix of
    [Session.missing_ridx], and the request loop with its simulation. *)
From ZV Require Import Base.Bytes Gen.GenConsts Format.Header Format.ParseProofs Read.Scan Read.ScanProofs.
From ZV Require Import Dl.UpdateLink.
From ZV Require Dl.DlWrite Dl.FileLemmas Dl.DlInv Dl.DlPlace Dl.Multipart Dl.MpGrammar Dl.MpPlace Dl.LiteralMatcher
                Dl.MpFinal Dl.Session Dl.SessionProofs Dl.Range Dl.UpdateLinkRange Dl.UpdateLinkPlace
                Dl.UpdateByteMp Dl.UpdateByteEquiv Dl.Update Dl.UpdateProofs Dl.CopyProofs Dl.UpdateLinkCopy.
From Coq Require Import Sorted.
Local Open Scope N_scope.

Module W := Dl.DlWrite.
Module FL := Dl.FileLemmas.
Module I := Dl.DlInv.
Module P := Dl.DlPlace.
Module M := Dl.Multipart.
Module S := Dl.Session.
Module SP := Dl.SessionProofs.
Module R := Dl.Range.
Module LR := Dl.UpdateLinkRange.
Module LP := Dl.UpdateLinkPlace.
Module BM := Dl.UpdateByteMp.
Module E := Dl.UpdateByteEquiv.
Module UP := Dl.UpdateProofs.

(* ------------------------------------------------------------------------------------ *)
(** * representation changes *)

Definition v_of_Z (z : Z) : W.vflag :=
  if (z =? 1)%Z then W.VValid else if (z =? 0)%Z then W.VUnknown else W.VFailed.
Definition Z_of_v (v : W.vflag) : Z :=
  match v with W.VValid => 1%Z | W.VUnknown => 0%Z | W.VFailed => (-1)%Z end.

(** the chunk table of the download code for header chunks [cs] and flags [fl] *)
Fixpoint wtab (cs : list chunk) (fl : list Z) : list W.chunk :=
  match cs with
  | [] => []
  | c :: r => W.mkChunk (c_start c) (c_clen c) (c_digest c) (v_of_Z (hd 0%Z fl)) :: wtab r (tl fl)
  end.
Definition fl_of (tab : list W.chunk) : list Z := map (fun c => Z_of_v (W.c_valid c)) tab.

Lemma flag_v_Z z : LP.flag_of_v (v_of_Z z) = flag_of_Z z.
Proof. unfold v_of_Z, flag_of_Z. destruct (z =? 1)%Z; [reflexivity|]. destruct (z =? 0)%Z; reflexivity. Qed.

Lemma v_Z_v v : v_of_Z (Z_of_v v) = v.
Proof. destruct v; reflexivity. Qed.

Lemma wtab_length : forall cs fl, length (wtab cs fl) = length cs.
Proof. induction cs as [|c cs IH]; intros fl; [reflexivity|]. cbn [wtab length]. rewrite IH. reflexivity. Qed.

Lemma nth_wtab : forall cs fl t,
  nth_error (wtab cs fl) t =
  option_map (fun c => W.mkChunk (c_start c) (c_clen c) (c_digest c) (v_of_Z (nth t fl 0%Z))) (nth_error cs t).
Proof.
  induction cs as [|c cs IH]; intros fl t; [destruct t; reflexivity|].
  destruct t as [|t]; cbn [wtab nth_error option_map].
  - destruct fl; reflexivity.
  - rewrite IH. destruct fl; [destruct t|]; reflexivity.
Qed.

(** a table whose shape is that of [wtab cs _] is [wtab cs] of its flags *)
Lemma wtab_of_shape : forall cs fl tab,
  I.same_shape (wtab cs fl) tab -> tab = wtab cs (fl_of tab).
Proof.
  induction cs as [|c cs IH]; intros fl tab [L Sh].
  - destruct tab; [reflexivity|discriminate].
  - destruct tab as [|d tab]; [discriminate|].
    cbn [wtab fl_of map hd tl]. fold (fl_of tab).
    destruct (Sh O _ d eq_refl eq_refl) as [S1 [S2 S3]]. cbn [W.c_start W.c_len W.c_digest] in *.
    f_equal.
    + destruct d. cbn in *. subst. rewrite v_Z_v. reflexivity.
    + apply (IH (tl fl)). split; [cbn in L; lia|].
      intros t c0 c0' H0 H1. exact (Sh (S t) c0 c0' H0 H1).
Qed.

(** reading an extent that lies inside the file *)
Lemma fread_sub (f : bytes) off n : off + n <= len f -> W.fread f off (N.to_nat n) = sub f off n.
Proof.
  intros Hb. apply (nth_ext _ _ 0 0).
  - rewrite FL.fread_length. pose proof (Dl.CopyProofs.sub_len f off n Hb) as L. unfold len, byte in *. lia.
  - intros i Hi. rewrite FL.fread_length in Hi. rewrite FL.nth_fread by exact Hi.
    rewrite Dl.CopyProofs.nth_sub by exact Hi. reflexivity.
Qed.

Section Abs.
Variable all : list chunk.      (* the whole index of B *)
Variable doff : N.
Variable fb : bytes.

Definition ulf : nat -> N := fun j => c_ulen (nth j all (mkChunk [] None 0 0 0)).

Definition b_complete : Prop := Forall (fun c => doff + c_start c + c_clen c <= len fb) all.
Definition inside (cs : list chunk) (fl : list Z) (f : bytes) : Prop :=
  forall i c, nth_error cs i = Some c -> nth i fl 0%Z = 1%Z -> c_clen c = 0 \/ doff + c_start c + c_clen c <= len f.

(** the fread-based abstraction of the download state and the sub-based abstraction of
    Dl/UpdateLink.v agree up to the contents of non-valid extents *)
Lemma absr_abs_eqv : forall pre cs fl f, all = pre ++ cs -> b_complete -> inside cs fl f ->
  E.eqv (LP.absr ulf doff fb (length pre) (wtab cs fl) f) (abs_slots doff cs fb f fl).
Proof.
  intros pre cs. revert pre. induction cs as [|c cs IH]; intros pre fl f Ea Bc In; [constructor|].
  cbn [wtab LP.absr abs_slots]. constructor.
  - assert (Hc : doff + c_start c + c_clen c <= len fb).
    { unfold b_complete in Bc. rewrite Forall_forall in Bc. apply Bc. rewrite Ea. apply in_or_app. right. left. reflexivity. }
    unfold E.slot_eqv, LP.slot_of. cbn [U.s_chunk U.s_srv U.s_cur U.s_flag W.c_digest W.c_len W.c_start W.c_valid].
    split.
    { unfold uchunk, ulf. rewrite Ea, app_nth2 by lia. rewrite Nat.sub_diag. reflexivity. }
    split; [apply fread_sub; lia|]. split; [apply flag_v_Z|].
    intros V. rewrite flag_v_Z in V. apply Dl.UpdateLinkCopy.flag_valid_iff in V.
    destruct (In O c eq_refl) as [Z|Cm]; [destruct fl; exact V| |].
    + rewrite Z. reflexivity.
    + apply fread_sub. lia.
  - replace (S (length pre)) with (length (pre ++ [c])) by (rewrite app_length; cbn; lia).
    apply IH; [rewrite <- app_assoc; exact Ea | exact Bc |].
    intros i c' Hn Hv. apply (In (S i) c' Hn). destruct fl; [destruct i; exact Hv | exact Hv].
Qed.

End Abs.

(* ------------------------------------------------------------------------------------ *)
(** * the request: a prefix of the missing chunks that have bytes *)

Fixpoint wanted_w (t : nat) (tab : list W.chunk) : list nat :=
  match tab with
  | [] => []
  | c :: r => match W.c_valid c with
              | W.VUnknown => if 0 <? W.c_len c then t :: wanted_w (S t) r else wanted_w (S t) r
              | _ => wanted_w (S t) r
              end
  end.

Lemma missing_from_tgts : forall tab t pos, map W.r_tgt (S.missing_from tab t pos) = wanted_w t tab.
Proof.
  induction tab as [|c tab IH]; intros t pos; [reflexivity|].
  cbn [S.missing_from wanted_w]. destruct (W.c_valid c); try apply IH.
  destruct (0 <? W.c_len c); [cbn [map W.r_tgt]; f_equal|]; apply IH.
Qed.

Fixpoint wanted_idx (i : nat) (sl : list U.slot) : list nat :=
  match sl with
  | [] => []
  | s :: r => if U.is_missing s && negb (U.c_clen (U.s_chunk s) =? 0) then i :: wanted_idx (S i) r
              else wanted_idx (S i) r
  end.

Lemma wanted_absr ul doff fb f : forall tab i, wanted_idx i (LP.absr ul doff fb i tab f) = wanted_w i tab.
Proof.
  induction tab as [|c tab IH]; intros i; [reflexivity|].
  cbn [LP.absr wanted_idx wanted_w]. unfold LP.slot_of, U.is_missing. cbn [U.s_flag U.s_chunk U.c_clen].
  destruct (W.c_valid c); cbn [LP.flag_of_v U.flag_eqb andb]; try apply IH.
  destruct (W.c_len c =? 0) eqn:Z.
  - apply N.eqb_eq in Z. rewrite Z. cbn [negb N.ltb N.compare]. apply IH.
  - apply N.eqb_neq in Z. replace (0 <? W.c_len c) with true by (symmetry; apply N.ltb_lt; lia).
    cbn [negb]. f_equal. apply IH.
Qed.

Lemma mr_prefix maxr : forall sl i off last cnt,
  exists suf, wanted_idx i sl = fst (U.missing_range maxr i off last cnt sl) ++ suf.
Proof.
  induction sl as [|s sl IH]; intros i off last cnt; [exists []; reflexivity|].
  cbn [U.missing_range wanted_idx].
  destruct (U.is_missing s && negb (U.c_clen (U.s_chunk s) =? 0)).
  - destruct (maxr <=? _).
    + eexists. cbn [fst app]. reflexivity.
    + match goal with |- context [U.missing_range maxr (S i) ?o ?l ?c sl] =>
        destruct (IH (S i) o l c) as [suf Es]; destruct (U.missing_range maxr (S i) o l c sl) as [r c'] end.
      cbn [fst] in *. exists suf. cbn [app]. f_equal. exact Es.
  - apply IH.
Qed.

Lemma wanted_w_sorted : forall tab t,
  StronglySorted lt (wanted_w t tab) /\ Forall (fun x => (t <= x)%nat) (wanted_w t tab).
Proof.
  induction tab as [|c tab IH]; intros t; [split; constructor|].
  cbn [wanted_w]. destruct (IH (S t)) as [I1 I2].
  assert (Forall (fun x => (t <= x)%nat) (wanted_w (S t) tab)) as I3.
  { eapply Forall_impl; [|exact I2]. cbn. intros; lia. }
  destruct (W.c_valid c); try (split; assumption).
  destruct (0 <? W.c_len c); [|split; assumption].
  split; constructor; auto.
Qed.

Lemma sorted_firstn {A} (R0 : A -> A -> Prop) : forall l k, StronglySorted R0 l -> StronglySorted R0 (firstn k l).
Proof.
  induction l as [|x l IH]; intros k Hs; [destruct k; constructor|].
  destruct k; [constructor|]. inversion Hs; subst. cbn [firstn]. constructor; [apply IH; assumption|].
  rewrite Forall_forall in *. intros y Hy. apply H2. rewrite <- (firstn_skipn k l). apply in_or_app. left. exact Hy.
Qed.

Lemma starts_ok_prefix : forall a b p, P.starts_ok (a ++ b) p -> P.starts_ok a p.
Proof.
  induction a as [|e a IH]; intros b p St; [exact I|].
  cbn [app P.starts_ok] in *. destruct St as [S1 S2]. split; [exact S1 | eapply IH; exact S2].
Qed.

Lemma nodup_prefix {A} : forall (a b : list A), NoDup (a ++ b) -> NoDup a.
Proof.
  induction a as [|x a IH]; intros b N0; [constructor|]. cbn [app] in N0. inversion N0; subst.
  constructor; [|eapply IH; eassumption]. intros X. apply H1. apply in_or_app. left. exact X.
Qed.

Lemma req_ok_prefix doff pre suf tab :
  P.req_ok doff (pre ++ suf) tab -> pre <> [] -> P.req_ok doff pre tab.
Proof.
  intros [Nd [St [Dj [_ En]]]] Hne. unfold P.req_ok.
  split. { rewrite map_app in Nd. eapply nodup_prefix. exact Nd. }
  split; [eapply starts_ok_prefix; exact St|]. split; [exact Dj|]. split; [exact Hne|].
  intros e Hin. apply En. apply in_or_app. left. exact Hin.
Qed.

(* ------------------------------------------------------------------------------------ *)
(** * one transfer *)

(** what the server and the transport deliver for a request: the body of a single-range
    response, or a Content-Type line and the body of a multipart response, in fragments *)
Inductive resp :=
  | RPlain (frags : list bytes)
  | RMulti (pre B : bytes) (quoted : bool) (parts : list Dl.MpGrammar.mpart) (frags : list bytes).

Definition resp_ok (datas : list bytes) (r : resp) : Prop :=
  match r with
  | RPlain frags => Forall (fun fr => fr <> []) frags /\ concat frags = concat datas
  | RMulti pre B quoted parts frags =>
      Dl.MpPlace.wf_body B parts datas /\ Forall (fun c => c <> 0) pre /\
      (forall k, (k < length pre)%nat ->
         Dl.LiteralMatcher.prefix_ic Dl.LiteralMatcher.kw_boundary (skipn k (pre ++ Dl.LiteralMatcher.kw_boundary)) = false) /\
      B <> [] /\ (quoted = false -> hd 0 B <> 32 /\ hd 0 B <> 34) /\
      len (Dl.MpGrammar.ct_line pre B quoted) < two64 /\
      Forall (fun fr => fr <> []) frags /\ concat frags = Dl.MpGrammar.mp_body B parts
  end.

Section Transfer.
Variable Hw : bytes -> bytes.   (* chunk checksum function of the target: H (h_chash h) *)
Variable ds : nat.
Variable ul : nat -> N.
Variable doff : N.
Variable fb : bytes.

Notation lit_comp := Dl.LiteralMatcher.lit_comp.
Notation lit_exec := Dl.LiteralMatcher.lit_exec.

Definition datas_of (tab : list W.chunk) (ridx : list W.rentry) : list bytes :=
  map (fun e => match nth_error tab (W.r_tgt e) with
                | Some c => W.fread fb (doff + W.c_start c) (N.to_nat (W.c_len c))
                | None => []
                end) ridx.

(** header lines, then the body fragments, on a fresh zckDL over (table, file) *)
Definition run_resp (ridx : list W.rentry) (tab : list W.chunk) (f : bytes) (r : resp)
  : list W.chunk * bytes * bool :=
  let x0 := Dl.MpFinal.x_start 0 f tab in
  let '(hdrs, frags) := match r with
                        | RPlain frags => ([], frags)
                        | RMulti pre B q parts frags => ([Dl.MpGrammar.ct_line pre B q], frags)
                        end in
  let x1 := fold_left (M.header_cb lit_comp lit_exec) hdrs x0 in
  let '(x', _, ok) := M.feed_frags Hw doff ridx lit_comp lit_exec x1 frags in
  (W.d_tab (M.x_dl x'), W.d_file (M.x_dl x'), ok).

Lemma feed_frags_plain_full ridx : forall frags x s',
  M.x_boundary x = None -> Forall (fun fr => fr <> []) frags ->
  P.feed Hw doff ridx (M.x_dl x) frags = (s', true) ->
  exists x' rets, M.feed_frags Hw doff ridx lit_comp lit_exec x frags = (x', rets, true) /\ M.x_dl x' = s'.
Proof.
  induction frags as [|fr rest IH]; intros x s' Hb Hne Hf; cbn [P.feed M.feed_frags] in *.
  - inversion Hf. eauto.
  - inversion Hne as [|? ? Hfr Hrest]; subst. unfold M.write_cb. rewrite Hb.
    destruct (W.dlw Hw doff ridx (M.x_dl x) fr) as [dl' r]. destruct r as [n| |]; try discriminate.
    destruct (n =? len fr) eqn:En; [|discriminate]. apply N.eqb_eq in En. subst n.
    cbn [W.dret].
    replace (len fr =? 0) with false
      by (symmetry; apply N.eqb_neq; pose proof (P.nonnil_len_pos fr Hfr); lia).
    cbn [negb orb].
    destruct (IH (M.mkX dl' (M.x_mp x) None (M.x_rx x)) s' eq_refl Hrest Hf) as [x' [rets [F Ex]]].
    rewrite F. eauto.
Qed.

Theorem transfer_link ridx tab f r :
  P.req_ok doff ridx tab -> P.datas_ok Hw ridx tab (datas_of tab ridx) ->
  Forall (fun c => length (W.c_digest c) = ds) tab ->
  StronglySorted lt (map W.r_tgt ridx) ->
  resp_ok (datas_of tab ridx) r ->
  exists tab' f',
    run_resp ridx tab f r = (tab', f', true) /\
    I.same_shape tab tab' /\
    (forall x, x < doff -> W.fget f' x = W.fget f x) /\
    U.place (LP.Hc Hw ds) (map W.r_tgt ridx) 0 (LP.absr ul doff fb 0 tab f) = (LP.absr ul doff fb 0 tab' f', true).
Proof.
  intros Rq Dt Sz Srt Ok.
  assert (Fs : LP.from_server doff fb ridx tab (datas_of tab ridx)).
  { intros k e d c Hk Hd Hc. unfold datas_of in Hd. rewrite nth_error_map, Hk in Hd. cbn [option_map] in Hd.
    rewrite Hc in Hd. inversion Hd. reflexivity. }
  unfold run_resp. destruct r as [frags | pre B quoted parts frags]; cbn [resp_ok] in Ok.
  - destruct Ok as [Ne Cc]. cbn [fold_left].
    pose proof (P.dlw_place_any_partition Hw doff ridx tab (datas_of tab ridx) 0 f frags Rq Dt Ne Cc) as Fe.
    destruct (feed_frags_plain_full ridx frags (Dl.MpFinal.x_start 0 f tab) _ eq_refl Ne Fe) as [x' [rets [F Ex]]].
    rewrite F. exists (W.d_tab (M.x_dl x')), (W.d_file (M.x_dl x')). split; [reflexivity|].
    destruct (LP.link_place_single Hw ds ul doff fb ridx tab (datas_of tab ridx) 0 f Rq Dt Sz Srt Fs) as [_ Pl].
    rewrite Ex.
    destruct (BM.transfer_confined Hw doff lit_comp lit_exec ridx tab f [] frags 0) as [Sh Cf].
    cbn [fold_left] in Sh, Cf. rewrite F in Sh, Cf. cbn [fst] in Sh, Cf. rewrite Ex in Sh, Cf.
    split; [exact Sh|]. split; [|exact Pl].
    intros x Hx. apply Cf. intros t c _ _ [X _]. lia.
  - destruct Ok as (Wf & Hpre & Hfree & Hne & Hq & Hlen & Hfr & Hcat). cbn [fold_left].
    destruct (BM.link_place_multipart Hw ds ul doff fb ridx tab (datas_of tab ridx) B parts 0 f pre quoted frags
                Rq Dt Wf Hpre Hfree Hne Hq Hlen Hfr Hcat Sz Srt Fs) as [x' [rets [F Pl]]].
    rewrite F. exists (W.d_tab (M.x_dl x')), (W.d_file (M.x_dl x')). split; [reflexivity|].
    destruct (BM.transfer_confined Hw doff lit_comp lit_exec ridx tab f [Dl.MpGrammar.ct_line pre B quoted] frags 0) as [Sh Cf].
    cbn [fold_left] in Sh, Cf. rewrite F in Sh, Cf. cbn [fst] in Sh, Cf.
    split; [exact Sh|]. split; [|exact Pl].
    intros x Hx. apply Cf. intros t c _ _ [X _]. lia.
Qed.

End Transfer.

(* ------------------------------------------------------------------------------------ *)
(** * the request loop of zckdl at byte level *)

Inductive bstatus := BFinish | BExit1 | BEmpty | BFuel | BOOB.

Definition mcount (tab : list W.chunk) : nat :=
  length (filter (fun c => match W.c_valid c with W.VUnknown => true | _ => false end) tab).

(** the chunk table as range.c sees it *)
Definition rt (tab : list W.chunk) : list R.chunk :=
  map (fun c => R.mkChunk (W.c_start c) (W.c_len c) (Z_of_v (W.c_valid c))) tab.

Section Loop.
Variable Hw : bytes -> bytes.
Variable Hf : bytes -> bytes.
Variable ds : nat.
Variable cs : list chunk.       (* B's index *)
Variable doff : N.
Variable fb : bytes.
Variable serve : list W.rentry -> resp.
Variable srv : N.

Let ul := ulf cs.
Notation absr := (LP.absr ul doff fb 0).
Let Hc := LP.Hc Hw ds.

(** zck_missing_chunks; zck_get_missing_range(zck, max_ranges) (the range index is the first
    entries of the unlimited one: same chunks, same order); the ra_index bookkeeping; a
    refused request changes nothing; a served one is a transfer on a fresh zckDL *)
Fixpoint byte_loop (fuel : nat) (maxr : N) (ra : nat) (tab : list W.chunk) (f : bytes) (ev : list U.event)
  : bstatus * list W.chunk * bytes * list U.event :=
  match mcount tab with
  | O => (BFinish, tab, f, ev)
  | S _ =>
    match fuel with
    | O => (BFuel, tab, f, ev)
    | S fuel' =>
        let '(_, idx, cnt) := R.missing_range doff (rt tab) (Z.of_N maxr) in
        match idx with
        | [] => (BEmpty, tab, f, ev)
        | _ :: _ =>
          let ridx := firstn (length idx) (S.missing_ridx tab) in
          let req := map W.r_tgt ridx in
          match U.advance (length range_attempt) ra cnt with
          | None => (BOOB, tab, f, ev)
          | Some ra1 =>
              if cnt <=? srv then
                let '(tab', f', ok) := run_resp Hw doff ridx tab f (serve ridx) in
                if ok then byte_loop fuel' maxr ra1 tab' f' (ev ++ [U.Served req cnt])
                else (BExit1, tab', f', ev ++ [U.Served req cnt])
              else if 1 <? maxr then
                match U.tbl (S ra1) with
                | None => (BOOB, tab, f, ev)
                | Some m => byte_loop fuel' m (S ra1) tab f (ev ++ [U.Refused req cnt])
                end
              else byte_loop fuel' maxr ra1 tab f (ev ++ [U.Refused req cnt])
          end
        end
    end
  end.

(** static facts about B *)
Hypothesis St : starts_ok 0 cs.
Hypothesis Sz : Forall (fun c => length (c_digest c) = ds) cs.
Hypothesis Dpos : 0 < doff.
Hypothesis D64 : doff + data_total cs < two64.
Hypothesis Bok : Forall (fun c => 0 < c_clen c ->
                   W.chunk_digest_ok Hw (W.mkChunk (c_start c) (c_clen c) (c_digest c) W.VUnknown)
                     (W.fread fb (doff + c_start c) (N.to_nat (c_clen c))) = true) cs.
(** the server answers every consistent request with the requested extents of B *)
Hypothesis Sv : forall fl ridx, P.req_ok doff ridx (wtab cs fl) -> resp_ok (datas_of doff fb (wtab cs fl) ridx) (serve ridx).

Lemma mcount_abs f : forall tab i, U.missing_count (LP.absr ul doff fb i tab f) = mcount tab.
Proof.
  unfold U.missing_count, mcount. induction tab as [|c tab IH]; intros i; [reflexivity|].
  cbn [LP.absr filter]. unfold LP.slot_of, U.is_missing at 1. cbn [U.s_flag].
  destruct (W.c_valid c); cbn [LP.flag_of_v U.flag_eqb length]; rewrite IH; reflexivity.
Qed.

Lemma Z_flag_v v : LR.Z_of_flag (LP.flag_of_v v) = Z_of_v v.
Proof. destruct v; reflexivity. Qed.

Lemma rtable_wtab f : forall cs' fl s i, starts_ok s cs' ->
  LR.rtable s (LP.absr ul doff fb i (wtab cs' fl) f) = rt (wtab cs' fl).
Proof.
  induction cs' as [|c cs' IH]; intros fl s i S0; [reflexivity|].
  cbn [starts_ok] in S0. destruct S0 as [S1 S2].
  cbn [wtab LP.absr LR.rtable rt map]. unfold LP.slot_of. cbn [U.s_chunk U.s_flag U.c_clen W.c_start W.c_len W.c_valid].
  rewrite Z_flag_v, S1. f_equal. apply IH. exact S2.
Qed.

Lemma total_rt : forall cs' fl, R.total_len (rt (wtab cs' fl)) = data_total cs'.
Proof.
  induction cs' as [|c cs' IH]; intros fl; [reflexivity|].
  cbn [wtab rt map R.total_len R.c_len W.c_len data_total fold_right].
  change (fold_right (fun c a => c_clen c + a) 0 cs') with (data_total cs'). fold (rt (wtab cs' (tl fl))).
  rewrite IH. reflexivity.
Qed.

Lemma disjoint_wtab fl : I.disjoint_tab doff (wtab cs fl).
Proof.
  intros t1 t2 c1 c2 x Hne H1 H2 I1 I2. rewrite nth_wtab in H1, H2.
  destruct (nth_error cs t1) as [a|] eqn:E1; [|discriminate]. destruct (nth_error cs t2) as [b|] eqn:E2; [|discriminate].
  cbn [option_map] in H1, H2. inversion H1; subst c1. inversion H2; subst c2.
  unfold I.in_ext in *. cbn [W.c_start W.c_len] in *.
  destruct (Nat.lt_ge_cases t1 t2) as [L|L].
  - pose proof (Dl.CopyProofs.starts_disjoint (fun _ m => m) _ _ St t1 t2 a b E1 E2 L). lia.
  - assert (t2 < t1)%nat as L' by lia.
    pose proof (Dl.CopyProofs.starts_disjoint (fun _ m => m) _ _ St t2 t1 b a E2 E1 L'). lia.
Qed.

Lemma sized_wtab fl : Forall (fun c => length (W.c_digest c) = ds) (wtab cs fl).
Proof.
  apply Forall_forall. intros c Hin. apply In_nth_error in Hin. destruct Hin as [t Ht].
  rewrite nth_wtab in Ht. destruct (nth_error cs t) as [a|] eqn:Ea; [|discriminate].
  cbn [option_map] in Ht. inversion Ht; subst c. cbn [W.c_digest].
  rewrite Forall_forall in Sz. apply Sz. eapply nth_error_In. exact Ea.
Qed.

Lemma datas_ok_wtab fl ridx : (forall e, In e ridx -> In e (S.missing_ridx (wtab cs fl))) ->
  P.datas_ok Hw ridx (wtab cs fl) (datas_of doff fb (wtab cs fl) ridx).
Proof.
  intros Sub. unfold P.datas_ok, datas_of.
  induction ridx as [|e ridx IH]; [constructor|]. cbn [map]. constructor.
  - destruct (SP.missing_ridx_in _ e (Sub e (or_introl eq_refl))) as (c & Hn & Hv & Hl & Hrl & Hrd).
    rewrite Hn. split; [unfold len; rewrite FL.fread_length; lia|].
    exists c. split; [reflexivity|].
    rewrite nth_wtab in Hn. destruct (nth_error cs (W.r_tgt e)) as [a|] eqn:Ea; [|discriminate].
    cbn [option_map] in Hn. inversion Hn; subst c. cbn [W.c_start W.c_len] in *.
    rewrite Forall_forall in Bok. specialize (Bok a (nth_error_In _ _ Ea) Hl).
    unfold W.chunk_digest_ok in *. cbn [W.c_digest W.c_len] in *. exact Bok.
  - apply IH. intros e' Hin. apply Sub. right. exact Hin.
Qed.

(** The byte-level loop and the chunk-level loop on the abstraction of its state run in
    lockstep: same requests, same refusals, same end. *)
Lemma loop_sim (Bn : U.newfile) (hdr extra : bytes) : forall fuel maxr ra fl f ev,
  Forall (UP.good Hc) (absr (wtab cs fl) f) -> Forall UP.nofail (absr (wtab cs fl) f) ->
  let '(st, tab', f', ev') := byte_loop fuel maxr ra (wtab cs fl) f ev in
  let o := U.dl_loop Hc Hf fuel Bn srv hdr extra maxr ra (absr (wtab cs fl) f) ev in
  (exists fl', tab' = wtab cs fl') /\
  (forall x, x < doff -> W.fget f' x = W.fget f x) /\
  match st with
  | BFinish => o = U.finish Hc Hf Bn hdr (absr tab' f') ev' /\
               Forall (UP.good Hc) (absr tab' f') /\ Forall UP.nofail (absr tab' f') /\ mcount tab' = O
  | BEmpty => U.o_status o = U.EmptyRange
  | BFuel => U.o_status o = U.OutOfFuel
  | BOOB => U.o_status o = U.TableOOB
  | BExit1 => False
  end.
Proof.
  induction fuel as [|fuel IH]; intros maxr ra fl f ev G NF.
  - cbn [byte_loop U.dl_loop]. rewrite (mcount_abs f (wtab cs fl) 0).
    destruct (mcount (wtab cs fl)) eqn:Mc; (split; [exists fl; reflexivity|]; split; [intros; reflexivity|]); auto.
  - cbn [byte_loop U.dl_loop]. rewrite (mcount_abs f (wtab cs fl) 0).
    destruct (mcount (wtab cs fl)) eqn:Mc.
    { split; [exists fl; reflexivity|]. split; [intros; reflexivity|]. auto. }
    set (tab := wtab cs fl) in *. set (sl := absr tab f) in *.
    (* the request *)
    assert (H64 : doff + R.total_len (LR.rtable 0 sl) < two64).
    { unfold sl, tab. rewrite (rtable_wtab f cs fl 0 0 St), total_rt. exact D64. }
    destruct (LR.link_missing_range doff sl maxr Dpos H64) as [cov [C1 [C2 [C3 _]]]].
    unfold sl, tab in C1. rewrite (rtable_wtab f cs fl 0 0 St) in C1. fold tab sl in C1. rewrite C1.
    destruct (U.missing_range maxr 0 0 None 0 sl) as [req cnt] eqn:MR. cbn [fst snd] in *.
    assert (Lc : length (R.entries cov) = length req).
    { unfold R.entries. rewrite map_length. apply (f_equal (@length N)) in C2. rewrite !map_length in C2. exact C2. }
    destruct (mr_prefix maxr sl 0 0 None 0) as [suf Pre]. rewrite MR in Pre. cbn [fst] in Pre.
    unfold sl in Pre. rewrite wanted_absr in Pre. fold sl in Pre.
    assert (Tg : map W.r_tgt (firstn (length (R.entries cov)) (S.missing_ridx tab)) = req).
    { rewrite <- firstn_map. unfold S.missing_ridx. rewrite missing_from_tgts, Pre, Lc.
      rewrite firstn_app, Nat.sub_diag, firstn_all. cbn [firstn]. apply app_nil_r. }
    destruct (R.entries cov) as [|e0 es] eqn:Een.
    { destruct req; [|discriminate Lc]. split; [exists fl; reflexivity|]. split; [intros; reflexivity|reflexivity]. }
    assert (Rne : req <> []) by (intros X; rewrite X in Lc; discriminate Lc).
    rewrite <- Een in Tg |- *. rewrite Tg.
    destruct (U.advance (length range_attempt) ra cnt) as [ra1|];
      [|split; [exists fl; reflexivity|]; split; [intros; reflexivity|]; destruct req; [contradiction|reflexivity]].
    assert (match req with [] => U.mkO U.EmptyRange (U.mkT hdr sl extra) ev | _ :: _ =>
              if cnt <=? srv then
                let (sl', ok) := U.place Hc req 0 sl in
                if ok then U.dl_loop Hc Hf fuel Bn srv hdr extra maxr ra1 sl' (ev ++ [U.Served req cnt])
                else U.mkO (U.Done 1) (U.mkT hdr sl' extra) (ev ++ [U.Served req cnt])
              else if 1 <? maxr then
                match U.tbl (S ra1) with
                | None => U.mkO U.TableOOB (U.mkT hdr sl extra) ev
                | Some m => U.dl_loop Hc Hf fuel Bn srv hdr extra m (S ra1) sl (ev ++ [U.Refused req cnt])
                end
              else U.dl_loop Hc Hf fuel Bn srv hdr extra maxr ra1 sl (ev ++ [U.Refused req cnt])
            end =
            if cnt <=? srv then
                let (sl', ok) := U.place Hc req 0 sl in
                if ok then U.dl_loop Hc Hf fuel Bn srv hdr extra maxr ra1 sl' (ev ++ [U.Served req cnt])
                else U.mkO (U.Done 1) (U.mkT hdr sl' extra) (ev ++ [U.Served req cnt])
              else if 1 <? maxr then
                match U.tbl (S ra1) with
                | None => U.mkO U.TableOOB (U.mkT hdr sl extra) ev
                | Some m => U.dl_loop Hc Hf fuel Bn srv hdr extra m (S ra1) sl (ev ++ [U.Refused req cnt])
                end
              else U.dl_loop Hc Hf fuel Bn srv hdr extra maxr ra1 sl (ev ++ [U.Refused req cnt])) as Unf
      by (destruct req; [contradiction|reflexivity]).
    rewrite Unf. clear Unf.
    destruct (cnt <=? srv).
    + (* served *)
      set (ridx := firstn (length (R.entries cov)) (S.missing_ridx tab)) in *.
      assert (Rne' : ridx <> []).
      { intros X. rewrite X in Tg. cbn in Tg. apply Rne. symmetry. exact Tg. }
      assert (Mne : S.missing_ridx tab <> []).
      { intros X. unfold ridx in Rne'. rewrite X, firstn_nil in Rne'. apply Rne'. reflexivity. }
      assert (Rq : P.req_ok doff ridx tab).
      { apply (req_ok_prefix doff ridx (skipn (length (R.entries cov)) (S.missing_ridx tab))); [|exact Rne'].
        unfold ridx. rewrite firstn_skipn. apply SP.missing_req_ok; [apply disjoint_wtab | exact Mne]. }
      assert (Dt : P.datas_ok Hw ridx tab (datas_of doff fb tab ridx)).
      { apply datas_ok_wtab. intros e Hin. unfold ridx in Hin.
        rewrite <- (firstn_skipn (length (R.entries cov)) (S.missing_ridx (wtab cs fl))). apply in_or_app. left. exact Hin. }
      assert (Srt : StronglySorted lt (map W.r_tgt ridx)).
      { unfold ridx. rewrite <- firstn_map. apply sorted_firstn. unfold S.missing_ridx. rewrite missing_from_tgts.
        apply wanted_w_sorted. }
      destruct (transfer_link Hw ds ul doff fb ridx tab f (serve ridx) Rq Dt (sized_wtab fl) Srt (Sv fl ridx Rq))
        as [tab' [f' [Run [Sh [Hd Pl]]]]].
      rewrite Run. rewrite Tg in Pl. fold sl in Pl. fold Hc in Pl. rewrite Pl.
      destruct (UP.mr_place_gen Hc sl maxr 0 0 None 0 req cnt MR G NF) as [sl' [Q1 [Q2 [Q3 _]]]].
      rewrite Pl in Q1. inversion Q1; subst sl'.
      rewrite (wtab_of_shape cs fl tab' Sh) in Q2, Q3 |- *.
      specialize (IH maxr ra1 (fl_of tab') f' (ev ++ [U.Served req cnt]) Q2 Q3).
      destruct (byte_loop fuel maxr ra1 (wtab cs (fl_of tab')) f' (ev ++ [U.Served req cnt])) as [[[st t2] f2] ev2].
      destruct IH as [I1 [I2 I3]]. split; [exact I1|]. split; [|exact I3].
      intros x Hx. rewrite (I2 x Hx). apply Hd. exact Hx.
    + destruct (1 <? maxr).
      * destruct (U.tbl (S ra1)) as [m|]; [|split; [exists fl; reflexivity|]; split; [intros; reflexivity|reflexivity]].
        specialize (IH m (S ra1) fl f (ev ++ [U.Refused req cnt]) G NF). fold tab sl in IH.
        destruct (byte_loop fuel m (S ra1) tab f (ev ++ [U.Refused req cnt])) as [[[st t2] f2] ev2]. exact IH.
      * specialize (IH maxr ra1 fl f (ev ++ [U.Refused req cnt]) G NF). fold tab sl in IH.
        destruct (byte_loop fuel maxr ra1 tab f (ev ++ [U.Refused req cnt])) as [[[st t2] f2] ev2]. exact IH.
Qed.

End Loop.
