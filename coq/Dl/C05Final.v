(** Compositions used by Props/Properties_C05.v and Properties_C17.v, and the witnesses
    for what is false without the hypothesis [nz_ridx] (D14: zero-length range-index entries). *)
From ZV Require Import Base.Bytes Dl.DlWrite Dl.Multipart Dl.FileLemmas Dl.DlProofs Dl.MpStream
  Dl.MpSafe Dl.DlInv Dl.DlPlace.
Local Open Scope N_scope.

(** T5.1 for the multipart layer with the law of [dlw] discharged *)
Theorem mpx_app_nz : forall H doff ridx rx_comp rx_exec,
  nz_ridx ridx ->
  forall x a b x1, a <> [] -> b <> [] ->
  mpx H doff ridx rx_comp rx_exec x a = (x1, MOk) ->
  d_err (x_dl x1) = false ->
  mpx H doff ridx rx_comp rx_exec x (a ++ b) = mpx H doff ridx rx_comp rx_exec x1 b.
Proof.
  intros H doff ridx rx_comp rx_exec Hnz. apply mpx_app. apply dlw_app. exact Hnz.
Qed.

(** a run of callbacks in which every invocation but the last returned through the normal
    exit of the loop with no error recorded; [r] is the outcome of the last invocation *)
Inductive mp_chain (H : bytes -> bytes) (doff : N) (ridx : list rentry) (rx_comp : bytes -> bool)
  (rx_exec : bytes -> bytes -> option ((N * N) * (N * N)))
  : xstate -> list bytes -> xstate * mstatus -> Prop :=
| mp_chain_last : forall x f, mp_chain H doff ridx rx_comp rx_exec x [f] (mpx H doff ridx rx_comp rx_exec x f)
| mp_chain_step : forall x f x1 rest r,
    mpx H doff ridx rx_comp rx_exec x f = (x1, MOk) -> d_err (x_dl x1) = false -> rest <> [] ->
    mp_chain H doff ridx rx_comp rx_exec x1 rest r ->
    mp_chain H doff ridx rx_comp rx_exec x (f :: rest) r.

Lemma concat_nonnil (l : list bytes) : l <> [] -> Forall (fun f => f <> []) l -> concat l <> [].
Proof.
  destruct l as [|f l]; [congruence|]. intros _ Hf. inversion Hf; subst. cbn [concat].
  destruct f; [congruence|discriminate].
Qed.

(** every partition of a multipart body into non-empty callback invocations ends exactly
    like the single invocation on the whole body *)
Theorem mpx_any_partition : forall H doff ridx rx_comp rx_exec,
  nz_ridx ridx ->
  forall frags x r, mp_chain H doff ridx rx_comp rx_exec x frags r ->
  Forall (fun f => f <> []) frags ->
  mpx H doff ridx rx_comp rx_exec x (concat frags) = r.
Proof.
  intros H doff ridx rx_comp rx_exec Hnz frags x r Hc.
  induction Hc as [x f|x f x1 rest r Hm He Hne Hc IH]; intros Hf.
  - cbn [concat]. rewrite app_nil_r. reflexivity.
  - inversion Hf; subst. cbn [concat].
    rewrite (mpx_app_nz H doff ridx rx_comp rx_exec Hnz x f (concat rest) x1); auto.
    apply concat_nonnil; assumption.
Qed.

(** * D14 (documentation): a zero-length entry in the range index makes the result depend on the
    fragmentation.  zck_get_missing_range no longer creates such entries (it skips zero-length chunks). *)
Module D14.
Definition toyH (bs : bytes) : bytes := [N.of_nat (length bs); fold_left N.add bs 0 mod 256].
Definition dA : bytes := [1; 2].
Definition dB : bytes := [3; 4].
Definition tab : list chunk :=
  [mkChunk 0 2 (toyH dA) VUnknown; mkChunk 2 0 [0; 0] VUnknown; mkChunk 2 2 (toyH dB) VUnknown].
Definition ridx : list rentry :=
  [mkRentry 0 2 (toyH dA) 0; mkRentry 2 0 [0; 0] 1; mkRentry 2 2 (toyH dB) 2].
Definition s0 : dlstate := mkDl false 0 0 None None None 0 [9; 9; 9; 9] tab.
Definition flags (s : dlstate) := map c_valid (d_tab s).

(** one call: the second half is dropped silently, chunk 2 is never written *)
Example one_call :
  let (s, r) := dlw toyH 0 ridx s0 (dA ++ dB) in
  r = DOk 2 /\ flags s = [VValid; VUnknown; VUnknown] /\ d_file s = [1; 2; 9; 9].
Proof. vm_compute. repeat split; reflexivity. Qed.

(** two calls: everything arrives *)
Example two_calls :
  let (s1, r1) := dlw toyH 0 ridx s0 dA in
  let (s2, r2) := dlw toyH 0 ridx s1 dB in
  r1 = DOk 2 /\ r2 = DOk 2 /\ flags s2 = [VValid; VValid; VValid] /\ d_file s2 = [1; 2; 3; 4].
Proof. vm_compute. repeat split; reflexivity. Qed.

Theorem streaming_refuted_with_zero_length_entry :
  ~ dlw_app_law toyH 0 ridx.
Proof.
  intros Hlaw.
  assert (Hx := Hlaw s0 dA dB (fst (dlw toyH 0 ridx s0 dA)) 2).
  assert (Hy : dlw toyH 0 ridx s0 (dA ++ dB) <>
               (let (s'', r) := dlw toyH 0 ridx (fst (dlw toyH 0 ridx s0 dA)) dB in (s'', dcomb 2 r))).
  { vm_compute. discriminate. }
  apply Hy. apply Hx; try discriminate. vm_compute. reflexivity.
Qed.
End D14.

(** * Non-vacuity of the multipart layer: a toy matcher, a two-part body, every split *)
Module MpExample.
Definition toyH := D14.toyH.
(* the matcher recognises "R<a>-<b>" placed anywhere in the header string, digits single *)
Fixpoint find_r (s : bytes) (k : N) : option ((N * N) * (N * N)) :=
  match s with
  | 82 :: a :: 45 :: b :: _ => Some ((k + 1, k + 2), (k + 3, k + 4))
  | _ :: t => find_r t (k + 1)
  | [] => None
  end.
Definition rx_exec (pat str : bytes) : option ((N * N) * (N * N)) :=
  match pat with 33 :: _ => None | _ => find_r str 0 end.
Definition rx_comp (_ : bytes) := true.
Definition tab : list chunk :=
  [mkChunk 0 2 (toyH [1; 2]) VUnknown; mkChunk 2 3 (toyH [7; 7; 7]) VValid; mkChunk 5 2 (toyH [3; 4]) VUnknown].
Definition ridx : list rentry := [mkRentry 0 2 (toyH [1; 2]) 0; mkRentry 2 2 (toyH [3; 4]) 2].
Definition x0 : xstate :=
  mkX (mkDl false 0 0 None None None 0 [9; 9; 7; 7; 7; 9; 9] tab) (mkMp false 0 []) (Some [66]) (Some ([63], [33])).
(* "R0-1" CRLFCRLF 1 2 "R5-6" CRLFCRLF 3 4 *)
Definition body : bytes := [82; 48; 45; 49; 13; 10; 13; 10; 1; 2; 82; 53; 45; 54; 13; 10; 13; 10; 3; 4].
Definition outcome (r : xstate * mstatus) := (d_file (x_dl (fst r)), map c_valid (d_tab (x_dl (fst r))), snd r).

Example whole :
  outcome (mpx toyH 0 ridx rx_comp rx_exec x0 body) = ([1; 2; 7; 7; 7; 3; 4], [VValid; VValid; VValid], MOk).
Proof. vm_compute. reflexivity. Qed.

Example every_single_cut :
  forallb (fun k =>
    let a := firstn k body in
    let b := skipn k body in
    let (x1, r1) := mpx toyH 0 ridx rx_comp rx_exec x0 a in
    match r1 with
    | MOk => let r2 := mpx toyH 0 ridx rx_comp rx_exec x1 b in
             bytes_eqb (d_file (x_dl (fst r2))) [1; 2; 7; 7; 7; 3; 4]
    | _ => false
    end) (seq 1 19) = true.
Proof. vm_compute. reflexivity. Qed.
End MpExample.

Print Assumptions mpx_app_nz.
Print Assumptions mpx_any_partition.
Print Assumptions D14.streaming_refuted_with_zero_length_entry.
