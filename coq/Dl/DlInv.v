(** Invariants of [dlw] (DlWrite.v) for arbitrary input bytes:
    T5.4 confinement ([dlw_confined]), T5.3 verification ([dlw_verified], [dlw_fail_zeroed]).

    Method: every property is shown for the primitives [dl_write], [set_chunk_valid], [select],
    [set_err], lifted to one iteration [dstep] and then to [dlw_f] by induction on the fuel
    ([dlw_f_inv]). *)
From ZV Require Import Base.Bytes Dl.DlWrite Dl.FileLemmas Dl.DlProofs.
Local Open Scope N_scope.

(** * [set_flag] pointwise *)
Definition reflag (c : chunk) (v : vflag) : chunk :=
  mkChunk (c_start c) (c_len c) (c_digest c) v.

Lemma set_flag_nil t v : set_flag [] t v = [].
Proof. unfold set_flag. destruct t; reflexivity. Qed.

Lemma set_flag_cons_S x tab t v : set_flag (x :: tab) (S t) v = x :: set_flag tab t v.
Proof. unfold set_flag. cbn [nth_error]. destruct (nth_error tab t); reflexivity. Qed.

Lemma set_flag_nth tab : forall t v t',
  nth_error (set_flag tab t v) t' =
  if Nat.eqb t' t then option_map (fun c => reflag c v) (nth_error tab t') else nth_error tab t'.
Proof.
  induction tab as [|x tab IH]; intros t v t'.
  - rewrite set_flag_nil. destruct (Nat.eqb t' t); destruct t'; reflexivity.
  - destruct t as [|t].
    + destruct t' as [|t']; reflexivity.
    + rewrite set_flag_cons_S. destruct t' as [|t']; [reflexivity|].
      cbn [nth_error]. rewrite IH. reflexivity.
Qed.

Lemma set_flag_inv tab t v t' c' :
  nth_error (set_flag tab t v) t' = Some c' ->
  exists c, nth_error tab t' = Some c /\
    c_start c' = c_start c /\ c_len c' = c_len c /\ c_digest c' = c_digest c /\
    (t' <> t -> c' = c) /\ (t' = t -> c_valid c' = v).
Proof.
  rewrite set_flag_nth. destruct (Nat.eqb_spec t' t) as [E|E].
  - destruct (nth_error tab t') as [c|]; cbn [option_map]; [|discriminate].
    intros Hx. inversion Hx; subst c'. exists c. unfold reflag. cbn.
    repeat split; try reflexivity. intros Hn. congruence.
  - intros Hx. exists c'. repeat split; try assumption; try reflexivity. intros Hn. congruence.
Qed.

(** * Small list/file facts *)
Lemma map_seq_shift {A} m : forall (f : nat -> A) n,
  map f (seq n m) = map (fun k => f (n + k)%nat) (seq 0 m).
Proof.
  induction m as [|m IH]; intros f n; [reflexivity|].
  cbn [seq map]. rewrite Nat.add_0_r. f_equal.
  rewrite (IH f (S n)), (IH (fun k => f (n + k)%nat) 1%nat).
  apply map_ext. intros k. f_equal. lia.
Qed.

Lemma fread_app f off n m :
  fread f off (n + m) = fread f off n ++ fread f (off + N.of_nat n) m.
Proof.
  unfold fread. rewrite seq_app, map_app. f_equal.
  rewrite map_seq_shift. apply map_ext. intros k. f_equal. lia.
Qed.

Lemma len_zero_nil (w : bytes) : len w = 0 -> w = [].
Proof. destruct w; [reflexivity|]. rewrite len_cons. lia. Qed.

Lemma wrap_fst wb r : fst (wrap wb r) = fst r.
Proof.
  destruct r as [s x]. unfold wrap. destruct x; try reflexivity.
  destruct (n =? 0); reflexivity.
Qed.

Lemma vflag_eq_dec (a b : vflag) : {a = b} + {a <> b}.
Proof. decide equality. Qed.

(** * Case analysis of the primitives *)
Lemma entry_matches_spec tab pos e c :
  entry_matches tab pos e = Some c ->
  nth_error tab (r_tgt e) = Some c /\ c_valid c <> VValid /\ r_len e = c_len c.
Proof.
  unfold entry_matches. destruct (r_start e =? pos); [|discriminate].
  destruct (nth_error tab (r_tgt e)) as [c1|]; [|discriminate].
  destruct (negb (is_valid (c_valid c1)) && (r_len e =? c_len c1) &&
            bytes_eqb (r_digest e) (c_digest c1)) eqn:E; [|discriminate].
  intros Hx. inversion Hx; subst c1. apply andb_prop in E. destruct E as [E _].
  apply andb_prop in E. destruct E as [E1 E2]. apply N.eqb_eq in E2.
  split; [reflexivity|]. split; [|exact E2].
  intros Hv. rewrite Hv in E1. discriminate.
Qed.

Lemma search_spec tab pos es : forall k k' e c,
  search tab pos es k = Some (k', e, c) -> In e es /\ entry_matches tab pos e = Some c.
Proof.
  induction es as [|e0 es IH]; intros k k' e c; cbn [search]; [discriminate|].
  destruct (entry_matches tab pos e0) as [c0|] eqn:Em.
  - intros Hx. inversion Hx; subst. split; [left; reflexivity|exact Em].
  - intros Hx. destruct (IH _ _ _ _ Hx) as [Hi Hm]. split; [right; exact Hi|exact Hm].
Qed.

Lemma dl_write_spec s bs s1 ok :
  dl_write s bs = (s1, ok) ->
  let wb := wbf s (len bs) in
  let w := firstn (N.to_nat wb) bs in
  d_tab s1 = d_tab s /\ d_tgt s1 = d_tgt s /\ d_wic s1 = d_wic s - wb /\
  d_fpos s1 = d_fpos s + wb /\
  d_file s1 = file_write (d_file s) (d_fpos s) w /\ wb <= d_wic s /\ len w = wb /\
  ((d_acc s1 = d_acc s /\ (wb = 0 \/ d_acc s = None)) \/
   (exists a, d_acc s = Some a /\ d_acc s1 = Some (a ++ w))) /\
  (ok = false -> d_err s1 = true).
Proof.
  unfold dl_write, wbf. destruct (0 <? d_wic s) eqn:E.
  - apply N.ltb_lt in E. cbv zeta.
    remember (N.min (d_wic s) (len bs)) as wb eqn:Hwb.
    assert (Hlw : len (firstn (N.to_nat wb) bs) = wb).
    { unfold len. rewrite firstn_length. unfold len in Hwb. lia. }
    remember (firstn (N.to_nat wb) bs) as w eqn:Hw.
    assert (Hle : wb <= d_wic s) by lia.
    destruct w as [|w0 w'].
    + intros Hx. inversion Hx; subst s1 ok. cbn [set_err d_tab d_tgt d_wic d_fpos d_file d_acc d_err].
      repeat (split; [first [reflexivity | assumption]|]).
      split; [|reflexivity]. left. split; [reflexivity|]. left. rewrite <- Hlw. reflexivity.
    + destruct (d_acc s) as [a|] eqn:Ea.
      * intros Hx. inversion Hx; subst s1 ok. cbn [d_tab d_tgt d_wic d_fpos d_file d_acc d_err].
        repeat (split; [first [reflexivity | assumption]|]).
        split; [|discriminate]. right. exists a. split; reflexivity.
      * intros Hx. inversion Hx; subst s1 ok. cbn [set_err d_tab d_tgt d_wic d_fpos d_file d_acc d_err].
        repeat (split; [first [reflexivity | assumption]|]).
        split; [|reflexivity]. left. split; [reflexivity|]. right. reflexivity.
  - apply N.ltb_ge in E. intros Hx. inversion Hx; subst s1 ok. cbv zeta.
    cbn [N.to_nat firstn]. rewrite file_write_nil.
    repeat (split; [first [reflexivity | lia]|]).
    split; [|discriminate]. left. split; [reflexivity|]. left. reflexivity.
Qed.

Section Inv.
Variable H : bytes -> bytes.
Variable doff : N.
Variable ridx : list rentry.

Notation dlw_f := (DlWrite.dlw_f H doff ridx).
Notation dlw := (DlWrite.dlw H doff ridx).
Notation settle := (DlWrite.settle H doff ridx).
Notation set_chunk_valid := (DlWrite.set_chunk_valid H doff).
Notation select := (DlWrite.select doff ridx).
Notation dstep := (DlProofs.dstep H doff ridx).

Lemma scv_cases s s1 ok :
  set_chunk_valid s = (s1, ok) ->
  (s1 = s /\ ok = true /\
   (d_tgt s = None \/ exists t, d_tgt s = Some t /\ nth_error (d_tab s) t = None)) \/
  exists t c, d_tgt s = Some t /\ nth_error (d_tab s) t = Some c /\
   ((d_acc s = None /\ ok = false /\
     s1 = mkDl true (d_pos s) (d_wic s) (d_tgt s) (d_cur s) None (d_fpos s) (d_file s)
               (set_flag (d_tab s) t VFailed)) \/
    (exists acc, d_acc s = Some acc /\ chunk_digest_ok H c acc = true /\ ok = true /\
     s1 = mkDl (d_err s) (d_pos s) (d_wic s) None (d_cur s) None (d_fpos s) (d_file s)
               (set_flag (d_tab s) t VValid)) \/
    (exists acc, d_acc s = Some acc /\ chunk_digest_ok H c acc = false /\ ok = false /\
     s1 = mkDl (d_err s) (d_pos s) (d_wic s) (d_tgt s) (d_cur s) None
               (doff + c_start c + c_len c)
               (file_write (d_file s) (doff + c_start c) (repeat 0 (N.to_nat (c_len c))))
               (set_flag (d_tab s) t VFailed))).
Proof.
  unfold DlWrite.set_chunk_valid. destruct (d_tgt s) as [t|] eqn:Et.
  - destruct (nth_error (d_tab s) t) as [c|] eqn:Ec.
    + intros Hx. right. exists t, c. split; [reflexivity|]. split; [exact Ec|].
      destruct (d_acc s) as [acc|] eqn:Ea.
      * destruct (chunk_digest_ok H c acc) eqn:Eok; inversion Hx; subst s1 ok.
        -- right. left. exists acc. repeat split; try reflexivity. exact Eok.
        -- right. right. exists acc. repeat split; try reflexivity. exact Eok.
      * inversion Hx; subst s1 ok. left. repeat split; reflexivity.
    + intros Hx. inversion Hx; subst s1 ok. left. repeat split; try reflexivity.
      right. exists t. split; [reflexivity|exact Ec].
  - intros Hx. inversion Hx; subst s1 ok. left. repeat split; try reflexivity. left. reflexivity.
Qed.

Lemma select_cases s :
  (exists k0, select s = mkDl (d_err s) (d_pos s) (d_wic s) (d_tgt s) (Some k0) (d_acc s)
                              (d_fpos s) (d_file s) (d_tab s)) \/
  (exists e c cur, In e ridx /\ nth_error (d_tab s) (r_tgt e) = Some c /\
     c_valid c <> VValid /\ r_len e = c_len c /\
     select s = mkDl (d_err s) (d_pos s) (c_len c) (Some (r_tgt e)) cur (Some [])
                     (doff + c_start c) (d_file s) (d_tab s)).
Proof.
  unfold DlWrite.select.
  set (k0 := match d_cur s with Some k => k | None => 0%nat end).
  destruct (search (d_tab s) (d_pos s) (skipn k0 ridx) k0) as [[[k e] c]|] eqn:Es.
  - right. destruct (search_spec _ _ _ _ _ _ _ Es) as [Hi Hm]. apply In_skipn in Hi.
    destruct (entry_matches_spec _ _ _ _ Hm) as (Hn & Hv & Hl).
    exists e, c, (if (S k <? length ridx)%nat then Some (S k) else None).
    repeat split; try assumption. rewrite Hl. reflexivity.
  - left. exists k0. reflexivity.
Qed.

(** * Generic invariant principle *)
Section Generic.
Variable P : dlstate -> Prop.
Hypothesis P_err : forall s, P s -> P (set_err s).
Hypothesis P_write : forall s bs s1 ok, P s -> dl_write s bs = (s1, ok) -> P s1.
Hypothesis P_scv : forall s s1 ok, P s -> d_wic s = 0 -> set_chunk_valid s = (s1, ok) -> P s1.
Hypothesis P_select : forall s, P s -> d_wic s = 0 -> P (select s).

Lemma settle_inv s s2 ok : P s -> d_wic s = 0 -> settle s = (s2, ok) -> P s2.
Proof.
  intros HP Hw. unfold DlWrite.settle. destruct (set_chunk_valid s) as [sv okv] eqn:Ev.
  pose proof (P_scv _ _ _ HP Hw Ev) as HPv.
  destruct okv; intros Hx; inversion Hx; subst.
  - apply P_select; [exact HPv|]. destruct (scv_ok H doff _ _ Ev) as (_ & Hwic & _). congruence.
  - exact HPv.
Qed.

Lemma dstep_inv s bs : P s ->
  match dstep s bs with SDone s' _ => P s' | SMore s2 _ => P s2 end.
Proof.
  intros HP. unfold DlProofs.dstep. destruct (d_err s); [exact HP|].
  destruct (guard ridx s); [apply P_err; exact HP|].
  destruct (dl_write s bs) as [s1 ok] eqn:Ew. pose proof (P_write _ _ _ _ HP Ew) as HP1.
  destruct ok; cbn [negb]; [|exact HP1].
  destruct (d_wic s1 =? 0) eqn:E0.
  - apply N.eqb_eq in E0. destruct (settle s1) as [s2 ok2] eqn:Es.
    pose proof (settle_inv _ _ _ HP1 E0 Es) as HP2.
    destruct ok2; cbn [negb]; [|exact HP2].
    destruct ((0 <? d_wic s2) && _); exact HP2.
  - cbn [negb]. destruct ((0 <? d_wic s1) && _); exact HP1.
Qed.

Lemma dlw_f_inv f : forall s bs s' r, P s -> dlw_f f s bs = (s', r) -> P s'.
Proof.
  induction f as [|f IH]; intros s bs s' r HP.
  - cbn [DlWrite.dlw_f]. intros Hx; inversion Hx; subst; exact HP.
  - rewrite (dlw_f_S H doff ridx). pose proof (dstep_inv s bs HP) as Hd.
    destruct (dstep s bs) as [s1 r1|s2 wb].
    + intros Hx; inversion Hx; subst; exact Hd.
    + intros Hx. destruct (dlw_f f s2 (skipn (N.to_nat wb) bs)) as [s3 r3] eqn:E.
      pose proof (wrap_fst wb (s3, r3)) as Hf. rewrite Hx in Hf. cbn [fst] in Hf. subst s'.
      eapply IH; [exact Hd|exact E].
Qed.
End Generic.

(** * T5.4: the state invariant and confinement *)
Definition in_ext (c : chunk) (x : N) : Prop :=
  doff + c_start c <= x < doff + c_start c + c_len c.

(** chunk [t] may be filled: it is the target of a range-index entry and was not valid initially *)
Definition fillable (tab0 : list chunk) (t : nat) : Prop :=
  exists c e, nth_error tab0 t = Some c /\ c_valid c <> VValid /\ In e ridx /\ r_tgt e = t.

(** tables differ only in the valid flags *)
Definition same_shape (tab tab' : list chunk) : Prop :=
  length tab = length tab' /\
  forall t c c', nth_error tab t = Some c -> nth_error tab' t = Some c' ->
    c_start c' = c_start c /\ c_len c' = c_len c /\ c_digest c' = c_digest c.

(** state invariant relative to the initial table [tab0] *)
Definition dl_wf (tab0 : list chunk) (s : dlstate) : Prop :=
  same_shape tab0 (d_tab s) /\
  (forall t c c', nth_error tab0 t = Some c -> c_valid c = VValid ->
      nth_error (d_tab s) t = Some c' -> c_valid c' = VValid) /\
  (forall t c, d_tgt s = Some t -> nth_error (d_tab s) t = Some c -> fillable tab0 t) /\
  (0 < d_wic s -> exists t c, d_tgt s = Some t /\ nth_error (d_tab s) t = Some c /\
      doff + c_start c <= d_fpos s /\ d_fpos s + d_wic s = doff + c_start c + c_len c).

Definition outside (tab0 : list chunk) (x : N) : Prop :=
  forall t c, nth_error tab0 t = Some c -> fillable tab0 t -> ~ in_ext c x.

(** [x] lies in the extent of the pending target *)
Definition touch (s : dlstate) (x : N) : Prop :=
  exists t c, d_tgt s = Some t /\ nth_error (d_tab s) t = Some c /\ in_ext c x.

Lemma same_shape_refl tab : same_shape tab tab.
Proof.
  split; [reflexivity|]. intros t c c' H1 H2. rewrite H1 in H2. inversion H2; subst.
  repeat split; reflexivity.
Qed.

Lemma same_shape_cur tab0 tab t c :
  same_shape tab0 tab -> nth_error tab t = Some c ->
  exists c0, nth_error tab0 t = Some c0 /\
    c_start c = c_start c0 /\ c_len c = c_len c0 /\ c_digest c = c_digest c0.
Proof.
  intros [Hl Hs] Hn. destruct (nth_error tab0 t) as [c0|] eqn:E0.
  - exists c0. split; [reflexivity|]. exact (Hs _ _ _ E0 Hn).
  - exfalso. apply nth_error_None in E0.
    assert (t < length tab)%nat by (apply nth_error_Some; congruence). lia.
Qed.

Lemma same_shape_set_flag tab0 tab t v :
  same_shape tab0 tab -> same_shape tab0 (set_flag tab t v).
Proof.
  intros [Hl Hs]. split; [rewrite set_flag_length; exact Hl|].
  intros t' c c' H0 H1. destruct (set_flag_inv _ _ _ _ _ H1) as (c1 & Hn & Hst & Hle & Hdg & _).
  destruct (Hs _ _ _ H0 Hn) as (A & B & C). repeat split; congruence.
Qed.

Lemma dl_wf_ext tab0 s s' :
  d_tab s' = d_tab s -> d_tgt s' = d_tgt s -> d_wic s' = d_wic s -> d_fpos s' = d_fpos s ->
  dl_wf tab0 s -> dl_wf tab0 s'.
Proof. intros Ht Hg Hw Hf. unfold dl_wf. rewrite Ht, Hg, Hw, Hf. auto. Qed.

Lemma dl_wf_init tab0 fpos file :
  dl_wf tab0 (mkDl false 0 0 None None None fpos file tab0).
Proof.
  unfold dl_wf. cbn [d_tab d_tgt d_wic d_fpos]. split; [apply same_shape_refl|].
  split; [intros t c c' H0 Hv H1; congruence|]. split; [intros t c Hx; discriminate|].
  intros Hx. lia.
Qed.

Lemma dl_wf_err tab0 s : dl_wf tab0 s -> dl_wf tab0 (set_err s).
Proof. apply dl_wf_ext; reflexivity. Qed.

Lemma dl_wf_write tab0 s bs s1 ok :
  dl_wf tab0 s -> dl_write s bs = (s1, ok) -> dl_wf tab0 s1.
Proof.
  intros (W1 & W2 & W3 & W4) Hw.
  destruct (dl_write_spec _ _ _ _ Hw) as (Htab & Htgt & Hwic & Hfpos & _ & Hle & _).
  unfold dl_wf. rewrite Htab, Htgt. split; [exact W1|]. split; [exact W2|]. split; [exact W3|].
  intros Hpos. rewrite Hwic in Hpos.
  destruct W4 as (t & c & Hg & Hn & Ha & Hb); [lia|].
  exists t, c. rewrite Hfpos, Hwic. repeat split; try assumption; lia.
Qed.

Lemma dl_wf_set_flag tab0 s s' t c v :
  dl_wf tab0 s -> d_tgt s = Some t -> nth_error (d_tab s) t = Some c ->
  d_tab s' = set_flag (d_tab s) t v -> (d_tgt s' = d_tgt s \/ d_tgt s' = None) ->
  d_wic s' = 0 -> dl_wf tab0 s'.
Proof.
  intros (W1 & W2 & W3 & W4) Hg Hn Htab Htgt Hwic. unfold dl_wf. rewrite Htab, Hwic.
  split; [apply same_shape_set_flag; exact W1|].
  split; [|split; [|intros Hx; lia]].
  - intros t' c0 c' H0 Hv H1.
    destruct (set_flag_inv _ _ _ _ _ H1) as (c1 & Hn1 & _ & _ & _ & Hne & _).
    destruct (Nat.eq_dec t' t) as [E|E].
    + exfalso. subst t'. destruct (W3 _ _ Hg Hn) as (c2 & e & Hn2 & Hv2 & _).
      rewrite H0 in Hn2. inversion Hn2; subst c2. contradiction.
    + rewrite (Hne E). exact (W2 _ _ _ H0 Hv Hn1).
  - intros t' c' Hg' H1. destruct (set_flag_inv _ _ _ _ _ H1) as (c1 & Hn1 & _).
    destruct Htgt as [Ht|Ht]; rewrite Ht in Hg'; [|discriminate].
    exact (W3 _ _ Hg' Hn1).
Qed.

Lemma dl_wf_scv tab0 s s1 ok :
  dl_wf tab0 s -> d_wic s = 0 -> set_chunk_valid s = (s1, ok) -> dl_wf tab0 s1.
Proof.
  intros W Hw Hs. destruct (scv_cases _ _ _ Hs) as [(-> & _)|(t & c & Hg & Hn & Hc)]; [exact W|].
  destruct Hc as [(_ & _ & ->)|[(acc & _ & _ & _ & ->)|(acc & _ & _ & _ & ->)]];
    eapply (dl_wf_set_flag tab0 s _ t c); try eassumption; cbn; auto.
Qed.

Lemma dl_wf_select tab0 s : dl_wf tab0 s -> dl_wf tab0 (select s).
Proof.
  intros W. destruct (select_cases s) as [(k0 & ->)|(e & c & cur & Hi & Hn & Hv & Hl & ->)].
  - revert W. apply dl_wf_ext; reflexivity.
  - destruct W as (W1 & W2 & W3 & W4). unfold dl_wf. cbn [d_tab d_tgt d_wic d_fpos].
    split; [exact W1|]. split; [exact W2|]. split.
    + intros t c' Hx _. inversion Hx; subst t.
      destruct (same_shape_cur _ _ _ _ W1 Hn) as (c0 & Hn0 & _).
      exists c0, e. split; [exact Hn0|]. split; [|split; [exact Hi|reflexivity]].
      intros Hv0. apply Hv. exact (W2 _ _ _ Hn0 Hv0 Hn).
    + intros _. exists (r_tgt e), c. repeat split; try assumption; try reflexivity; try lia.
Qed.

Lemma touch_outside tab0 s x : dl_wf tab0 s -> touch s x -> outside tab0 x -> False.
Proof.
  intros (W1 & _ & W3 & _) (t & c & Hg & Hn & Hin) Hout.
  pose proof (W3 _ _ Hg Hn) as Hf.
  destruct (same_shape_cur _ _ _ _ W1 Hn) as (c0 & Hn0 & Hs & Hl & _).
  apply (Hout _ _ Hn0 Hf). unfold in_ext in *. rewrite <- Hs, <- Hl. exact Hin.
Qed.

Lemma dl_write_touch tab0 s bs s1 ok :
  dl_wf tab0 s -> dl_write s bs = (s1, ok) ->
  forall x, fget (d_file s1) x = fget (d_file s) x \/ touch s x.
Proof.
  intros (_ & _ & _ & W4) Hw x.
  destruct (dl_write_spec _ _ _ _ Hw) as (_ & _ & _ & _ & Hfile & Hle & Hlw & _).
  rewrite Hfile, fget_file_write, Hlw.
  destruct ((d_fpos s <=? x) && (x <? d_fpos s + wbf s (len bs))) eqn:E; [|left; reflexivity].
  right. apply andb_prop in E. destruct E as [E1 E2]. apply N.leb_le in E1. apply N.ltb_lt in E2.
  destruct W4 as (t & c & Hg & Hn & Ha & Hb); [lia|].
  exists t, c. split; [exact Hg|]. split; [exact Hn|]. unfold in_ext. lia.
Qed.

Lemma scv_touch s s1 ok :
  set_chunk_valid s = (s1, ok) ->
  forall x, fget (d_file s1) x = fget (d_file s) x \/ touch s x.
Proof.
  intros Hs x. destruct (scv_cases _ _ _ Hs) as [(-> & _)|(t & c & Hg & Hn & Hc)]; [left; reflexivity|].
  destruct Hc as [(_ & _ & ->)|[(acc & _ & _ & _ & ->)|(acc & _ & _ & _ & ->)]];
    cbn [d_file]; try (left; reflexivity).
  rewrite fget_file_write.
  destruct ((doff + c_start c <=? x) && _) eqn:E; [|left; reflexivity].
  right. apply andb_prop in E. destruct E as [E1 E2]. apply N.leb_le in E1. apply N.ltb_lt in E2.
  unfold len in E2. rewrite repeat_length in E2.
  exists t, c. split; [exact Hg|]. split; [exact Hn|]. unfold in_ext. lia.
Qed.

Lemma select_file s : d_file (select s) = d_file s.
Proof.
  destruct (select_cases s) as [(k0 & ->)|(e & c & cur & _ & _ & _ & _ & ->)]; reflexivity.
Qed.

Lemma select_tab s : d_tab (select s) = d_tab s.
Proof.
  destruct (select_cases s) as [(k0 & ->)|(e & c & cur & _ & _ & _ & _ & ->)]; reflexivity.
Qed.

Definition confined (tab0 : list chunk) (f0 : bytes) (s : dlstate) : Prop :=
  dl_wf tab0 s /\ forall x, outside tab0 x -> fget (d_file s) x = fget f0 x.

Lemma dlw_f_confined tab0 f s bs s' r :
  dl_wf tab0 s -> dlw_f f s bs = (s', r) -> confined tab0 (d_file s) s'.
Proof.
  intros W. apply (dlw_f_inv (confined tab0 (d_file s))).
  - intros s0 [W0 F0]. split; [apply dl_wf_err; exact W0|exact F0].
  - intros s0 bs0 s1 ok [W0 F0] Hw. split; [exact (dl_wf_write _ _ _ _ _ W0 Hw)|].
    intros x Hx. destruct (dl_write_touch _ _ _ _ _ W0 Hw x) as [E|T].
    + rewrite E. apply F0. exact Hx.
    + exfalso. exact (touch_outside _ _ _ W0 T Hx).
  - intros s0 s1 ok [W0 F0] Hwic Hs. split; [exact (dl_wf_scv _ _ _ _ W0 Hwic Hs)|].
    intros x Hx. destruct (scv_touch _ _ _ Hs x) as [E|T].
    + rewrite E. apply F0. exact Hx.
    + exfalso. exact (touch_outside _ _ _ W0 T Hx).
  - intros s0 [W0 F0] _. split; [apply dl_wf_select; exact W0|].
    rewrite select_file. exact F0.
  - split; [exact W|]. intros x _. reflexivity.
Qed.

(** T5.4 *)
Theorem dlw_confined : forall tab0 s bs s' r,
  dl_wf tab0 s -> dlw s bs = (s', r) ->
  dl_wf tab0 s' /\
  (forall x, (forall t c, nth_error tab0 t = Some c -> fillable tab0 t -> ~ in_ext c x) ->
             fget (d_file s') x = fget (d_file s) x).
Proof.
  intros tab0 s bs s' r W Hrun. exact (dlw_f_confined _ _ _ _ _ _ W Hrun).
Qed.


Lemma same_shape_init tab0 tab t c :
  same_shape tab0 tab -> nth_error tab0 t = Some c ->
  exists c', nth_error tab t = Some c' /\
    c_start c' = c_start c /\ c_len c' = c_len c /\ c_digest c' = c_digest c.
Proof.
  intros [Hl Hs] Hn. destruct (nth_error tab t) as [c'|] eqn:E.
  - exists c'. split; [reflexivity|]. exact (Hs _ _ _ Hn E).
  - exfalso. apply nth_error_None in E.
    assert (t < length tab0)%nat by (apply nth_error_Some; congruence). lia.
Qed.

(** an initially valid chunk keeps its flag, and its bytes provided no fillable chunk overlaps it *)
Corollary dlw_valid_kept : forall tab0 s bs s' r t c,
  dl_wf tab0 s -> dlw s bs = (s', r) ->
  nth_error tab0 t = Some c -> c_valid c = VValid ->
  (forall t' c' x, nth_error tab0 t' = Some c' -> fillable tab0 t' ->
                   in_ext c x -> in_ext c' x -> False) ->
  (exists c', nth_error (d_tab s') t = Some c' /\ c_valid c' = VValid /\
              c_start c' = c_start c /\ c_len c' = c_len c /\ c_digest c' = c_digest c) /\
  fread (d_file s') (doff + c_start c) (N.to_nat (c_len c)) =
  fread (d_file s) (doff + c_start c) (N.to_nat (c_len c)).
Proof.
  intros tab0 s bs s' r t c W Hrun Hn Hv Hdis.
  destruct (dlw_confined _ _ _ _ _ W Hrun) as [(W1 & W2 & _) Hfr].
  split.
  - destruct (same_shape_init _ _ _ _ W1 Hn) as (c' & Hn' & Hs & Hl & Hd).
    exists c'. split; [exact Hn'|]. split; [exact (W2 _ _ _ Hn Hv Hn')|]. auto.
  - apply fread_ext. intros x Hx. apply Hfr. intros t' c' Hn' Hf Hin'.
    apply (Hdis t' c' x Hn' Hf); [|exact Hin']. unfold in_ext. lia.
Qed.

(** * T5.3: verification *)
Definition chunk_ok (c : chunk) (bs : bytes) : Prop := chunk_digest_ok H c bs = true.

Definition disjoint_tab (tab0 : list chunk) : Prop :=
  forall t1 t2 c1 c2 x, t1 <> t2 -> nth_error tab0 t1 = Some c1 -> nth_error tab0 t2 = Some c2 ->
    in_ext c1 x -> in_ext c2 x -> False.

(** the pending target is not marked valid, and the hash accumulator holds exactly the bytes
    already written into its extent *)
Definition tgt_ok (s : dlstate) : Prop :=
  forall t c, d_tgt s = Some t -> nth_error (d_tab s) t = Some c ->
    c_valid c <> VValid /\
    forall a, d_acc s = Some a ->
      a = fread (d_file s) (doff + c_start c) (N.to_nat (c_len c - d_wic s)).

Definition dl_wf2 (tab0 : list chunk) (s : dlstate) : Prop := dl_wf tab0 s /\ tgt_ok s.

Definition verified (tab0 : list chunk) (s : dlstate) : Prop :=
  forall t c c0, nth_error tab0 t = Some c0 -> c_valid c0 <> VValid ->
    nth_error (d_tab s) t = Some c -> c_valid c = VValid ->
    chunk_ok c (fread (d_file s) (doff + c_start c) (N.to_nat (c_len c))).

Corollary dlw_valid_kept_disjoint : forall tab0 s bs s' r t c,
  disjoint_tab tab0 -> dl_wf tab0 s -> dlw s bs = (s', r) ->
  nth_error tab0 t = Some c -> c_valid c = VValid ->
  (exists c', nth_error (d_tab s') t = Some c' /\ c_valid c' = VValid /\
              c_start c' = c_start c /\ c_len c' = c_len c /\ c_digest c' = c_digest c) /\
  fread (d_file s') (doff + c_start c) (N.to_nat (c_len c)) =
  fread (d_file s) (doff + c_start c) (N.to_nat (c_len c)).
Proof.
  intros tab0 s bs s' r t c D W Hrun Hn Hv. apply (dlw_valid_kept _ _ _ _ _ _ _ W Hrun Hn Hv).
  intros t' c' x Hn' (c2 & e & Hn2 & Hv2 & _) Hin Hin'.
  rewrite Hn' in Hn2. inversion Hn2; subst c2.
  apply (D t t' c c' x); try assumption. intros E. subst t'. congruence.
Qed.

Lemma dl_wf2_init tab0 fpos file :
  dl_wf2 tab0 (mkDl false 0 0 None None None fpos file tab0).
Proof. split; [apply dl_wf_init|]. intros t c Hx. discriminate. Qed.

Lemma verified_init tab0 fpos file :
  verified tab0 (mkDl false 0 0 None None None fpos file tab0).
Proof. intros t c c0 H0 Hv0 Hn Hv. cbn [d_tab] in Hn. congruence. Qed.

Lemma disjoint_cur tab0 tab : disjoint_tab tab0 -> same_shape tab0 tab -> disjoint_tab tab.
Proof.
  intros D W t1 t2 c1 c2 x Hne H1 H2 I1 I2.
  destruct (same_shape_cur _ _ _ _ W H1) as (d1 & G1 & S1 & L1 & _).
  destruct (same_shape_cur _ _ _ _ W H2) as (d2 & G2 & S2 & L2 & _).
  apply (D t1 t2 d1 d2 x Hne G1 G2); unfold in_ext in *; [rewrite <- S1, <- L1|rewrite <- S2, <- L2];
    assumption.
Qed.

(** ** [tgt_ok] *)
Lemma tgt_ok_ext s s' :
  d_tab s' = d_tab s -> d_tgt s' = d_tgt s -> d_wic s' = d_wic s -> d_acc s' = d_acc s ->
  d_file s' = d_file s -> tgt_ok s -> tgt_ok s'.
Proof. intros Ht Hg Hw Ha Hf. unfold tgt_ok. rewrite Ht, Hg, Hw, Ha, Hf. auto. Qed.

Lemma tgt_ok_write tab0 s bs s1 ok :
  dl_wf tab0 s -> tgt_ok s -> dl_write s bs = (s1, ok) -> tgt_ok s1.
Proof.
  intros (_ & _ & _ & W4) T Hw.
  destruct (dl_write_spec _ _ _ _ Hw) as (Htab & Htgt & Hwic & Hfpos & Hfile & Hle & Hlw & Hacc & _).
  set (wb := wbf s (len bs)) in *. set (w := firstn (N.to_nat wb) bs) in *.
  intros t c Hg Hn. rewrite Htgt in Hg. rewrite Htab in Hn.
  destruct (T t c Hg Hn) as [Hv Ha]. split; [exact Hv|].
  intros a1 Ha1. rewrite Hfile, Hwic.
  destruct (N.eq_dec wb 0) as [Hz|Hnz].
  - assert (Hw0 : w = []) by (apply len_zero_nil; lia).
    rewrite Hw0, file_write_nil, Hz, N.sub_0_r.
    destruct Hacc as [[Hsame _]|(a & Has & Has1)].
    + apply Ha. congruence.
    + rewrite Hw0, app_nil_r in Has1. apply Ha. congruence.
  - destruct Hacc as [[Hsame [Hor|Hor]]|(a & Has & Has1)]; [contradiction|congruence|].
    rewrite Has1 in Ha1. inversion Ha1; subst a1. specialize (Ha a Has).
    destruct W4 as (t' & c' & Hg' & Hn' & Hlo & Hhi); [lia|].
    assert (t' = t) by congruence. subst t'. assert (c' = c) by congruence. subst c'.
    replace (N.to_nat (c_len c - (d_wic s - wb)))
      with (N.to_nat (c_len c - d_wic s) + length w)%nat by (unfold len in Hlw; lia).
    rewrite fread_app. f_equal.
    + rewrite Ha. apply fread_ext. intros x Hx. rewrite fget_file_write.
      replace (d_fpos s <=? x) with false by (symmetry; apply N.leb_gt; lia). reflexivity.
    + replace (doff + c_start c + N.of_nat (N.to_nat (c_len c - d_wic s))) with (d_fpos s) by lia.
      symmetry. apply fread_file_write.
Qed.

Lemma tgt_ok_failed s s' t :
  d_tgt s' = Some t -> d_tab s' = set_flag (d_tab s) t VFailed -> d_acc s' = None -> tgt_ok s'.
Proof.
  intros Hg Htab Hacc t' c' Hg' Hn'. rewrite Hg in Hg'. inversion Hg'; subst t'.
  rewrite Htab in Hn'. destruct (set_flag_inv _ _ _ _ _ Hn') as (c1 & _ & _ & _ & _ & _ & Hv).
  split; [rewrite (Hv eq_refl); discriminate|]. intros a Ha. congruence.
Qed.

Lemma tgt_ok_scv s s1 ok : tgt_ok s -> set_chunk_valid s = (s1, ok) -> tgt_ok s1.
Proof.
  intros T Hs. destruct (scv_cases _ _ _ Hs) as [(-> & _)|(t & c & Hg & Hn & Hc)]; [exact T|].
  destruct Hc as [(_ & _ & ->)|[(acc & _ & _ & _ & ->)|(acc & _ & _ & _ & ->)]].
  - apply (tgt_ok_failed s _ t); cbn; auto.
  - intros t' c' Hx. discriminate.
  - apply (tgt_ok_failed s _ t); cbn; auto.
Qed.

Lemma tgt_ok_select s : tgt_ok s -> tgt_ok (select s).
Proof.
  intros T. destruct (select_cases s) as [(k0 & ->)|(e & c & cur & Hi & Hn & Hv & Hl & ->)].
  - revert T. apply tgt_ok_ext; reflexivity.
  - intros t c' Hg Hn'. cbn [d_tgt d_tab d_acc d_file d_wic] in *. inversion Hg; subst t.
    assert (c' = c) by congruence. subst c'. split; [exact Hv|].
    intros a Ha. inversion Ha; subst a. rewrite N.sub_diag. reflexivity.
Qed.

(** ** [verified] *)
Lemma verified_ext tab0 s s' :
  d_tab s' = d_tab s -> d_file s' = d_file s -> verified tab0 s -> verified tab0 s'.
Proof. intros Ht Hf. unfold verified. rewrite Ht, Hf. auto. Qed.

Lemma untouched tab0 s f1 t c :
  disjoint_tab tab0 -> dl_wf tab0 s -> (forall tt, d_tgt s = Some tt -> t <> tt) ->
  nth_error (d_tab s) t = Some c ->
  (forall x, fget f1 x = fget (d_file s) x \/ touch s x) ->
  fread f1 (doff + c_start c) (N.to_nat (c_len c)) =
  fread (d_file s) (doff + c_start c) (N.to_nat (c_len c)).
Proof.
  intros D (W1 & _) Hne Hn Hfr. apply fread_ext. intros x Hx.
  destruct (Hfr x) as [E|(tt & cc & Hg & Hnn & Hin)]; [exact E|]. exfalso.
  apply (disjoint_cur _ _ D W1 t tt c cc x (Hne _ Hg) Hn Hnn); [|exact Hin].
  unfold in_ext. lia.
Qed.

Lemma verified_write tab0 s bs s1 ok :
  disjoint_tab tab0 -> dl_wf tab0 s -> tgt_ok s -> verified tab0 s ->
  dl_write s bs = (s1, ok) -> verified tab0 s1.
Proof.
  intros D W T V Hw t c c0 H0 Hv0 Hn Hv.
  destruct (dl_write_spec _ _ _ _ Hw) as (Htab & _). rewrite Htab in Hn.
  rewrite (untouched tab0 s (d_file s1) t c D W).
  - exact (V _ _ _ H0 Hv0 Hn Hv).
  - intros tt Hg E. subst tt. destruct (T _ _ Hg Hn) as [Hnv _]. contradiction.
  - exact Hn.
  - exact (dl_write_touch _ _ _ _ _ W Hw).
Qed.

Lemma verified_scv tab0 s s1 ok :
  disjoint_tab tab0 -> dl_wf tab0 s -> tgt_ok s -> verified tab0 s -> d_wic s = 0 ->
  set_chunk_valid s = (s1, ok) -> verified tab0 s1.
Proof.
  intros D W T V Hwic Hs.
  pose proof (scv_touch _ _ _ Hs) as Htouch.
  destruct (scv_cases _ _ _ Hs) as [(-> & _)|(tt & cc & Hg & Hnn & Hc)]; [exact V|].
  intros t c c0 H0 Hv0 Hn Hv.
  assert (Htab : d_tab s1 = set_flag (d_tab s) tt (if ok then VValid else VFailed)).
  { destruct Hc as [(_ & -> & ->)|[(acc & _ & _ & -> & ->)|(acc & _ & _ & -> & ->)]]; reflexivity. }
  rewrite Htab in Hn.
  destruct (set_flag_inv _ _ _ _ _ Hn) as (c1 & Hn1 & Hst & Hle & Hdg & Hother & Hsame).
  destruct (Nat.eq_dec t tt) as [E|E].
  - (* the chunk that was just settled *)
    subst t. specialize (Hsame eq_refl). assert (c1 = cc) by congruence. subst c1.
    destruct Hc as [(_ & -> & _)|[(acc & Hacc & Hok & _ & ->)|(acc & _ & _ & -> & _)]];
      try (rewrite Hsame in Hv; discriminate).
    cbn [d_file]. destruct (T _ _ Hg Hnn) as [_ Ha]. specialize (Ha acc Hacc).
    rewrite Hwic, N.sub_0_r in Ha.
    unfold chunk_ok, chunk_digest_ok. rewrite Hst, Hle, Hdg, <- Ha. exact Hok.
  - rewrite (Hother E) in *. clear Hother Hsame.
    rewrite (untouched tab0 s (d_file s1) t c1 D W).
    + exact (V _ _ _ H0 Hv0 Hn1 Hv).
    + intros t2 Hg2 E2. apply E. congruence.
    + exact Hn1.
    + exact Htouch.
Qed.

Definition checked (tab0 : list chunk) (s : dlstate) : Prop := dl_wf2 tab0 s /\ verified tab0 s.

Lemma dlw_f_checked tab0 f s bs s' r :
  disjoint_tab tab0 -> checked tab0 s -> dlw_f f s bs = (s', r) -> checked tab0 s'.
Proof.
  intros D. apply (dlw_f_inv (checked tab0)).
  - intros s0 [[W0 T0] V0]. split; [split|].
    + apply dl_wf_err; exact W0.
    + revert T0. apply tgt_ok_ext; reflexivity.
    + revert V0. apply verified_ext; reflexivity.
  - intros s0 bs0 s1 ok [[W0 T0] V0] Hw. split; [split|].
    + exact (dl_wf_write _ _ _ _ _ W0 Hw).
    + exact (tgt_ok_write _ _ _ _ _ W0 T0 Hw).
    + exact (verified_write _ _ _ _ _ D W0 T0 V0 Hw).
  - intros s0 s1 ok [[W0 T0] V0] Hwic Hs. split; [split|].
    + exact (dl_wf_scv _ _ _ _ W0 Hwic Hs).
    + exact (tgt_ok_scv _ _ _ T0 Hs).
    + exact (verified_scv _ _ _ _ D W0 T0 V0 Hwic Hs).
  - intros s0 [[W0 T0] V0] _. split; [split|].
    + apply dl_wf_select; exact W0.
    + apply tgt_ok_select; exact T0.
    + revert V0. apply verified_ext; [apply select_tab|apply select_file].
Qed.

(** T5.3 (a): every chunk the download marked valid hashes to its digest in the final file *)
Theorem dlw_verified : forall tab0 s bs s' r,
  disjoint_tab tab0 -> dl_wf2 tab0 s -> verified tab0 s -> dlw s bs = (s', r) ->
  dl_wf2 tab0 s' /\ verified tab0 s'.
Proof.
  intros tab0 s bs s' r D W V Hrun.
  exact (dlw_f_checked tab0 _ s bs s' r D (conj W V) Hrun).
Qed.

(** ** T5.3 (b): a failure that is not an API error is a checksum mismatch *)
Definition zeroed (s : dlstate) : Prop :=
  exists t c, d_tgt s = Some t /\ nth_error (d_tab s) t = Some c /\ c_valid c = VFailed /\
    fread (d_file s) (doff + c_start c) (N.to_nat (c_len c)) = repeat 0 (N.to_nat (c_len c)).

Lemma settle_fail_zeroed s s' : settle s = (s', false) -> d_err s' = false -> zeroed s'.
Proof.
  unfold DlWrite.settle. destruct (set_chunk_valid s) as [sv okv] eqn:Ev.
  destruct okv; intros Hx; inversion Hx; subst sv. intros He.
  destruct (scv_cases _ _ _ Ev) as [(_ & Hok & _)|(t & c & Hg & Hn & Hc)]; [discriminate|].
  destruct Hc as [(_ & _ & ->)|[(acc & _ & _ & Hok & _)|(acc & _ & _ & _ & ->)]];
    [cbn in He; discriminate|discriminate|].
  exists t, (reflag c VFailed). cbn [d_tgt d_tab d_file reflag c_start c_len c_valid].
  split; [exact Hg|]. split; [|split; [reflexivity|]].
  - rewrite set_flag_nth, Nat.eqb_refl, Hn. reflexivity.
  - pose proof (fread_file_write (d_file s) (doff + c_start c) (repeat 0 (N.to_nat (c_len c)))) as Hf.
    rewrite repeat_length in Hf. exact Hf.
Qed.

Lemma dstep_fail_zeroed s bs s' :
  dstep s bs = SDone s' DFail -> d_err s' = false -> zeroed s'.
Proof.
  unfold DlProofs.dstep. destruct (d_err s) eqn:He.
  { intros Hx; inversion Hx; subst s'. congruence. }
  destruct (guard ridx s).
  { intros Hx; inversion Hx; subst s'. cbn. discriminate. }
  destruct (dl_write s bs) as [s1 ok] eqn:Ew. destruct ok; cbn [negb].
  2:{ intros Hx; inversion Hx; subst s1.
      destruct (dl_write_spec _ _ _ _ Ew) as (_ & _ & _ & _ & _ & _ & _ & _ & Hf).
      rewrite (Hf eq_refl). discriminate. }
  destruct (d_wic s1 =? 0).
  - destruct (settle s1) as [s2 ok2] eqn:Es. destruct ok2; cbn [negb].
    + destruct ((0 <? d_wic s2) && _); discriminate.
    + intros Hx; inversion Hx; subst s2. apply (settle_fail_zeroed _ _ Es).
  - cbn [negb]. destruct ((0 <? d_wic s1) && _); discriminate.
Qed.

Lemma dlw_f_fail_zeroed f : forall s bs s',
  dlw_f f s bs = (s', DFail) -> d_err s' = false -> zeroed s'.
Proof.
  induction f as [|f IH]; intros s bs s'; [cbn [DlWrite.dlw_f]; discriminate|].
  rewrite (dlw_f_S H doff ridx). destruct (dstep s bs) as [s1 r1|s2 wb] eqn:Ed.
  - intros Hx; inversion Hx; subst s1 r1. exact (dstep_fail_zeroed _ _ _ Ed).
  - destruct (dstep_more H doff ridx _ _ _ _ Ed) as (Hw2 & Hwb & _).
    destruct (dlw_f f s2 (skipn (N.to_nat wb) bs)) as [s3 r3] eqn:E.
    unfold wrap. destruct r3 as [n| |].
    + destruct (n =? 0) eqn:En; [|discriminate]. intros Hx; inversion Hx; subst s3.
      exfalso. apply N.eqb_eq in En.
      assert (Hne : skipn (N.to_nat wb) bs <> []).
      { intros Hq. apply (f_equal (@length _)) in Hq. rewrite skipn_length in Hq.
        unfold len in Hwb. cbn [length] in Hq. lia. }
      pose proof (dlw_f_pos H doff ridx f s2 _ s' n Hw2 Hne E). lia.
    + intros Hx; inversion Hx; subst s3. exact (IH _ _ _ E).
    + discriminate.
Qed.

Theorem dlw_fail_zeroed_gen : forall s bs s',
  dlw s bs = (s', DFail) -> d_err s' = false ->
  exists t c, d_tgt s' = Some t /\ nth_error (d_tab s') t = Some c /\ c_valid c = VFailed /\
    fread (d_file s') (doff + c_start c) (N.to_nat (c_len c)) = repeat 0 (N.to_nat (c_len c)).
Proof. intros s bs s' Hrun He. exact (dlw_f_fail_zeroed _ _ _ _ Hrun He). Qed.

Theorem dlw_fail_zeroed : forall tab0 s bs s',
  dl_wf2 tab0 s -> dlw s bs = (s', DFail) -> d_err s' = false ->
  exists t c, d_tgt s' = Some t /\ nth_error (d_tab s') t = Some c /\ c_valid c = VFailed /\
    fread (d_file s') (doff + c_start c) (N.to_nat (c_len c)) = repeat 0 (N.to_nat (c_len c)).
Proof. intros tab0 s bs s' _. apply dlw_fail_zeroed_gen. Qed.

End Inv.

Print Assumptions dlw_confined.
Print Assumptions dl_wf_init.
Print Assumptions dlw_valid_kept.
Print Assumptions dlw_valid_kept_disjoint.
Print Assumptions dlw_fail_zeroed_gen.
Print Assumptions dlw_fail_zeroed.
Print Assumptions dlw_verified.
Print Assumptions dl_wf2_init.
Print Assumptions verified_init.
