(** Proofs about [dlw] (DlWrite.v): totality, the streaming law T5.1. *)
From ZV Require Import Base.Bytes Dl.DlWrite Dl.FileLemmas.
Local Open Scope N_scope.

Section P.
Variable H : bytes -> bytes.
Variable doff : N.
Variable ridx : list rentry.

Notation dlw_f := (dlw_f H doff ridx).
Notation dlw := (dlw H doff ridx).
Notation settle := (settle H doff ridx).
Notation set_chunk_valid := (set_chunk_valid H doff).
Notation select := (select doff ridx).

(** * One iteration of the C recursion *)
Inductive stepres := SDone (s : dlstate) (r : dres) | SMore (s2 : dlstate) (wb : N).

Definition wbf (s : dlstate) (l : N) : N := if 0 <? d_wic s then N.min (d_wic s) l else 0.

Definition guard (s : dlstate) : bool :=
  match ridx, d_tab s with
  | [], _ | _, [] => true
  | _, _ => false
  end.

Definition dstep (s : dlstate) (bs : bytes) : stepres :=
  if d_err s then SDone s DFail else
  if guard s then SDone (set_err s) DFail else
    let wb := wbf s (len bs) in
    let (s1, ok) := dl_write s bs in
    if negb ok then SDone s1 DFail else
    let (s2, ok2) := if d_wic s1 =? 0 then settle s1 else (s1, true) in
    if negb ok2 then SDone s2 DFail else
    if (0 <? d_wic s2) && (wb <? len bs) then SMore s2 wb else SDone s2 (DOk wb).

Lemma guard_false s : guard s = false <-> ridx <> [] /\ d_tab s <> [].
Proof.
  unfold guard. destruct ridx; destruct (d_tab s); split; intros Hx; try discriminate;
    try (destruct Hx; congruence); split; discriminate.
Qed.

Definition wrap (wb : N) (r : dlstate * dres) : dlstate * dres :=
  match r with
  | (s3, DOk wb2) => if wb2 =? 0 then (s3, DFail) else (s3, DOk (wb + wb2))
  | r => r
  end.

Lemma dlw_f_S f s bs :
  dlw_f (S f) s bs =
  match dstep s bs with
  | SDone s' r => (s', r)
  | SMore s2 wb => wrap wb (dlw_f f s2 (skipn (N.to_nat wb) bs))
  end.
Proof.
  unfold dstep, wbf, guard. cbn [DlWrite.dlw_f].
  destruct (d_err s); [reflexivity|].
  destruct ridx as [|e0 es]; [reflexivity|].
  destruct (d_tab s) as [|c0 cs]; [reflexivity|].
  destruct (dl_write s bs) as [s1 ok]. destruct ok; cbn [negb]; try reflexivity.
  destruct (d_wic s1 =? 0).
  - destruct (DlWrite.settle _ _ _ s1) as [s2 ok2].
    destruct ok2; cbn [negb]; try reflexivity.
    destruct ((0 <? d_wic s2) && _); try reflexivity.
    destruct (DlWrite.dlw_f _ _ _ _ _ _) as [s3 r3]. destruct r3; reflexivity.
  - cbn [negb].
    destruct ((0 <? d_wic s1) && _); try reflexivity.
    destruct (DlWrite.dlw_f _ _ _ _ _ _) as [s3 r3]. destruct r3; reflexivity.
Qed.

(** * Facts about the primitives *)
Lemma dl_write_ok s bs s1 :
  dl_write s bs = (s1, true) ->
  d_err s1 = d_err s /\ d_tab s1 = d_tab s /\ d_tgt s1 = d_tgt s /\ d_cur s1 = d_cur s /\
  d_wic s1 = d_wic s - wbf s (len bs).
Proof.
  unfold dl_write, wbf. destruct (0 <? d_wic s) eqn:E.
  - destruct (firstn _ bs) eqn:Ew; [intros Hx; inversion Hx|].
    destruct (d_acc s); intros Hx; inversion Hx; subst; cbn; repeat split; reflexivity.
  - intros Hx. inversion Hx; subst. apply N.ltb_ge in E. repeat split; lia.
Qed.

Lemma set_flag_length tab t v : length (set_flag tab t v) = length tab.
Proof.
  unfold set_flag. destruct (nth_error tab t) eqn:E; [|reflexivity].
  assert (t < length tab)%nat by (apply nth_error_Some; congruence).
  rewrite app_length. cbn [length]. rewrite firstn_length, skipn_length. lia.
Qed.

Lemma set_flag_nonempty tab t v : tab <> [] -> set_flag tab t v <> [].
Proof.
  intros Hn Hx. apply Hn. apply length_zero_iff_nil.
  rewrite <- (set_flag_length tab t v), Hx. reflexivity.
Qed.

Lemma scv_ok s s1 :
  set_chunk_valid s = (s1, true) ->
  d_err s1 = d_err s /\ d_wic s1 = d_wic s /\ d_pos s1 = d_pos s /\ d_cur s1 = d_cur s /\
  (d_tab s <> [] -> d_tab s1 <> []) /\ set_chunk_valid s1 = (s1, true).
Proof.
  unfold DlWrite.set_chunk_valid. destruct (d_tgt s) as [t|] eqn:Et.
  - destruct (nth_error (d_tab s) t) as [c|] eqn:Ec.
    + destruct (d_acc s) as [acc|]; [|intros Hx; inversion Hx].
      destruct (chunk_digest_ok H c acc); intros Hx; inversion Hx; subst; cbn.
      repeat split; try reflexivity. apply set_flag_nonempty.
    + intros Hx; inversion Hx; subst. repeat split; auto. rewrite Et, Ec. reflexivity.
  - intros Hx; inversion Hx; subst. repeat split; auto. rewrite Et. reflexivity.
Qed.

Lemma search_in tab pos es k k' e c :
  search tab pos es k = Some (k', e, c) -> In e es.
Proof.
  revert k. induction es as [|e0 es IH]; intros k; cbn [search]; [discriminate|].
  destruct (entry_matches tab pos e0).
  - intros Hx; inversion Hx; subst. left. reflexivity.
  - intros Hx. right. eapply IH. exact Hx.
Qed.

Definition nz_ridx : Prop := forall e, In e ridx -> 0 < r_len e.

Lemma In_skipn {A} (x : A) n l : In x (skipn n l) -> In x l.
Proof.
  revert l. induction n as [|n IH]; intros l; [auto|]. destruct l; cbn [skipn]; [auto|].
  intros Hx. right. apply IH. exact Hx.
Qed.

(** a settle that leaves write_in_chunk = 0 found no entry, and is idempotent *)
Lemma settle_stall s1 s2 :
  nz_ridx -> settle s1 = (s2, true) -> d_wic s2 = 0 ->
  settle s2 = (s2, true) /\ d_err s2 = d_err s1 /\ (d_tab s1 <> [] -> d_tab s2 <> []).
Proof.
  intros Hnz. unfold DlWrite.settle.
  destruct (set_chunk_valid s1) as [sv ok] eqn:Ev. destruct ok; [|intros Hx; inversion Hx].
  intros Hx. inversion Hx as [Hs2]. clear Hx. intros Hw.
  destruct (scv_ok _ _ Ev) as (He & Hwic & Hpos & Hcur & Htab & Hidem).
  unfold DlWrite.select in *.
  set (k0 := match d_cur sv with Some k => k | None => 0%nat end) in *.
  destruct (search (d_tab sv) (d_pos sv) (skipn k0 ridx) k0) as [[[k e] c]|] eqn:Es.
  - exfalso. subst s2. cbn in Hw. apply search_in in Es. apply In_skipn in Es.
    specialize (Hnz e Es). lia.
  - subst s2. cbn [d_err d_tab d_wic]. split; [|split; [exact He|exact Htab]].
    assert (Hsv' : set_chunk_valid
      (mkDl (d_err sv) (d_pos sv) (d_wic sv) (d_tgt sv) (Some k0) (d_acc sv) (d_fpos sv) (d_file sv) (d_tab sv))
      = (mkDl (d_err sv) (d_pos sv) (d_wic sv) (d_tgt sv) (Some k0) (d_acc sv) (d_fpos sv) (d_file sv) (d_tab sv), true)).
    { revert Hidem. unfold DlWrite.set_chunk_valid. cbn [d_tgt d_tab d_acc].
      destruct (d_tgt sv) as [t|] eqn:Etg; [|reflexivity].
      destruct (nth_error (d_tab sv) t) as [cc|]; [|reflexivity].
      destruct (d_acc sv) as [aa|]; [|intros Hx; inversion Hx].
      destruct (chunk_digest_ok H cc aa); intros Hx; inversion Hx.
      (* validated: the target would have been cleared, contradiction with the fixpoint *)
      exfalso. match goal with Hq : _ = sv |- _ => apply (f_equal d_tgt) in Hq; cbn in Hq; congruence end. }
    rewrite Hsv'. cbn [d_cur d_tab d_pos]. fold k0. rewrite Es. reflexivity.
Qed.

(** * Fuel *)
Definition need (s : dlstate) (bs : bytes) : nat :=
  (length bs + (if (d_wic s =? 0)%N then 2 else 1))%nat.

Lemma dstep_more s bs s2 wb :
  dstep s bs = SMore s2 wb ->
  0 < d_wic s2 /\ wb < len bs /\
  ((d_wic s = 0 /\ wb = 0) \/ (0 < d_wic s /\ 0 < wb)).
Proof.
  unfold dstep. destruct (d_err s); [discriminate|].
  destruct (guard s) eqn:Eg; [discriminate|].
  destruct (dl_write s bs) as [s1 ok]. destruct ok; cbn [negb]; [|discriminate].
  destruct (if d_wic s1 =? 0 then settle s1 else (s1, true)) as [s2' ok2].
  destruct ok2; cbn [negb]; [|discriminate].
  destruct ((0 <? d_wic s2') && (wbf s (len bs) <? len bs)) eqn:E; [|discriminate].
  intros Hx; inversion Hx; subst. apply andb_prop in E. destruct E as [E1 E2].
  apply N.ltb_lt in E1. apply N.ltb_lt in E2. split; [exact E1|]. split; [exact E2|].
  unfold wbf in *. destruct (0 <? d_wic s) eqn:E3.
  - right. apply N.ltb_lt in E3. split; [exact E3|]. lia.
  - left. apply N.ltb_ge in E3. split; lia.
Qed.

Lemma skipn_len_lt (bs : bytes) wb : 0 < wb -> wb < len bs ->
  (length (skipn (N.to_nat wb) bs) < length bs)%nat.
Proof. intros H1 H2. rewrite skipn_length. unfold len in H2. lia. Qed.

Lemma need_more s bs s2 wb f :
  dstep s bs = SMore s2 wb -> (need s bs <= S f)%nat ->
  (need s2 (skipn (N.to_nat wb) bs) <= f)%nat.
Proof.
  intros Hs Hn. destruct (dstep_more _ _ _ _ Hs) as (Hw2 & Hwb & Hc).
  unfold need in *. replace (d_wic s2 =? 0) with false by (symmetry; apply N.eqb_neq; lia).
  destruct Hc as [[Hw0 Hwb0]|[Hw0 Hwb0]].
  - subst wb. cbn [N.to_nat skipn]. rewrite Hw0 in Hn. cbn in Hn. lia.
  - pose proof (skipn_len_lt bs wb Hwb0 Hwb).
    replace (d_wic s =? 0) with false in Hn by (symmetry; apply N.eqb_neq; lia). lia.
Qed.

Lemma dlw_f_fuel f1 : forall f2 s bs,
  (need s bs <= f1)%nat -> (need s bs <= f2)%nat -> dlw_f f1 s bs = dlw_f f2 s bs.
Proof.
  induction f1 as [|f1 IH]; intros f2 s bs H1 H2.
  - unfold need in H1. destruct (d_wic s =? 0); lia.
  - destruct f2 as [|f2]. { unfold need in H2. destruct (d_wic s =? 0); lia. }
    rewrite !dlw_f_S. destruct (dstep s bs) as [s' r|s2 wb] eqn:Es; [reflexivity|].
    f_equal. apply IH; eapply need_more; eauto.
Qed.

Lemma dlw_f_no_fuel f : forall s bs, (need s bs <= f)%nat -> snd (dlw_f f s bs) <> DFuel.
Proof.
  induction f as [|f IH]; intros s bs Hn.
  - unfold need in Hn. destruct (d_wic s =? 0); lia.
  - rewrite dlw_f_S. destruct (dstep s bs) as [s' r|s2 wb] eqn:Es.
    + cbn [snd]. unfold dstep in Es. destruct (d_err s); [inversion Es; discriminate|].
      destruct (guard s); [inversion Es; discriminate|].
      destruct (dl_write s bs) as [s1 ok]. destruct ok; cbn [negb] in Es; [|inversion Es; discriminate].
      destruct (if d_wic s1 =? 0 then settle s1 else (s1, true)) as [s2' ok2].
      destruct ok2; cbn [negb] in Es; [|inversion Es; discriminate].
      destruct ((0 <? d_wic s2') && (wbf s (len bs) <? len bs)); inversion Es; discriminate.
    + specialize (IH s2 (skipn (N.to_nat wb) bs) (need_more _ _ _ _ _ Es Hn)).
      destruct (dlw_f f s2 (skipn (N.to_nat wb) bs)) as [s3 r]. cbn [snd] in IH.
      unfold wrap. destruct r; cbn [snd]; try congruence. destruct (n =? 0); cbn [snd]; discriminate.
Qed.

Lemma need_dlw s bs : (need s bs <= S (S (length bs)))%nat.
Proof. unfold need. destruct (d_wic s =? 0); lia. Qed.

Theorem dlw_total s bs : snd (dlw s bs) <> DFuel.
Proof. apply dlw_f_no_fuel. apply need_dlw. Qed.

Lemma dlw_eq_f f s bs : (need s bs <= f)%nat -> dlw_f f s bs = dlw s bs.
Proof. intros Hn. apply dlw_f_fuel; [exact Hn|apply need_dlw]. Qed.

(** with bytes to write and room in the chunk, a successful call consumes something *)
Lemma dlw_f_pos f s bs s' m :
  0 < d_wic s -> bs <> [] -> dlw_f f s bs = (s', DOk m) -> 0 < m.
Proof.
  intros Hw Hb. destruct f as [|f]; [cbn; discriminate|].
  rewrite dlw_f_S. unfold dstep.
  destruct (d_err s); [discriminate|]. destruct (guard s) eqn:Eg; [discriminate|].
  destruct (dl_write s bs) as [s1 ok]. destruct ok; cbn [negb]; [|discriminate].
  destruct (if d_wic s1 =? 0 then settle s1 else (s1, true)) as [s2' ok2].
  destruct ok2; cbn [negb]; [|discriminate].
  assert (Hwb : 0 < wbf s (len bs)).
  { unfold wbf. replace (0 <? d_wic s) with true by (symmetry; apply N.ltb_lt; exact Hw).
    destruct bs; [congruence|]. rewrite len_cons. lia. }
  destruct ((0 <? d_wic s2') && (wbf s (len bs) <? len bs)).
  - destruct (dlw_f f s2' _) as [s3 r]. unfold wrap. destruct r; try discriminate.
    destruct (n =? 0); [discriminate|]. intros Hx; inversion Hx; subst. lia.
  - intros Hx; inversion Hx; subst. exact Hwb.
Qed.

(** * Streaming *)
Lemma firstn_app_le {A} (a b : list A) n : (n <= length a)%nat -> firstn n (a ++ b) = firstn n a.
Proof.
  intros Hn. rewrite firstn_app. replace (n - length a)%nat with 0%nat by lia.
  cbn [firstn]. apply app_nil_r.
Qed.

Lemma skipn_app_le {A} (a b : list A) n : (n <= length a)%nat -> skipn n (a ++ b) = skipn n a ++ b.
Proof.
  intros Hn. rewrite skipn_app. replace (n - length a)%nat with 0%nat by lia. reflexivity.
Qed.

Definition short (s : dlstate) (a : bytes) : Prop := d_wic s <= len a.

Lemma dl_write_short s a b : short s a -> dl_write s (a ++ b) = dl_write s a.
Proof.
  intros Hs. unfold short in Hs. unfold dl_write. destruct (0 <? d_wic s) eqn:E; [|reflexivity].
  rewrite len_app.
  replace (N.min (d_wic s) (len a + len b)) with (d_wic s) by lia.
  replace (N.min (d_wic s) (len a)) with (d_wic s) by lia.
  rewrite firstn_app_le by (unfold len in Hs; lia). reflexivity.
Qed.

Lemma dstep_short s a b :
  short s a -> a <> [] -> b <> [] ->
  dstep s (a ++ b) =
  match dstep s a with
  | SDone s2 (DOk wb) => if 0 <? d_wic s2 then SMore s2 wb else SDone s2 (DOk wb)
  | x => x
  end.
Proof.
  intros Hs Ha Hb. unfold dstep. destruct (d_err s); [reflexivity|].
  destruct (guard s); [reflexivity|].
  rewrite (dl_write_short s a b Hs).
  assert (Hwb : wbf s (len (a ++ b)) = wbf s (len a)).
  { unfold wbf, short in *. rewrite len_app. destruct (0 <? d_wic s); [lia|reflexivity]. }
  rewrite Hwb.
  assert (Hle : wbf s (len a) <= len a).
  { unfold wbf. destruct (0 <? d_wic s); lia. }
  assert (Hlb : 0 < len b) by (destruct b; [congruence|rewrite len_cons; lia]).
  destruct (dl_write s a) as [s1 ok]. destruct ok; cbn [negb]; [|reflexivity].
  destruct (if d_wic s1 =? 0 then settle s1 else (s1, true)) as [s2 ok2].
  destruct ok2; cbn [negb]; [|reflexivity].
  rewrite len_app.
  replace (wbf s (len a) <? len a + len b) with true by (symmetry; apply N.ltb_lt; lia).
  destruct (0 <? d_wic s2) eqn:E0; cbn [andb].
  - destruct (wbf s (len a) <? len a); cbn; rewrite ?E0; reflexivity.
  - cbn. rewrite E0. reflexivity.
Qed.

Definition after_write (s : dlstate) (acc : bytes) (a : bytes) : dlstate :=
  mkDl (d_err s) (d_pos s + len a) (d_wic s - len a) (d_tgt s) (d_cur s) (Some (acc ++ a))
       (d_fpos s + len a) (file_write (d_file s) (d_fpos s) a) (d_tab s).

Lemma firstn_app_ge {A} (a b : list A) n : (length a <= n)%nat ->
  firstn n (a ++ b) = a ++ firstn (n - length a) b.
Proof. intros Hn. rewrite firstn_app. rewrite firstn_all2 by lia. reflexivity. Qed.

Lemma dl_write_long s a b acc :
  len a < d_wic s -> a <> [] -> b <> [] -> d_acc s = Some acc ->
  dl_write s a = (after_write s acc a, true) /\
  dl_write s (a ++ b) = dl_write (after_write s acc a) b /\
  wbf s (len (a ++ b)) = len a + wbf (after_write s acc a) (len b).
Proof.
  intros Hl Ha Hb Hacc.
  assert (Hla : 0 < len a) by (destruct a; [congruence|rewrite len_cons; lia]).
  assert (Hlb : 0 < len b) by (destruct b; [congruence|rewrite len_cons; lia]).
  unfold dl_write, wbf, after_write. cbn [d_wic d_acc d_file d_fpos d_err d_pos d_tgt d_cur d_tab].
  replace (0 <? d_wic s) with true by (symmetry; apply N.ltb_lt; lia).
  replace (0 <? d_wic s - len a) with true by (symmetry; apply N.ltb_lt; lia).
  rewrite Hacc. rewrite len_app.
  replace (N.min (d_wic s) (len a)) with (len a) by lia.
  set (k := N.min (d_wic s - len a) (len b)).
  replace (N.min (d_wic s) (len a + len b)) with (len a + k) by (unfold k; lia).
  assert (Hk : 0 < k) by (unfold k; lia).
  split; [|split; [|reflexivity]].
  - replace (N.to_nat (len a)) with (length a) by (unfold len; lia). rewrite firstn_all.
    destruct a as [|a0 a]; [congruence|]. reflexivity.
  - rewrite firstn_app_ge by (unfold len; lia).
    replace (N.to_nat (len a + k) - length a)%nat with (N.to_nat k) by (unfold len; lia).
    assert (Hw : firstn (N.to_nat k) b <> []).
    { destruct b as [|b0 b]; [congruence|]. destruct (N.to_nat k) eqn:Ek; [lia|]. cbn [firstn]. discriminate. }
    set (w := firstn (N.to_nat k) b) in *.
    destruct (a ++ w) as [|x l] eqn:Eaw. { destruct a; [congruence|discriminate]. }
    rewrite <- Eaw. destruct w as [|w0 w'] eqn:Ew; [congruence|]. rewrite <- Ew.
    rewrite file_write_app. rewrite app_assoc.
    f_equal. f_equal; lia.
Qed.

Definition dcomb_step (n : N) (r : stepres) : stepres :=
  match r with
  | SDone s r => SDone s (dcomb n r)
  | SMore s2 wb => SMore s2 (n + wb)
  end.

Lemma dstep_long s a b acc :
  len a < d_wic s -> a <> [] -> b <> [] -> d_acc s = Some acc -> d_err s = false ->
  ridx <> [] -> d_tab s <> [] ->
  dstep s a = SDone (after_write s acc a) (DOk (len a)) /\
  dstep s (a ++ b) = dcomb_step (len a) (dstep (after_write s acc a) b).
Proof.
  intros Hl Ha Hb Hacc He Hr Ht.
  destruct (dl_write_long s a b acc Hl Ha Hb Hacc) as (H1 & H2 & H3).
  assert (Hg : guard s = false) by (apply guard_false; auto).
  assert (Hg' : guard (after_write s acc a) = false) by (apply guard_false; auto).
  unfold dstep. rewrite He, Hg, Hg'. cbn [after_write d_err]. rewrite ?He.
  rewrite H1, H2, H3. cbn [negb].
  split.
  - replace (d_wic (after_write s acc a) =? 0) with false
      by (symmetry; apply N.eqb_neq; cbn; lia).
    cbn [negb]. replace (wbf s (len a)) with (len a)
      by (unfold wbf; replace (0 <? d_wic s) with true by (symmetry; apply N.ltb_lt; lia); lia).
    rewrite N.ltb_irrefl, andb_false_r. reflexivity.
  - destruct (dl_write (after_write s acc a) b) as [s1 ok]. destruct ok; cbn [negb]; [|reflexivity].
    destruct (if d_wic s1 =? 0 then settle s1 else (s1, true)) as [s2 ok2].
    destruct ok2; cbn [negb]; [|reflexivity].
    rewrite len_app.
    replace (len a + wbf (after_write s acc a) (len b) <? len a + len b)
      with (wbf (after_write s acc a) (len b) <? len b).
    2:{ destruct (wbf (after_write s acc a) (len b) <? len b) eqn:E; symmetry.
        - apply N.ltb_lt in E. apply N.ltb_lt. lia.
        - apply N.ltb_ge in E. apply N.ltb_ge. lia. }
    destruct ((0 <? d_wic s2) && (wbf (after_write s acc a) (len b) <? len b)); reflexivity.
Qed.

Lemma wrap_dcomb n wb r :
  (let (s, x) := wrap wb r in (s, dcomb n x)) = wrap (n + wb) r.
Proof.
  destruct r as [s x]. unfold wrap. destruct x; cbn [dcomb]; try reflexivity.
  destruct (n0 =? 0); cbn [dcomb]; [reflexivity|]. rewrite N.add_assoc. reflexivity.
Qed.

(** a stalled state ([write_in_chunk = 0] after settling) swallows nothing more *)
Lemma dlw_stalled s2 b :
  d_err s2 = false -> ridx <> [] -> d_tab s2 <> [] -> d_wic s2 = 0 -> settle s2 = (s2, true) ->
  dlw s2 b = (s2, DOk 0).
Proof.
  intros He Hr Ht Hw Hs. unfold DlWrite.dlw. rewrite dlw_f_S. unfold dstep. rewrite He.
  replace (guard s2) with false by (symmetry; apply guard_false; auto).
  unfold dl_write, wbf. rewrite Hw. cbn [N.ltb N.compare negb]. rewrite Hw. cbn [N.eqb].
  rewrite Hs. cbn [negb]. rewrite Hw. reflexivity.
Qed.

Lemma dstep_done_facts s a s2 wb :
  dstep s a = SDone s2 (DOk wb) ->
  d_err s = false /\ guard s = false /\
  exists s1, dl_write s a = (s1, true) /\ wb = wbf s (len a) /\
    ((d_wic s1 =? 0) = true /\ settle s1 = (s2, true) \/ (d_wic s1 =? 0) = false /\ s2 = s1) /\
    ((0 <? d_wic s2) && (wb <? len a) = false).
Proof.
  unfold dstep. destruct (d_err s); [discriminate|].
  destruct (guard s) eqn:Eg; [discriminate|].
  destruct (dl_write s a) as [s1 ok]. destruct ok; cbn [negb]; [|discriminate].
  destruct (d_wic s1 =? 0) eqn:E0.
  - destruct (settle s1) as [s2' ok2] eqn:Est. destruct ok2; cbn [negb]; [|discriminate].
    destruct ((0 <? d_wic s2') && (wbf s (len a) <? len a)) eqn:E; [discriminate|].
    intros Hx; inversion Hx; subst. split; [reflexivity|]. split; [reflexivity|].
    exists s1. split; [reflexivity|]. split; [reflexivity|]. split; [left; split; [exact E0|exact Est]|exact E].
  - cbn [negb]. destruct ((0 <? d_wic s1) && (wbf s (len a) <? len a)) eqn:E; [discriminate|].
    intros Hx; inversion Hx; subst. split; [reflexivity|]. split; [reflexivity|].
    exists s2. split; [reflexivity|]. split; [reflexivity|]. split; [right; split; [exact E0|reflexivity]|exact E].
Qed.

Lemma dlw_f_app f2 : forall s a b f1 s' n,
  nz_ridx -> a <> [] -> b <> [] ->
  (need s (a ++ b) <= f1)%nat -> (need s a <= f2)%nat ->
  dlw_f f2 s a = (s', DOk n) ->
  dlw_f f1 s (a ++ b) = (let (s'', r) := dlw s' b in (s'', dcomb n r)).
Proof.
  induction f2 as [|f2 IH]; intros s a b f1 s' n Hnz Ha Hb Hn1 Hn2 Hrun.
  { unfold need in Hn2. destruct (d_wic s =? 0); lia. }
  destruct f1 as [|f1]. { unfold need in Hn1. destruct (d_wic s =? 0); lia. }
  assert (Hla : 0 < len a) by (destruct a; [congruence|rewrite len_cons; lia]).
  assert (Hlb : 0 < len b) by (destruct b; [congruence|rewrite len_cons; lia]).
  rewrite dlw_f_S in Hrun. rewrite dlw_f_S.
  destruct (N.le_gt_cases (d_wic s) (len a)) as [Hshort|Hlong].
  - (* the current chunk ends inside [a] *)
    rewrite (dstep_short s a b Hshort Ha Hb).
    destruct (dstep s a) as [s2 r|s2 wb] eqn:Es.
    + (* the run on [a] stopped here *)
      inversion Hrun; subst s2 r. clear Hrun.
      destruct (dstep_done_facts _ _ _ _ Es) as (He & Hg & s1 & Hw & Hwb & Hset & Hcond).
      apply guard_false in Hg. destruct Hg as [Hr Ht].
      destruct (dl_write_ok _ _ _ Hw) as (He1 & Ht1 & _ & _ & Hwic1).
      destruct (0 <? d_wic s') eqn:Ew2.
      * (* exactly at the end of [a], next chunk selected *)
        cbn [andb] in Hcond. apply N.ltb_ge in Hcond.
        assert (Hn : n = len a).
        { subst n. unfold wbf, short in *. destruct (0 <? d_wic s); lia. }
        rewrite Hn. replace (N.to_nat (len a)) with (length a) by (unfold len; lia).
        rewrite skipn_app, skipn_all, Nat.sub_diag. cbn [app skipn].
        assert (Hneed : (need s' b <= f1)%nat).
        { unfold need in *. apply N.ltb_lt in Ew2.
          replace (d_wic s' =? 0) with false by (symmetry; apply N.eqb_neq; lia).
          rewrite app_length in Hn1. destruct (d_wic s =? 0); destruct a; cbn [length] in *; try congruence; lia. }
        rewrite (dlw_eq_f f1 s' b Hneed).
        destruct (dlw s' b) as [s'' r] eqn:Er.
        unfold wrap. destruct r; cbn [dcomb]; try reflexivity.
        assert (0 < n0).
        { apply N.ltb_lt in Ew2. eapply (dlw_f_pos _ s' b s'' n0 Ew2 Hb). exact Er. }
        replace (n0 =? 0) with false by (symmetry; apply N.eqb_neq; lia). reflexivity.
      * (* stalled *)
        apply N.ltb_ge in Ew2. assert (Hw0 : d_wic s' = 0) by lia.
        destruct Hset as [[E0 Hsettle]|[E0 Hs2]].
        -- destruct (settle_stall _ _ Hnz Hsettle Hw0) as (Hidem & He2 & Ht2).
           rewrite (dlw_stalled s' b); try assumption.
           ++ cbn [dcomb]. rewrite N.add_0_r. reflexivity.
           ++ congruence.
           ++ apply Ht2. congruence.
        -- subst s1. apply N.eqb_neq in E0. congruence.
    + (* the run on [a] recursed: so does the run on [a ++ b] *)
      destruct (dstep_more _ _ _ _ Es) as (Hw2 & Hwblt & Hc).
      destruct (dlw_f f2 s2 (skipn (N.to_nat wb) a)) as [s3 r3] eqn:Er3.
      unfold wrap in Hrun. destruct r3; try discriminate.
      destruct (n0 =? 0) eqn:En0; [discriminate|]. inversion Hrun; subst s3 n. clear Hrun.
      rewrite skipn_app_le by (unfold len in Hwblt; lia).
      rewrite (IH s2 (skipn (N.to_nat wb) a) b f1 s' n0 Hnz); try assumption.
      * destruct (dlw s' b) as [s'' r]. unfold wrap.
        destruct r; cbn [dcomb]; try reflexivity.
        replace (n0 + n =? 0) with false by (symmetry; apply N.eqb_neq; apply N.eqb_neq in En0; lia).
        rewrite N.add_assoc. reflexivity.
      * intros Hx. apply (f_equal (@length _)) in Hx. rewrite skipn_length in Hx.
        unfold len in Hwblt. cbn [length] in Hx. lia.
      * rewrite <- skipn_app_le by (unfold len in Hwblt; lia).
        eapply need_more; [|exact Hn1].
        rewrite (dstep_short s a b Hshort Ha Hb), Es. reflexivity.
      * eapply need_more; eauto.
  - (* [a] ends inside the current chunk *)
    destruct (d_err s) eqn:He.
    { unfold dstep in Hrun. rewrite He in Hrun. discriminate. }
    destruct (guard s) eqn:Eg.
    { unfold dstep in Hrun. rewrite He, Eg in Hrun. discriminate. }
    destruct (proj1 (guard_false s) Eg) as [Hr Ht].
    destruct (d_acc s) as [acc|] eqn:Eacc.
    + destruct (dstep_long s a b acc Hlong Ha Hb Eacc He Hr Ht) as [Hd1 Hd2].
      rewrite Hd1 in Hrun. inversion Hrun; subst s' n. clear Hrun.
      rewrite Hd2. unfold DlWrite.dlw. rewrite dlw_f_S.
      destruct (dstep (after_write s acc a) b) as [s'' r|s2 wb] eqn:Es; cbn [dcomb_step].
      * reflexivity.
      * rewrite wrap_dcomb.
        replace (N.to_nat (len a + wb)) with (length a + N.to_nat wb)%nat by (unfold len; lia).
        rewrite skipn_app, skipn_all2 by lia. replace (length a + N.to_nat wb - length a)%nat with (N.to_nat wb) by lia.
        cbn [app]. f_equal. apply dlw_f_fuel.
        -- pose proof (need_more _ _ _ _ (S (length b)) Es (need_dlw _ _)) as Hnm.
           unfold need in *. destruct (dstep_more _ _ _ _ Es) as (Hw2 & _ & _).
           replace (d_wic s2 =? 0) with false in * by (symmetry; apply N.eqb_neq; lia).
           replace (d_wic s =? 0) with false in Hn1 by (symmetry; apply N.eqb_neq; lia).
           rewrite app_length in Hn1. rewrite skipn_length in *. unfold len in Hla. lia.
        -- eapply need_more; [exact Es|apply need_dlw].
    + exfalso. unfold dstep in Hrun. rewrite He, Eg in Hrun.
      unfold dl_write in Hrun. replace (0 <? d_wic s) with true in Hrun by (symmetry; apply N.ltb_lt; lia).
      rewrite Eacc in Hrun. destruct (firstn _ a); cbn [negb] in Hrun; discriminate.
Qed.

(** T5.1 for [dlw]: one call on [a ++ b] = a call on [a] followed by a call on [b] *)
Theorem dlw_app : nz_ridx -> dlw_app_law H doff ridx.
Proof.
  intros Hnz s a b s' n Ha Hb Hrun. unfold DlWrite.dlw at 1.
  exact (dlw_f_app (S (S (length a))) s a b (S (S (length (a ++ b)))) s' n Hnz Ha Hb
           (need_dlw _ _) (need_dlw _ _) Hrun).
Qed.

End P.
