(** Model of local chunk reuse in src/lib/dl/dl.c — [zck_copy_chunks],
    [write_and_verify_chunk], [zero_chunk], [zck_find_matching_chunks] — and of the lookup in
    the hash table that [index_read] / [zck_generate_hashdb] build (src/lib/index/index_read.c,
    uthash.h) — definitions only.

    Both contexts are opened for reading on regular files and are not in an error state;
    source and target are different files.  Files are byte lists; the source descriptor is
    the suffix of the source file ahead of its position (a [read] at the end of the file
    returns fewer bytes, possibly none); [seek_data] + [write_data] on the target is
    [file_write] at an explicit position, which extends the file with zeros when the
    position is behind its end, as [write] after [lseek] does.  I/O faults are not
    modelled (C12).  Valid flags are a [list Z] parallel to the target's chunk table.

    The hash table: [index_read] adds an entry only when [HASH_FIND] does not find its
    digest, so the table holds, for every distinct digest, the FIRST chunk in index order;
    [HASH_FIND] with the key bytes and key length of a target chunk returns the entry
    whose key has the same length and the same bytes — i.e. the first source chunk with
    these digest bytes, provided both indexes have the same digest size. *)
From ZV Require Import Base.Bytes Gen.GenConsts Format.Header Read.Scan.
From ZV Require Dl.DlWrite.
Local Open Scope N_scope.

Notation file_write := DlWrite.file_write.
Notation fget := DlWrite.fget.

(** the rest of a file behind position [off] ([lseek] + reads); written so that a crafted,
    astronomically large offset is not turned into a unary number when the model is run *)
Definition seek (f : bytes) (off : N) : bytes :=
  if len f <=? off then [] else skipn (N.to_nat off) f.

Fixpoint find_i {A} (p : A -> bool) (l : list A) (i : nat) : option (nat * A) :=
  match l with
  | [] => None
  | x :: r => if p x then Some (i, x) else find_i p r (S i)
  end.

(** [HASH_FIND(hh, src->index.ht, key, tds, f)] *)
Definition lookup (sh : header) (tds : N) (key : bytes) : option (nat * chunk) :=
  if ds_of (h_chash sh) =? tds
  then find_i (fun c => memcmp_eq tds (c_digest c) key) (h_chunks sh) 0
  else None.
(** [HASH_FIND(hhuncomp, src->index.htuncomp, key, tds, f)] *)
Definition lookup_u (sh : header) (tds : N) (key : bytes) : option (nat * chunk) :=
  if ds_of (h_chash sh) =? tds
  then find_i (fun c => match c_udigest c with Some u => memcmp_eq tds u key | None => false end)
              (h_chunks sh) 0
  else None.

(** [zero_chunk]: zeros over the extent, block by block *)
Fixpoint zero_blocks (fuel : nat) (tf : bytes) (pos n : N) : option bytes :=
  if n =? 0 then Some tf else
  match fuel with
  | O => None
  | S fuel' =>
      let rb := N.min BUF_SIZE n in
      zero_blocks fuel' (file_write tf pos (repeat 0 (N.to_nat rb))) (pos + rb) (n - rb)
  end.
Definition zero_chunk (th : header) (tf : bytes) (tc : chunk) : option bytes :=
  zero_blocks (S (N.to_nat (c_clen tc / BUF_SIZE))) tf (data_offset th + c_start tc) (c_clen tc).

Section Copy.
Variable H : N -> bytes -> bytes.

(** The copy loop of [write_and_verify_chunk].  [buf] is the 32 KiB stack buffer (zeroed at
    function entry, never cleared between blocks): a read of [rb] bytes that returns k > 0
    bytes overwrites its first k bytes only, and the loop goes on with all [rb] bytes of the
    buffer — it hashes them and writes them; a read that returns 0 bytes ends the function
    ([return false], which the caller ignores) with the flag untouched.
    Result: completed?, target file, bytes fed to the hash. *)
Fixpoint copy_blocks (fuel : nat) (srest tf : bytes) (tpos n : N) (buf acc : bytes)
  : option (bool * bytes * bytes) :=
  if n =? 0 then Some (true, tf, acc) else
  match fuel with
  | O => None
  | S fuel' =>
      let rb := N.min BUF_SIZE n in
      let got := firstn (N.to_nat rb) srest in
      if len got =? 0 then Some (false, tf, acc) else
      let buf' := got ++ skipn (length got) buf in
      let data := firstn (N.to_nat rb) buf' in
      copy_blocks fuel' (skipn (N.to_nat rb) srest) (file_write tf tpos data) (tpos + rb) (n - rb)
                  buf' (acc ++ data)
  end.

(** [write_and_verify_chunk(src, tgt, sc, tc)]: new target file and, if it was set, the new
    flag of [tc].  The hash is the SOURCE's chunk hash type, the digest compared is the
    source chunk's, over the source's digest size. *)
Definition write_and_verify (sh : header) (sf : bytes) (th : header) (tf : bytes) (sc tc : chunk)
  : option (bytes * option Z) :=
  let srest := seek sf (data_offset sh + c_start sc) in
  match copy_blocks (S (length srest)) srest tf (data_offset th + c_start tc) (c_clen sc)
                    (repeat 0 (N.to_nat BUF_SIZE)) [] with
  | None => None
  | Some (false, tf', _) => Some (tf', None)
  | Some (true, tf', acc) =>
      if memcmp_eq (ds_of (h_chash sh)) (H (h_chash sh) acc) (c_digest sc)
      then Some (tf', Some 1%Z)
      else match zero_chunk th tf' tc with
           | Some tf'' => Some (tf'', Some (-1)%Z)
           | None => None
           end
  end.

(** the source chunk [zck_copy_chunks] uses for target chunk [tc], if any *)
Definition match_for (sh th : header) (tc : chunk) : option chunk :=
  match lookup sh (ds_of (h_chash th)) (c_digest tc) with
  | Some (_, sc) => if (c_ulen sc =? c_ulen tc) && (c_clen sc =? c_clen tc) then Some sc else None
  | None => None
  end.

(** one iteration of the [while(tgt_idx)] loop *)
Definition copy_one (sh : header) (sf : bytes) (th : header) (tc : chunk) (v : Z) (tf : bytes)
  : option (Z * bytes) :=
  if (v =? 1)%Z then Some (v, tf) else
  match match_for sh th tc with
  | None => Some (v, tf)
  | Some sc =>
      match write_and_verify sh sf th tf sc tc with
      | None => None
      | Some (tf', Some v') => Some (v', tf')
      | Some (tf', None) => Some (v, tf')
      end
  end.

Fixpoint copy_loop (sh : header) (sf : bytes) (th : header) (tcs : list chunk) (fl : list Z) (tf : bytes)
  : option (list Z * bytes) :=
  match tcs with
  | [] => Some ([], tf)
  | tc :: tcs' =>
      match copy_one sh sf th tc (hd 0%Z fl) tf with
      | None => None
      | Some (v', tf') =>
          match copy_loop sh sf th tcs' (tl fl) tf' with
          | Some (r, tf'') => Some (v' :: r, tf'')
          | None => None
          end
      end
  end.

(** [zck_copy_chunks(src, tgt)]: new flags, new target file, and the source file (no step
    writes to it) *)
Definition copy_chunks (sh : header) (sf : bytes) (th : header) (tf : bytes) (fl : list Z)
  : option (list Z * bytes * bytes) :=
  match copy_loop sh sf th (h_chunks th) fl tf with
  | Some (fl', tf') => Some (fl', tf', sf)
  | None => None
  end.

(** copies from several sources, one after the other *)
Fixpoint copy_many (th : header) (srcs : list (header * bytes)) (tf : bytes) (fl : list Z)
  : option (list Z * bytes) :=
  match srcs with
  | [] => Some (fl, tf)
  | (sh, sf) :: r =>
      match copy_chunks sh sf th tf fl with
      | Some (fl', tf', _) => copy_many th r tf' fl'
      | None => None
      end
  end.
End Copy.

(** * zck_find_matching_chunks *)
Inductive pairing := PUnset | PSelf | PSrc (k : N) (n : nat).   (* tgt_idx->src *)

(** the source chunk paired with [tc], if any: same compression type -> by (compressed)
    digest; otherwise, if both files carry uncompressed digests -> by uncompressed digest;
    in both cases the uncompressed length must be equal *)
Definition pair_for (sh th : header) (tc : chunk) : option (nat * chunk) :=
  let tds := ds_of (h_chash th) in
  let f := if h_comp sh =? h_comp th then lookup sh tds (c_digest tc)
           else if uflag sh && uflag th then
                  match c_udigest tc with Some u => lookup_u sh tds u | None => None end
                else None in
  match f with
  | Some (n, sc) => if c_ulen sc =? c_ulen tc then Some (n, sc) else None
  | None => None
  end.

(** [k] labels the source context *)
Fixpoint matching_loop (k : N) (sh th : header) (tcs : list chunk) (fl : list Z) (pr : list pairing)
  : list Z * list pairing :=
  match tcs with
  | [] => ([], [])
  | tc :: tcs' =>
      let v := hd 0%Z fl in
      let p := hd PUnset pr in
      let '(v', p') :=
        if negb (v =? 0)%Z then (v, p) else
        match pair_for sh th tc with
        | Some (n, _) => (1%Z, PSrc k n)
        | None => (v, PSelf)
        end in
      let '(rf, rp) := matching_loop k sh th tcs' (tl fl) (tl pr) in
      (v' :: rf, p' :: rp)
  end.
Definition find_matching (k : N) (sh th : header) (fl : list Z) (pr : list pairing) :=
  matching_loop k sh th (h_chunks th) fl pr.

(** * Specification layer *)
(** the extent of a target chunk *)
Definition ext_lo (th : header) (c : chunk) : N := data_offset th + c_start c.
Definition in_ext (th : header) (c : chunk) (x : N) : Prop := ext_lo th c <= x < ext_lo th c + c_clen c.
