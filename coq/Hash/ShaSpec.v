(** FIPS 180-4 SHA-1, SHA-256 and SHA-512 as executable functions over byte lists.
    Words are [N]; every arithmetic result is reduced to the word size explicitly
    ([w32] / [w64] = [mod 2^32] / [mod 2^64], see [w32_mod], [w64_mod]).
    SHA-512/128 (zchunk's name for "first 16 bytes of SHA-512") is [sha512_128].
    Definitions and NIST test vectors only; no property of the algorithms is claimed. *)
From ZV Require Import Base.Bytes.
Local Open Scope N_scope.

(* ---------------------------------------------------------------- words *)
Definition mask32 : N := 4294967295.
Definition mask64 : N := 18446744073709551615.
Definition w32 (x : N) : N := N.land x mask32.
Definition w64 (x : N) : N := N.land x mask64.

Lemma w32_mod x : w32 x = x mod 2 ^ 32.
Proof. unfold w32. change mask32 with (N.ones 32). apply N.land_ones. Qed.
Lemma w64_mod x : w64 x = x mod 2 ^ 64.
Proof. unfold w64. change mask64 with (N.ones 64). apply N.land_ones. Qed.

Definition add32 (a b : N) : N := w32 (a + b).
Definition add64 (a b : N) : N := w64 (a + b).
Definition not32 (x : N) : N := N.lxor x mask32.
Definition not64 (x : N) : N := N.lxor x mask64.
Definition rotr32 (n x : N) : N := N.lor (N.shiftr x n) (w32 (N.shiftl x (32 - n))).
Definition rotl32 (n x : N) : N := N.lor (w32 (N.shiftl x n)) (N.shiftr x (32 - n)).
Definition rotr64 (n x : N) : N := N.lor (N.shiftr x n) (w64 (N.shiftl x (64 - n))).
Definition xor3 (a b c : N) : N := N.lxor (N.lxor a b) c.

(* ---------------------------------------------------------------- bytes <-> words, big endian *)
(** the [n] low-order bytes of [v], most significant first *)
Fixpoint be_bytes (n : nat) (v : N) : bytes :=
  match n with
  | O => []
  | S k => (N.shiftr v (8 * N.of_nat k)) mod 256 :: be_bytes k v
  end.

Definition be_word (bs : bytes) : N := fold_left (fun acc b => acc * 256 + b) bs 0.

Fixpoint words32 (l : bytes) : list N :=
  match l with
  | a :: b :: c :: d :: t => be_word [a; b; c; d] :: words32 t
  | _ => []
  end.

Fixpoint words64 (l : bytes) : list N :=
  match l with
  | a :: b :: c :: d :: e :: f :: g :: h :: t => be_word [a; b; c; d; e; f; g; h] :: words64 t
  | _ => []
  end.

(* ---------------------------------------------------------------- parsing into blocks *)
(** FIPS 5.2: the padded message is parsed into [B]-byte blocks *)
Fixpoint chunks_fuel (fuel : nat) (B : nat) (l : bytes) : list bytes :=
  match fuel with
  | O => []
  | S f => match l with
           | [] => []
           | _ => firstn B l :: chunks_fuel f B (skipn B l)
           end
  end.
Definition chunks (B : nat) (l : bytes) : list bytes := chunks_fuel (length l) B l.

(** FIPS 5.1: the number [k] of zero bytes such that [n + 1 + k + L] is a multiple of [B] *)
Definition pad_zeros (B L n : N) : N := (B - (n + 1 + L) mod B) mod B.

(** 5.1.1 (SHA-1, SHA-256): 0x80, zeros, 64-bit big-endian bit length *)
Definition pad64 (msg : bytes) : bytes :=
  msg ++ [128] ++ repeat 0 (N.to_nat (pad_zeros 64 8 (len msg))) ++ be_bytes 8 (8 * len msg).
(** 5.1.2 (SHA-512): 0x80, zeros, 128-bit big-endian bit length *)
Definition pad128 (msg : bytes) : bytes :=
  msg ++ [128] ++ repeat 0 (N.to_nat (pad_zeros 128 16 (len msg))) ++ be_bytes 16 (8 * len msg).

(* ---------------------------------------------------------------- SHA-256 (FIPS 6.2) *)
Definition sha256_K : list N := [
  0x428a2f98; 0x71374491; 0xb5c0fbcf; 0xe9b5dba5; 0x3956c25b; 0x59f111f1; 0x923f82a4; 0xab1c5ed5;
  0xd807aa98; 0x12835b01; 0x243185be; 0x550c7dc3; 0x72be5d74; 0x80deb1fe; 0x9bdc06a7; 0xc19bf174;
  0xe49b69c1; 0xefbe4786; 0x0fc19dc6; 0x240ca1cc; 0x2de92c6f; 0x4a7484aa; 0x5cb0a9dc; 0x76f988da;
  0x983e5152; 0xa831c66d; 0xb00327c8; 0xbf597fc7; 0xc6e00bf3; 0xd5a79147; 0x06ca6351; 0x14292967;
  0x27b70a85; 0x2e1b2138; 0x4d2c6dfc; 0x53380d13; 0x650a7354; 0x766a0abb; 0x81c2c92e; 0x92722c85;
  0xa2bfe8a1; 0xa81a664b; 0xc24b8b70; 0xc76c51a3; 0xd192e819; 0xd6990624; 0xf40e3585; 0x106aa070;
  0x19a4c116; 0x1e376c08; 0x2748774c; 0x34b0bcb5; 0x391c0cb3; 0x4ed8aa4a; 0x5b9cca4f; 0x682e6ff3;
  0x748f82ee; 0x78a5636f; 0x84c87814; 0x8cc70208; 0x90befffa; 0xa4506ceb; 0xbef9a3f7; 0xc67178f2].

Definition sha256_H0 : list N := [
  0x6a09e667; 0xbb67ae85; 0x3c6ef372; 0xa54ff53a; 0x510e527f; 0x9b05688c; 0x1f83d9ab; 0x5be0cd19].

Definition Ch32 (x y z : N) : N := N.lxor (N.land x y) (N.land (not32 x) z).
Definition Maj (x y z : N) : N := xor3 (N.land x y) (N.land x z) (N.land y z).
Definition BSIG0_256 x := xor3 (rotr32 2 x) (rotr32 13 x) (rotr32 22 x).
Definition BSIG1_256 x := xor3 (rotr32 6 x) (rotr32 11 x) (rotr32 25 x).
Definition SSIG0_256 x := xor3 (rotr32 7 x) (rotr32 18 x) (N.shiftr x 3).
Definition SSIG1_256 x := xor3 (rotr32 17 x) (rotr32 19 x) (N.shiftr x 10).

(** message schedule: [win] holds W(t-16) .. W(t-1), oldest first; produces the next [n] words *)
Fixpoint sched256 (n : nat) (win : list N) : list N :=
  match n with
  | O => []
  | S k =>
    match win with
    | [w0; w1; w2; w3; w4; w5; w6; w7; w8; w9; w10; w11; w12; w13; w14; w15] =>
        let w := add32 (add32 (SSIG1_256 w14) w9) (add32 (SSIG0_256 w1) w0) in
        w :: sched256 k [w1; w2; w3; w4; w5; w6; w7; w8; w9; w10; w11; w12; w13; w14; w15; w]
    | _ => []
    end
  end.

Definition round256 (st : list N) (kw : N * N) : list N :=
  match st with
  | [a; b; c; d; e; f; g; h] =>
      let t1 := add32 (add32 (add32 h (BSIG1_256 e)) (add32 (Ch32 e f g) (fst kw))) (snd kw) in
      let t2 := add32 (BSIG0_256 a) (Maj a b c) in
      [add32 t1 t2; a; b; c; add32 d t1; e; f; g]
  | _ => st
  end.

Fixpoint map2 (f : N -> N -> N) (a b : list N) : list N :=
  match a, b with
  | x :: a', y :: b' => f x y :: map2 f a' b'
  | _, _ => []
  end.

Definition sha256_compress (H : list N) (block : bytes) : list N :=
  let w16 := words32 block in
  let W := w16 ++ sched256 48 w16 in
  map2 add32 H (fold_left round256 (combine sha256_K W) H).

Definition out32 (H : list N) : bytes := flat_map (be_bytes 4) H.
Definition out64 (H : list N) : bytes := flat_map (be_bytes 8) H.

Definition sha256 (msg : bytes) : bytes :=
  out32 (fold_left sha256_compress (chunks 64 (pad64 msg)) sha256_H0).

(* ---------------------------------------------------------------- SHA-512 (FIPS 6.4) *)
Definition sha512_K : list N := [
  0x428a2f98d728ae22; 0x7137449123ef65cd; 0xb5c0fbcfec4d3b2f; 0xe9b5dba58189dbbc;
  0x3956c25bf348b538; 0x59f111f1b605d019; 0x923f82a4af194f9b; 0xab1c5ed5da6d8118;
  0xd807aa98a3030242; 0x12835b0145706fbe; 0x243185be4ee4b28c; 0x550c7dc3d5ffb4e2;
  0x72be5d74f27b896f; 0x80deb1fe3b1696b1; 0x9bdc06a725c71235; 0xc19bf174cf692694;
  0xe49b69c19ef14ad2; 0xefbe4786384f25e3; 0x0fc19dc68b8cd5b5; 0x240ca1cc77ac9c65;
  0x2de92c6f592b0275; 0x4a7484aa6ea6e483; 0x5cb0a9dcbd41fbd4; 0x76f988da831153b5;
  0x983e5152ee66dfab; 0xa831c66d2db43210; 0xb00327c898fb213f; 0xbf597fc7beef0ee4;
  0xc6e00bf33da88fc2; 0xd5a79147930aa725; 0x06ca6351e003826f; 0x142929670a0e6e70;
  0x27b70a8546d22ffc; 0x2e1b21385c26c926; 0x4d2c6dfc5ac42aed; 0x53380d139d95b3df;
  0x650a73548baf63de; 0x766a0abb3c77b2a8; 0x81c2c92e47edaee6; 0x92722c851482353b;
  0xa2bfe8a14cf10364; 0xa81a664bbc423001; 0xc24b8b70d0f89791; 0xc76c51a30654be30;
  0xd192e819d6ef5218; 0xd69906245565a910; 0xf40e35855771202a; 0x106aa07032bbd1b8;
  0x19a4c116b8d2d0c8; 0x1e376c085141ab53; 0x2748774cdf8eeb99; 0x34b0bcb5e19b48a8;
  0x391c0cb3c5c95a63; 0x4ed8aa4ae3418acb; 0x5b9cca4f7763e373; 0x682e6ff3d6b2b8a3;
  0x748f82ee5defb2fc; 0x78a5636f43172f60; 0x84c87814a1f0ab72; 0x8cc702081a6439ec;
  0x90befffa23631e28; 0xa4506cebde82bde9; 0xbef9a3f7b2c67915; 0xc67178f2e372532b;
  0xca273eceea26619c; 0xd186b8c721c0c207; 0xeada7dd6cde0eb1e; 0xf57d4f7fee6ed178;
  0x06f067aa72176fba; 0x0a637dc5a2c898a6; 0x113f9804bef90dae; 0x1b710b35131c471b;
  0x28db77f523047d84; 0x32caab7b40c72493; 0x3c9ebe0a15c9bebc; 0x431d67c49c100d4c;
  0x4cc5d4becb3e42b6; 0x597f299cfc657e2a; 0x5fcb6fab3ad6faec; 0x6c44198c4a475817].

Definition sha512_H0 : list N := [
  0x6a09e667f3bcc908; 0xbb67ae8584caa73b; 0x3c6ef372fe94f82b; 0xa54ff53a5f1d36f1;
  0x510e527fade682d1; 0x9b05688c2b3e6c1f; 0x1f83d9abfb41bd6b; 0x5be0cd19137e2179].

Definition Ch64 (x y z : N) : N := N.lxor (N.land x y) (N.land (not64 x) z).
Definition BSIG0_512 x := xor3 (rotr64 28 x) (rotr64 34 x) (rotr64 39 x).
Definition BSIG1_512 x := xor3 (rotr64 14 x) (rotr64 18 x) (rotr64 41 x).
Definition SSIG0_512 x := xor3 (rotr64 1 x) (rotr64 8 x) (N.shiftr x 7).
Definition SSIG1_512 x := xor3 (rotr64 19 x) (rotr64 61 x) (N.shiftr x 6).

Fixpoint sched512 (n : nat) (win : list N) : list N :=
  match n with
  | O => []
  | S k =>
    match win with
    | [w0; w1; w2; w3; w4; w5; w6; w7; w8; w9; w10; w11; w12; w13; w14; w15] =>
        let w := add64 (add64 (SSIG1_512 w14) w9) (add64 (SSIG0_512 w1) w0) in
        w :: sched512 k [w1; w2; w3; w4; w5; w6; w7; w8; w9; w10; w11; w12; w13; w14; w15; w]
    | _ => []
    end
  end.

Definition round512 (st : list N) (kw : N * N) : list N :=
  match st with
  | [a; b; c; d; e; f; g; h] =>
      let t1 := add64 (add64 (add64 h (BSIG1_512 e)) (add64 (Ch64 e f g) (fst kw))) (snd kw) in
      let t2 := add64 (BSIG0_512 a) (Maj a b c) in
      [add64 t1 t2; a; b; c; add64 d t1; e; f; g]
  | _ => st
  end.

Definition sha512_compress (H : list N) (block : bytes) : list N :=
  let w16 := words64 block in
  let W := w16 ++ sched512 64 w16 in
  map2 add64 H (fold_left round512 (combine sha512_K W) H).

Definition sha512 (msg : bytes) : bytes :=
  out64 (fold_left sha512_compress (chunks 128 (pad128 msg)) sha512_H0).

(** zchunk's ZCK_HASH_SHA512_128 *)
Definition sha512_128 (msg : bytes) : bytes := firstn 16 (sha512 msg).

(* ---------------------------------------------------------------- SHA-1 (FIPS 6.1) *)
Definition sha1_H0 : list N := [0x67452301; 0xefcdab89; 0x98badcfe; 0x10325476; 0xc3d2e1f0].
Definition sha1_K : list N := [0x5a827999; 0x6ed9eba1; 0x8f1bbcdc; 0xca62c1d6].

Definition Parity (x y z : N) : N := xor3 x y z.
(** f_t and K_t for t = 0..79, as (selector, constant) *)
Definition sha1_fK : list (nat * N) :=
  repeat (0%nat, 0x5a827999) 20 ++ repeat (1%nat, 0x6ed9eba1) 20 ++
  repeat (2%nat, 0x8f1bbcdc) 20 ++ repeat (3%nat, 0xca62c1d6) 20.
Definition sha1_f (sel : nat) (x y z : N) : N :=
  match sel with
  | 0%nat => Ch32 x y z
  | 2%nat => Maj x y z
  | _ => Parity x y z
  end.

Fixpoint sched1 (n : nat) (win : list N) : list N :=
  match n with
  | O => []
  | S k =>
    match win with
    | [w0; w1; w2; w3; w4; w5; w6; w7; w8; w9; w10; w11; w12; w13; w14; w15] =>
        let w := rotl32 1 (N.lxor (N.lxor w13 w8) (N.lxor w2 w0)) in
        w :: sched1 k [w1; w2; w3; w4; w5; w6; w7; w8; w9; w10; w11; w12; w13; w14; w15; w]
    | _ => []
    end
  end.

Definition round1 (st : list N) (fkw : (nat * N) * N) : list N :=
  match st with
  | [a; b; c; d; e] =>
      let '((sel, k), w) := fkw in
      let t := add32 (add32 (add32 (rotl32 5 a) (sha1_f sel b c d)) (add32 e k)) w in
      [t; a; rotl32 30 b; c; d]
  | _ => st
  end.

Definition sha1_compress (H : list N) (block : bytes) : list N :=
  let w16 := words32 block in
  let W := w16 ++ sched1 64 w16 in
  map2 add32 H (fold_left round1 (combine sha1_fK W) H).

Definition sha1 (msg : bytes) : bytes :=
  out32 (fold_left sha1_compress (chunks 64 (pad64 msg)) sha1_H0).

(* ---------------------------------------------------------------- NIST vectors *)
(* "abc" *)
Definition m_abc : bytes := [97; 98; 99].
(* "abcdbcdecdefdefgefghfghighijhijkijkljklmklmnlmnomnopnopq" (56 bytes) *)
Definition m_56 : bytes :=
  [97;98;99;100; 98;99;100;101; 99;100;101;102; 100;101;102;103; 101;102;103;104; 102;103;104;105;
   103;104;105;106; 104;105;106;107; 105;106;107;108; 106;107;108;109; 107;108;109;110;
   108;109;110;111; 109;110;111;112; 110;111;112;113].
(* "abcdefghbcdefghicdefghijdefghijkefghijklfghijklmghijklmnhijklmnoijklmnopjklmnopqklmnopqrlmnopqrsmnopqrstnopqrstu" (112 bytes) *)
Definition m_112 : bytes :=
  flat_map (fun i => [97 + i; 98 + i; 99 + i; 100 + i; 101 + i; 102 + i; 103 + i; 104 + i])
           [0; 1; 2; 3; 4; 5; 6; 7; 8; 9; 10; 11; 12; 13].

(** digest given as list of 32-bit (or 64-bit) big-endian words, the way FIPS prints them *)
Definition dg32 (ws : list N) : bytes := out32 ws.
Definition dg64 (ws : list N) : bytes := out64 ws.

Example sha1_abc : sha1 m_abc = dg32 [0xa9993e36; 0x4706816a; 0xba3e2571; 0x7850c26c; 0x9cd0d89d].
Proof. vm_compute. reflexivity. Qed.
Example sha1_empty : sha1 [] = dg32 [0xda39a3ee; 0x5e6b4b0d; 0x3255bfef; 0x95601890; 0xafd80709].
Proof. vm_compute. reflexivity. Qed.
Example sha1_56 : sha1 m_56 = dg32 [0x84983e44; 0x1c3bd26e; 0xbaae4aa1; 0xf95129e5; 0xe54670f1].
Proof. vm_compute. reflexivity. Qed.
Example sha1_112 : sha1 m_112 = dg32 [0xa49b2446; 0xa02c645b; 0xf419f995; 0xb6709125; 0x3a04a259].
Proof. vm_compute. reflexivity. Qed.

Example sha256_abc : sha256 m_abc =
  dg32 [0xba7816bf; 0x8f01cfea; 0x414140de; 0x5dae2223; 0xb00361a3; 0x96177a9c; 0xb410ff61; 0xf20015ad].
Proof. vm_compute. reflexivity. Qed.
Example sha256_empty : sha256 [] =
  dg32 [0xe3b0c442; 0x98fc1c14; 0x9afbf4c8; 0x996fb924; 0x27ae41e4; 0x649b934c; 0xa495991b; 0x7852b855].
Proof. vm_compute. reflexivity. Qed.
Example sha256_56 : sha256 m_56 =
  dg32 [0x248d6a61; 0xd20638b8; 0xe5c02693; 0x0c3e6039; 0xa33ce459; 0x64ff2167; 0xf6ecedd4; 0x19db06c1].
Proof. vm_compute. reflexivity. Qed.
Example sha256_112 : sha256 m_112 =
  dg32 [0xcf5b16a7; 0x78af8380; 0x036ce59e; 0x7b049237; 0x0b249b11; 0xe8f07a51; 0xafac4503; 0x7afee9d1].
Proof. vm_compute. reflexivity. Qed.

Example sha512_abc : sha512 m_abc =
  dg64 [0xddaf35a193617aba; 0xcc417349ae204131; 0x12e6fa4e89a97ea2; 0x0a9eeee64b55d39a;
        0x2192992a274fc1a8; 0x36ba3c23a3feebbd; 0x454d4423643ce80e; 0x2a9ac94fa54ca49f].
Proof. vm_compute. reflexivity. Qed.
Example sha512_empty : sha512 [] =
  dg64 [0xcf83e1357eefb8bd; 0xf1542850d66d8007; 0xd620e4050b5715dc; 0x83f4a921d36ce9ce;
        0x47d0d13c5d85f2b0; 0xff8318d2877eec2f; 0x63b931bd47417a81; 0xa538327af927da3e].
Proof. vm_compute. reflexivity. Qed.
Example sha512_56 : sha512 m_56 =
  dg64 [0x204a8fc6dda82f0a; 0x0ced7beb8e08a416; 0x57c16ef468b228a8; 0x279be331a703c335;
        0x96fd15c13b1b07f9; 0xaa1d3bea57789ca0; 0x31ad85c7a71dd703; 0x54ec631238ca3445].
Proof. vm_compute. reflexivity. Qed.
Example sha512_112 : sha512 m_112 =
  dg64 [0x8e959b75dae313da; 0x8cf4f72814fc143f; 0x8f7779c6eb9f7fa1; 0x7299aeadb6889018;
        0x501d289e4900f7e4; 0x331b99dec4b5433a; 0xc7d329eeb6dd2654; 0x5e96e55b874be909].
Proof. vm_compute. reflexivity. Qed.
Example sha512_128_abc : sha512_128 m_abc = dg64 [0xddaf35a193617aba; 0xcc417349ae204131].
Proof. vm_compute. reflexivity. Qed.
