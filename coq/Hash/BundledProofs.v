(** Proofs about the bundled checksum backend, library level (libsha.c, hash.c).
    Main results: for every message and every way of cutting it into hash_update calls the
    bundled SHA-1 / SHA-256 / SHA-512 code computes the FIPS digest ([bundled_sha1],
    [bundled_sha256], [bundled_sha512], [bundled_sha512_128], [zck_digest_correct]). *)
From ZV Require Import Base.Bytes Hash.ShaSpec Gen.GenConsts Gen.GenSha Hash.Bundled Hash.BundledCore.
Local Open Scope N_scope.
Ltac Zify.zify_post_hook ::= Z.to_euclidean_division_equations.

Lemma pos64' : (0 < 64)%nat. Proof. lia. Qed.
Lemma pos128' : (0 < 128)%nat. Proof. lia. Qed.

(* ---------------------------------------------------------------- digest lengths *)
Section Lengths.
  Variable A : Type.
  Variable round : list N -> A -> list N.
  Variable n : nat.
  Hypothesis round_len : forall st x, length st = n -> length (round st x) = n.

  Lemma fold_round_len l : forall st, length st = n -> length (fold_left round l st) = n.
  Proof. induction l as [|x t IH]; intros st H; cbn [fold_left]; [exact H | apply IH, round_len, H]. Qed.
End Lengths.

Lemma map2_length f a : forall b, length (map2 f a b) = Nat.min (length a) (length b).
Proof.
  induction a as [|x a IH]; intros [|y b]; cbn [map2 length Nat.min]; try reflexivity.
  rewrite IH. reflexivity.
Qed.

Lemma round256_len st kw : length st = 8%nat -> length (round256 st kw) = 8%nat.
Proof. do 9 (destruct st as [|? st]; try discriminate). reflexivity. Qed.
Lemma round512_len st kw : length st = 8%nat -> length (round512 st kw) = 8%nat.
Proof. do 9 (destruct st as [|? st]; try discriminate). reflexivity. Qed.
Lemma round1_len st kw : length st = 5%nat -> length (round1 st kw) = 5%nat.
Proof.
  do 6 (destruct st as [|? st]; try discriminate). destruct kw as [[sel k] w]. reflexivity.
Qed.

Lemma sha256_compress_len H b : length H = 8%nat -> length (sha256_compress H b) = 8%nat.
Proof.
  intros E. unfold sha256_compress. rewrite map2_length.
  rewrite (fold_round_len _ round256 8 round256_len) by exact E. rewrite E. reflexivity.
Qed.
Lemma sha512_compress_len H b : length H = 8%nat -> length (sha512_compress H b) = 8%nat.
Proof.
  intros E. unfold sha512_compress. rewrite map2_length.
  rewrite (fold_round_len _ round512 8 round512_len) by exact E. rewrite E. reflexivity.
Qed.
Lemma sha1_compress_len H b : length H = 5%nat -> length (sha1_compress H b) = 5%nat.
Proof.
  intros E. unfold sha1_compress. rewrite map2_length.
  rewrite (fold_round_len _ round1 5 round1_len) by exact E. rewrite E. reflexivity.
Qed.

Lemma out_length k H : length (flat_map (be_bytes k) H) = (k * length H)%nat.
Proof.
  induction H as [|x H IH]; cbn [flat_map length]; [lia|].
  rewrite app_length, IH. pose proof (len_be_bytes k x) as E. unfold len in E. lia.
Qed.

Lemma sha1_length msg : length (sha1 msg) = 20%nat.
Proof.
  unfold sha1, out32. rewrite out_length.
  rewrite (fold_round_len _ sha1_compress 5 sha1_compress_len); reflexivity.
Qed.
Lemma sha256_length msg : length (sha256 msg) = 32%nat.
Proof.
  unfold sha256, out32. rewrite out_length.
  rewrite (fold_round_len _ sha256_compress 8 sha256_compress_len); reflexivity.
Qed.
Lemma sha512_length msg : length (sha512 msg) = 64%nat.
Proof.
  unfold sha512, out64. rewrite out_length.
  rewrite (fold_round_len _ sha512_compress 8 sha512_compress_len); reflexivity.
Qed.

(* ---------------------------------------------------------------- spec = feed over the padded message *)
Lemma length_be_bytes n v : length (be_bytes n v) = n.
Proof. induction n; cbn [be_bytes length]; congruence. Qed.
Lemma pad_total64 n : (n + 1 + pad_zeros 64 8 n + 8) mod 64 = 0.
Proof. unfold pad_zeros. lia. Qed.
Lemma pad_total128 n : (n + 1 + pad_zeros 128 16 n + 16) mod 128 = 0.
Proof. unfold pad_zeros. lia. Qed.

Lemma pad64_blocks msg : exists k, length (pad64 msg) = (k * 64)%nat.
Proof.
  exists (N.to_nat ((len msg + 1 + pad_zeros 64 8 (len msg) + 8) / 64)).
  pose proof (pad_total64 (len msg)) as T.
  unfold pad64. rewrite !app_length, repeat_length, length_be_bytes.
  change (length [128]) with 1%nat. generalize dependent (pad_zeros 64 8 (len msg)). intros z T.
  unfold len in *. lia.
Qed.

Lemma pad128_blocks msg : exists k, length (pad128 msg) = (k * 128)%nat.
Proof.
  exists (N.to_nat ((len msg + 1 + pad_zeros 128 16 (len msg) + 16) / 128)).
  pose proof (pad_total128 (len msg)) as T.
  unfold pad128. rewrite !app_length, repeat_length, length_be_bytes.
  change (length [128]) with 1%nat. generalize dependent (pad_zeros 128 16 (len msg)). intros z T.
  unfold len in *. lia.
Qed.

Lemma sha1_as_feed msg : sha1 msg = out32 (fst (feed hstate sha1_compress 64 sha1_H0 [] (pad64 msg))).
Proof.
  unfold sha1. destruct (pad64_blocks msg) as [k Hk].
  rewrite (chunks_feed' (list N) sha1_compress 64 pos64' sha1_H0 (pad64 msg) k Hk). reflexivity.
Qed.
Lemma sha256_as_feed msg : sha256 msg = out32 (fst (feed hstate sha256_compress 64 sha256_H0 [] (pad64 msg))).
Proof.
  unfold sha256. destruct (pad64_blocks msg) as [k Hk].
  rewrite (chunks_feed' (list N) sha256_compress 64 pos64' sha256_H0 (pad64 msg) k Hk). reflexivity.
Qed.
Lemma sha512_as_feed msg : sha512 msg = out64 (fst (feed hstate sha512_compress 128 sha512_H0 [] (pad128 msg))).
Proof.
  unfold sha512. destruct (pad128_blocks msg) as [k Hk].
  rewrite (chunks_feed' (list N) sha512_compress 128 pos128' sha512_H0 (pad128 msg) k Hk). reflexivity.
Qed.

(* ---------------------------------------------------------------- libsha.c / hash.c *)
Lemma HB256 : (64 = 64 /\ 9 = 9 /\ 8 = 8) \/ (64 = 128 /\ 9 = 17 /\ 8 = 16).
Proof. left. repeat split. Qed.
Lemma HB512 : (128 = 64 /\ 17 = 9 /\ 16 = 8) \/ (128 = 128 /\ 17 = 17 /\ 16 = 16).
Proof. right. repeat split. Qed.

(** the library context [c] is the one reached after absorbing [msg] *)
Definition RL (c : lib_ctx) (msg : bytes) : Prop :=
  match c with
  | L_SHA1 x => R1 hstate sha1_compress sha1_H0 x msg
  | L_SHA256 x => R2 hstate sha256_compress 64 sha256_H0 x msg
  | L_SHA512 x => R2 hstate sha512_compress 128 sha512_H0 x msg
  end.

Lemma RL_init t : RL (lib_hash_init t) [].
Proof.
  destruct t; cbn [lib_hash_init RL].
  - rewrite gen_sha1_h0_fips. apply R1_init.
  - rewrite gen_sha256_h0_fips. apply (R2_init hstate sha256_compress 64 9 8 HB256).
  - rewrite gen_sha512_h0_fips. apply (R2_init hstate sha512_compress 128 17 16 HB512).
  - rewrite gen_sha512_h0_fips. apply (R2_init hstate sha512_compress 128 17 16 HB512).
Qed.

Lemma RL_part c msg m size :
  RL c msg -> size <= len m -> size <= 2147483648 ->
  RL (lib_hash_update_part c m size) (msg ++ firstnN size m).
Proof.
  intros H Hs Hm.
  assert (E : u32 size = size) by (apply u32_small; unfold two32; lia).
  destruct c as [x|x|x]; cbn [lib_hash_update_part RL] in *; rewrite E.
  - apply R1_update; assumption.
  - apply (R2_update hstate sha256_compress 64 9 8 HB256); assumption.
  - apply (R2_update hstate sha512_compress 128 17 16 HB512); assumption.
Qed.

Lemma RL_loop fuel : forall c msg m,
  RL c msg -> (length m <= fuel)%nat -> RL (lib_update_loop fuel c m) (msg ++ m).
Proof.
  destruct gen_max_update as [M0 M1].
  induction fuel as [|f IH]; intros c msg m H Hf; cbn [lib_update_loop].
  - destruct m; [|cbn [length] in Hf; lia].
    assert (A0 : 0 <= len (@nil byte)) by (cbv; discriminate).
    exact (RL_part c msg [] 0 H A0 ltac:(lia)).
  - destruct (N.ltb_spec LIBSHA_MAX_UPDATE (len m)) as [Hlt|Hge].
    + rewrite <- (firstnN_skipnN LIBSHA_MAX_UPDATE m) at 3. rewrite app_assoc.
      apply IH; [ apply RL_part; [exact H | lia | exact M1] | ].
      unfold skipnN. rewrite skipn_length. unfold len in Hlt. lia.
    + rewrite <- (firstnN_all (len m) m) at 3 by lia. apply RL_part; [exact H | lia | lia].
Qed.

Lemma RL_hash_update c msg m : RL c msg -> RL (hash_update c m) (msg ++ m).
Proof.
  intros H. destruct m as [|x t] eqn:E; cbn [hash_update]; [rewrite app_nil_r; exact H|].
  rewrite <- E. unfold lib_hash_update.
  destruct gen_max_update as [M0 M1].
  destruct (N.eqb_spec LIBSHA_MAX_UPDATE 0) as [Z|Z]; [lia|].
  apply RL_loop; [exact H | lia].
Qed.

Lemma RL_fold frags : forall c msg,
  RL c msg -> RL (fold_left hash_update frags c) (msg ++ concat frags).
Proof.
  induction frags as [|m t IH]; intros c msg H; cbn [fold_left concat].
  - rewrite app_nil_r. exact H.
  - rewrite app_assoc. apply IH. apply RL_hash_update. exact H.
Qed.

Lemma RL_final_sha1 x msg : RL (L_SHA1 x) msg -> lib_hash_final (L_SHA1 x) = sha1 msg.
Proof.
  cbn [RL lib_hash_final]. intros H. rewrite sha1_as_feed. f_equal.
  apply sha1_final_ok. exact H.
Qed.

Lemma RL_final_sha256 x msg : RL (L_SHA256 x) msg -> lib_hash_final (L_SHA256 x) = sha256 msg.
Proof.
  cbn [RL lib_hash_final]. intros H. rewrite sha256_as_feed. f_equal.
  apply (sha2_final_ok hstate sha256_compress 64 9 8 HB256 x msg sha256_H0 H). discriminate.
Qed.

Lemma RL_final_sha512 x msg :
  RL (L_SHA512 x) msg -> len msg < 2 ^ 61 -> lib_hash_final (L_SHA512 x) = sha512 msg.
Proof.
  cbn [RL lib_hash_final]. intros H G. rewrite sha512_as_feed. f_equal.
  apply (sha2_final_ok hstate sha512_compress 128 17 16 HB512 x msg sha512_H0 H). intros _. exact G.
Qed.

(** the algorithm of a context never changes *)
Definition ctx_kind (c : lib_ctx) : nat :=
  match c with L_SHA1 _ => 0%nat | L_SHA256 _ => 1%nat | L_SHA512 _ => 2%nat end.

Lemma kind_part c m size : ctx_kind (lib_hash_update_part c m size) = ctx_kind c.
Proof. destruct c; reflexivity. Qed.

Lemma kind_loop fuel : forall c m, ctx_kind (lib_update_loop fuel c m) = ctx_kind c.
Proof.
  induction fuel as [|f IH]; intros c m; cbn [lib_update_loop]; [apply kind_part|].
  destruct (LIBSHA_MAX_UPDATE <? len m); [rewrite IH|]; apply kind_part.
Qed.

Lemma kind_hash_update c m : ctx_kind (hash_update c m) = ctx_kind c.
Proof.
  destruct m; cbn [hash_update]; [reflexivity|]. unfold lib_hash_update.
  destruct (LIBSHA_MAX_UPDATE =? 0); [apply kind_part | apply kind_loop].
Qed.

Lemma kind_fold frags : forall c, ctx_kind (fold_left hash_update frags c) = ctx_kind c.
Proof.
  induction frags as [|m t IH]; intros c; cbn [fold_left]; [reflexivity|].
  rewrite IH. apply kind_hash_update.
Qed.

(* ---------------------------------------------------------------- main theorems (T18.1, T18.3) *)
(** For every message and every way of cutting it into hash_update calls (empty pieces
    included, pieces of any size) the bundled backend returns the FIPS digest.  SHA-1 and
    SHA-256 carry a 64-bit length field and the code counts in 64 bits: no length bound.
    SHA-512 has a 128-bit length field of which the code fills the low 64 bits: the bound
    2^61 bytes (2^64 bits) is forced; beyond it FIPS 180-4 still defines a digest and the
    code computes a different one. *)
Theorem bundled_sha1 frags : zck_digest H_SHA1 frags = sha1 (concat frags).
Proof.
  unfold zck_digest. pose proof (RL_fold frags _ _ (RL_init H_SHA1)) as H. cbn [app] in H.
  pose proof (kind_fold frags (lib_hash_init H_SHA1)) as K.
  destruct (fold_left hash_update frags (lib_hash_init H_SHA1)) as [x|x|x]; try discriminate K.
  rewrite (RL_final_sha1 x _ H). apply firstnN_all.
  unfold len. rewrite sha1_length. cbn [digest_size]. destruct gen_digest_sizes as [-> _]. lia.
Qed.

Theorem bundled_sha256 frags : zck_digest H_SHA256 frags = sha256 (concat frags).
Proof.
  unfold zck_digest. pose proof (RL_fold frags _ _ (RL_init H_SHA256)) as H. cbn [app] in H.
  pose proof (kind_fold frags (lib_hash_init H_SHA256)) as K.
  destruct (fold_left hash_update frags (lib_hash_init H_SHA256)) as [x|x|x]; try discriminate K.
  rewrite (RL_final_sha256 x _ H). apply firstnN_all.
  unfold len. rewrite sha256_length. cbn [digest_size]. destruct gen_digest_sizes as [_ [-> _]]. lia.
Qed.

Theorem bundled_sha512 frags :
  len (concat frags) < 2 ^ 61 -> zck_digest H_SHA512 frags = sha512 (concat frags).
Proof.
  intros G.
  unfold zck_digest. pose proof (RL_fold frags _ _ (RL_init H_SHA512)) as H. cbn [app] in H.
  pose proof (kind_fold frags (lib_hash_init H_SHA512)) as K.
  destruct (fold_left hash_update frags (lib_hash_init H_SHA512)) as [x|x|x]; try discriminate K.
  rewrite (RL_final_sha512 x _ H G). apply firstnN_all.
  unfold len. rewrite sha512_length. cbn [digest_size]. destruct gen_digest_sizes as [_ [_ [-> _]]]. lia.
Qed.

(** T18.3: ZCK_HASH_SHA512_128 is the SHA-512 computation cut to digest_size = 16 bytes *)
Theorem bundled_sha512_128 frags :
  len (concat frags) < 2 ^ 61 -> zck_digest H_SHA512_128 frags = sha512_128 (concat frags).
Proof.
  intros G.
  unfold zck_digest. pose proof (RL_fold frags _ _ (RL_init H_SHA512_128)) as H. cbn [app] in H.
  pose proof (kind_fold frags (lib_hash_init H_SHA512_128)) as K.
  destruct (fold_left hash_update frags (lib_hash_init H_SHA512_128)) as [x|x|x]; try discriminate K.
  rewrite (RL_final_sha512 x _ H G). cbn [digest_size].
  destruct gen_digest_sizes as [_ [_ [_ ->]]]. reflexivity.
Qed.

Theorem zck_digest_correct t frags :
  len (concat frags) < 2 ^ 61 -> zck_digest t frags = spec_digest t (concat frags).
Proof.
  intros G. destruct t; cbn [spec_digest].
  - apply bundled_sha1.
  - apply bundled_sha256.
  - apply bundled_sha512, G.
  - apply bundled_sha512_128, G.
Qed.

(** the digest has exactly digest_size bytes *)
Lemma spec_digest_length t msg : len (spec_digest t msg) = digest_size t.
Proof.
  destruct gen_digest_sizes as [E1 [E2 [E3 E4]]].
  destruct t; cbn [spec_digest digest_size]; unfold len.
  - rewrite sha1_length, E1. reflexivity.
  - rewrite sha256_length, E2. reflexivity.
  - rewrite sha512_length, E3. reflexivity.
  - unfold sha512_128. rewrite firstn_length, sha512_length, E4. reflexivity.
Qed.

Theorem zck_digest_correct_len t frags :
  len (concat frags) < 2 ^ 61 ->
  zck_digest t frags = spec_digest t (concat frags) /\ len (zck_digest t frags) = digest_size t.
Proof.
  intros G. rewrite (zck_digest_correct t frags G). split; [reflexivity | apply spec_digest_length].
Qed.

(** streaming = one-shot: the digest depends only on the concatenation *)
Corollary zck_digest_split_independent t frags1 frags2 :
  concat frags1 = concat frags2 -> len (concat frags1) < 2 ^ 61 ->
  zck_digest t frags1 = zck_digest t frags2.
Proof.
  intros E G. rewrite !zck_digest_correct; [rewrite E; reflexivity | rewrite <- E; exact G | exact G].
Qed.

