(** Core lemmas about the bundled checksum backend (model: Hash/Bundled.v, spec: Hash/ShaSpec.v):
    the generated tables are the FIPS tables; the clean functional form [feed] (byte-wise
    absorption, streaming = one-shot by construction); every sha256/sha512/SHA1 update call
    of the C-shaped model is a [feed] of the bytes it was given; the final functions build
    the FIPS padding.  The library-level theorems are in Hash/BundledProofs.v. *)
From ZV Require Import Base.Bytes Hash.ShaSpec Gen.GenConsts Gen.GenSha Hash.Bundled.
Local Open Scope N_scope.
Ltac Zify.zify_post_hook ::= Z.to_euclidean_division_equations.

(* ---------------------------------------------------------------- generated constants (T18.2) *)
Lemma gen_sha256_k_fips : gen_sha256_k = sha256_K. Proof. vm_compute. reflexivity. Qed.
Lemma gen_sha512_k_fips : gen_sha512_k = sha512_K. Proof. vm_compute. reflexivity. Qed.
Lemma gen_sha256_h0_fips : gen_sha256_h0 = sha256_H0. Proof. vm_compute. reflexivity. Qed.
Lemma gen_sha512_h0_fips : gen_sha512_h0 = sha512_H0. Proof. vm_compute. reflexivity. Qed.
Lemma gen_sha1_h0_fips : gen_sha1_h0 = sha1_H0. Proof. vm_compute. reflexivity. Qed.
Lemma gen_sha1_k_fips : gen_sha1_k = sha1_K. Proof. vm_compute. reflexivity. Qed.
(** the macro used for round t of SHA1_Transform selects the FIPS f_t / K_t *)
Lemma gen_sha1_rounds_fips :
  map (fun s => (N.to_nat s, nth (N.to_nat s) gen_sha1_k 0)) gen_sha1_round_sel = sha1_fK.
Proof. vm_compute. reflexivity. Qed.

(** the shape of the C code the model was written for: block sizes, the 64-bit length
    bookkeeping of sha2.c (D29 fixed), unsigned int parameters, two 32-bit SHA-1 counters *)
Lemma gen_layout :
  SHA256_BLOCK_SIZE = 64 /\ SHA512_BLOCK_SIZE = 128 /\ SHA1_BLOCK_LENGTH = 64 /\
  SHA256_FINAL_RESERVE = 9 /\ SHA512_FINAL_RESERVE = 17 /\
  SHA256_TOT_BITS = 64 /\ SHA512_TOT_BITS = 64 /\ SHA256_LENB_BITS = 64 /\ SHA512_LENB_BITS = 64 /\
  SHA256_LENFIELD_BYTES = 8 /\ SHA512_LENFIELD_BYTES = 8 /\
  SHA256_LEN_BITS = 32 /\ SHA512_LEN_BITS = 32 /\
  SHA256_UPDATE_LEN_BITS = 32 /\ SHA512_UPDATE_LEN_BITS = 32 /\ SHA1_UPDATE_LEN_BITS = 32 /\
  SHA1_COUNT_WORDS = 2 /\ SHA1_COUNT_BITS = 32 /\ SHA1_PAD_MASK = 504 /\ SHA1_PAD_TARGET = 448.
Proof. vm_compute. repeat split; reflexivity. Qed.

(** lib_hash_update feeds pieces small enough for every [unsigned int] computation *)
Lemma gen_max_update : 0 < LIBSHA_MAX_UPDATE /\ LIBSHA_MAX_UPDATE <= 2147483648.
Proof. vm_compute. split; [reflexivity | discriminate]. Qed.

Lemma gen_digest_sizes :
  DIGEST_SIZE_SHA1 = 20 /\ DIGEST_SIZE_SHA256 = 32 /\ DIGEST_SIZE_SHA512 = 64 /\ DIGEST_SIZE_SHA512_128 = 16.
Proof. vm_compute. repeat split; reflexivity. Qed.

(* ---------------------------------------------------------------- lists *)
Lemma len_firstnN n l : n <= len l -> len (firstnN n l) = n.
Proof. unfold len, firstnN. intros H. rewrite firstn_length. lia. Qed.

Lemma firstnN_all n l : len l <= n -> firstnN n l = l.
Proof. unfold len, firstnN. intros H. apply firstn_all2. lia. Qed.

Lemma firstnN_skipnN n l : firstnN n l ++ skipnN n l = l.
Proof. apply firstn_skipn. Qed.

Lemma len_skipnN n l : len (skipnN n l) = len l - n.
Proof. unfold len, skipnN. rewrite skipn_length. lia. Qed.

Lemma skipnN_all n l : len l <= n -> skipnN n l = [].
Proof. unfold len, skipnN. intros H. apply skipn_all2. lia. Qed.

Lemma firstnN_app_exact a b : firstnN (len a) (a ++ b) = a.
Proof.
  unfold firstnN, len. rewrite Nat2N.id. rewrite firstn_app, Nat.sub_diag, firstn_all.
  cbn [firstn]. apply app_nil_r.
Qed.

Lemma skipnN_app_exact a b : skipnN (len a) (a ++ b) = b.
Proof. unfold skipnN, len. rewrite Nat2N.id. rewrite skipn_app, Nat.sub_diag, skipn_all. reflexivity. Qed.

Lemma firstnN_app_l n a b : n <= len a -> firstnN n (a ++ b) = firstnN n a.
Proof.
  unfold firstnN, len. intros H. rewrite firstn_app.
  replace (N.to_nat n - length a)%nat with 0%nat by lia. cbn [firstn]. apply app_nil_r.
Qed.

Lemma firstnN_app_r n a b : len a <= n -> firstnN n (a ++ b) = a ++ firstnN (n - len a) b.
Proof.
  unfold firstnN, len. intros H. rewrite firstn_app. rewrite firstn_all2 by lia.
  f_equal. f_equal. lia.
Qed.

Lemma skipnN_app_r n a b : len a <= n -> skipnN n (a ++ b) = skipnN (n - len a) b.
Proof.
  unfold skipnN, len. intros H. rewrite skipn_app. rewrite skipn_all2 by lia.
  cbn [app]. f_equal. lia.
Qed.

Lemma skipnN_skipnN a b l : skipnN a (skipnN b l) = skipnN (b + a) l.
Proof.
  unfold skipnN. revert l. replace (N.to_nat (b + a)) with (N.to_nat b + N.to_nat a)%nat by lia.
  induction (N.to_nat b) as [|k IH]; intros l; [reflexivity|].
  destruct l; cbn [skipn Nat.add]; [ destruct (N.to_nat a); reflexivity | apply IH ].
Qed.

Lemma firstnN_split a k l : a <= k -> a <= len l -> firstnN k l = firstnN a l ++ firstnN (k - a) (skipnN a l).
Proof.
  unfold firstnN, skipnN, len. intros H1 H2.
  rewrite <- (firstn_skipn (N.to_nat a) l) at 1. rewrite firstn_app.
  rewrite firstn_length. rewrite (firstn_all2 (n:=N.to_nat k)) by (rewrite firstn_length; lia).
  f_equal. f_equal. lia.
Qed.

Lemma len_repeat (x : N) n : len (repeat x n) = N.of_nat n.
Proof. unfold len. rewrite repeat_length. reflexivity. Qed.

Lemma len_be_bytes n v : len (be_bytes n v) = N.of_nat n.
Proof. unfold len. f_equal. induction n; cbn [be_bytes length]; congruence. Qed.

Lemma firstnN_0 l : firstnN 0 l = [].
Proof. reflexivity. Qed.

Lemma len_0_nil (l : bytes) : len l = 0 -> l = [].
Proof. destruct l; [reflexivity | rewrite len_cons; lia]. Qed.

(* ---------------------------------------------------------------- the clean functional form *)
Section Feed.
  Variable St : Type.
  Variable compress : St -> bytes -> St.
  Variable Bn : nat.
  Hypothesis Bpos : (0 < Bn)%nat.

  (** byte-at-a-time absorption: [buf] is the pending partial block *)
  Fixpoint feed (h : St) (buf l : bytes) : St * bytes :=
    match l with
    | [] => (h, buf)
    | x :: t => if Nat.eqb (S (length buf)) Bn then feed (compress h (buf ++ [x])) [] t
                else feed h (buf ++ [x]) t
    end.

  (** streaming = one-shot *)
  Lemma feed_app h buf l1 l2 :
    feed h buf (l1 ++ l2) = feed (fst (feed h buf l1)) (snd (feed h buf l1)) l2.
  Proof.
    revert h buf. induction l1 as [|x t IH]; intros h buf; cbn [app feed fst snd]; [reflexivity|].
    destruct (Nat.eqb (S (length buf)) Bn); apply IH.
  Qed.

  Lemma feed_small h buf l : (length buf + length l < Bn)%nat -> feed h buf l = (h, buf ++ l).
  Proof.
    revert buf. induction l as [|x t IH]; intros buf H; cbn [feed].
    - rewrite app_nil_r. reflexivity.
    - cbn [length] in H. destruct (Nat.eqb_spec (S (length buf)) Bn) as [E|E]; [lia|].
      rewrite IH by (rewrite app_length; cbn [length]; lia).
      rewrite <- app_assoc. reflexivity.
  Qed.

  Lemma feed_fill h buf a :
    (length buf + length a = Bn)%nat -> a <> [] -> feed h buf a = (compress h (buf ++ a), []).
  Proof.
    revert buf. induction a as [|x t IH]; intros buf H Hne; [congruence|].
    cbn [feed]. cbn [length] in H. destruct t as [|y t'].
    - cbn [length] in H. destruct (Nat.eqb_spec (S (length buf)) Bn) as [E|E]; [reflexivity | lia].
    - destruct (Nat.eqb_spec (S (length buf)) Bn) as [E|E]; [cbn [length] in H; lia|].
      rewrite IH; [ rewrite <- app_assoc; reflexivity | rewrite app_length; cbn [length] in *; lia | discriminate ].
  Qed.

  Lemma feed_block h a l : length a = Bn -> feed h [] (a ++ l) = feed (compress h a) [] l.
  Proof.
    intros H. rewrite feed_app. rewrite (feed_fill h [] a); [reflexivity | cbn [length]; lia | ].
    intros ->. cbn [length] in H. lia.
  Qed.

  Lemma feed_prefix h buf l : (length buf < Bn)%nat -> feed h [] (buf ++ l) = feed h buf l.
  Proof. intros H. rewrite feed_app. rewrite (feed_small h [] buf) by (cbn [length]; lia). reflexivity. Qed.

  (** the pending bytes are the total length modulo the block size *)
  Lemma feed_len h buf l :
    (length buf < Bn)%nat ->
    (length (snd (feed h buf l)) < Bn)%nat /\
    exists q, (length buf + length l = q * Bn + length (snd (feed h buf l)))%nat.
  Proof.
    revert h buf. induction l as [|x t IH]; intros h buf H; cbn [feed snd length].
    - split; [exact H | exists 0%nat; lia].
    - destruct (Nat.eqb_spec (S (length buf)) Bn) as [E|E].
      + destruct (IH (compress h (buf ++ [x])) [] Bpos) as [A [q Hq]]. split; [exact A|].
        exists (S q). cbn [length] in Hq. lia.
      + assert (L : (length (buf ++ [x]) < Bn)%nat) by (rewrite app_length; cbn [length]; lia).
        destruct (IH h (buf ++ [x]) L) as [A [q Hq]]. split; [exact A|].
        exists q. rewrite app_length in Hq. cbn [length] in Hq. lia.
  Qed.

  (** FIPS "parse into blocks and fold" is [feed] on a whole number of blocks *)
  Lemma chunks_feed k : forall f h l,
    length l = (k * Bn)%nat -> (length l <= f)%nat ->
    fold_left compress (chunks_fuel f Bn l) h = fst (feed h [] l) /\ snd (feed h [] l) = [].
  Proof.
    induction k as [|k IH]; intros f h l Hl Hf.
    - destruct l; [|cbn [length] in Hl; lia]. destruct f; cbn; split; reflexivity.
    - assert (Hge : (Bn <= length l)%nat) by lia.
      destruct f as [|f]; [lia|]. destruct l as [|x t] eqn:El; [cbn [length] in Hge; lia|]. rewrite <- El in *.
      assert (Hc : chunks_fuel (S f) Bn l = firstn Bn l :: chunks_fuel f Bn (skipn Bn l))
        by (rewrite El; reflexivity).
      rewrite Hc. cbn [fold_left].
      rewrite <- (firstn_skipn Bn l) at 3 4.
      rewrite feed_block by (rewrite firstn_length; lia).
      apply IH; rewrite skipn_length; lia.
  Qed.

  Lemma chunks_feed' h l k :
    length l = (k * Bn)%nat -> fold_left compress (chunks Bn l) h = fst (feed h [] l).
  Proof. intros H. unfold chunks. apply (chunks_feed k); [exact H | lia]. Qed.
End Feed.

(* ---------------------------------------------------------------- bytes of the length field *)
Lemma firstn_repeat (x : N) a k : firstn a (repeat x k) = repeat x (Nat.min a k).
Proof. revert k. induction a as [|a IH]; intros [|k]; cbn [firstn repeat Nat.min]; try reflexivity. f_equal. apply IH. Qed.
Lemma skipn_repeat (x : N) a k : skipn a (repeat x k) = repeat x (k - a).
Proof. revert k. induction a as [|a IH]; intros [|k]; cbn [skipn repeat Nat.sub]; try reflexivity. apply IH. Qed.

Lemma be_bytes8_explicit v :
  be_bytes 8 v = [N.shiftr v 56 mod 256; N.shiftr v 48 mod 256; N.shiftr v 40 mod 256; N.shiftr v 32 mod 256;
                  N.shiftr v 24 mod 256; N.shiftr v 16 mod 256; N.shiftr v 8 mod 256; N.shiftr v 0 mod 256].
Proof. reflexivity. Qed.

Lemma be_bytes8_mod v : be_bytes 8 (v mod 2 ^ 64) = be_bytes 8 v.
Proof.
  rewrite !be_bytes8_explicit. rewrite !N.shiftr_div_pow2.
  change (2 ^ 64) with 18446744073709551616. change (2 ^ 56) with 72057594037927936.
  change (2 ^ 48) with 281474976710656. change (2 ^ 40) with 1099511627776. change (2 ^ 32) with 4294967296.
  change (2 ^ 24) with 16777216. change (2 ^ 16) with 65536. change (2 ^ 8) with 256. change (2 ^ 0) with 1.
  repeat (apply (f_equal2 (@cons N)); [lia|]). reflexivity.
Qed.

Lemma be_bytes_split a b v : be_bytes (a + b) v = firstn a (be_bytes (a + b) v) ++ be_bytes b v.
Proof.
  induction a as [|a IH]; cbn [Nat.add be_bytes firstn app]; [reflexivity|]. f_equal. exact IH.
Qed.

Lemma be_bytes16_small v : v < 2 ^ 64 -> be_bytes 16 v = repeat 0 8 ++ be_bytes 8 v.
Proof.
  intros H. change 16%nat with (8 + 8)%nat. rewrite (be_bytes_split 8 8 v). f_equal.
  cbn [Nat.add be_bytes firstn].
  assert (Z : forall k, 64 <= k -> N.shiftr v k mod 256 = 0).
  { intros k Hk. rewrite N.shiftr_div_pow2. rewrite N.div_small; [reflexivity|].
    apply N.lt_le_trans with (2 ^ 64); [exact H|]. apply N.pow_le_mono_r; lia. }
  cbn [repeat]. repeat (apply (f_equal2 (@cons N)); [apply Z; cbn; lia|]). reflexivity.
Qed.

(* ---------------------------------------------------------------- sha2.c *)
Lemma u32_small x : x < two32 -> u32 x = x.
Proof. intros H. unfold u32. apply N.mod_small. exact H. Qed.

Section Sha2Proofs.
  Variable St : Type.
  Variable compress : St -> bytes -> St.
  Variables B RES LF : N.
  Hypothesis HB : (B = 64 /\ RES = 9 /\ LF = 8) \/ (B = 128 /\ RES = 17 /\ LF = 16).

  Notation feedB := (feed St compress (N.to_nat B)).

  Definition wf2 (c : sha2_ctx St) : Prop := c_len c = len (c_block c) /\ c_len c < B.

  Lemma Bn_pos : (0 < N.to_nat B)%nat.
  Proof. destruct HB as [[-> _]|[-> _]]; lia. Qed.

  Lemma transf_feed n : forall h m k,
    N.of_nat n * B <= k -> k <= len m ->
    feedB h [] (firstnN k m) =
    feedB (transf St compress B n h m) [] (firstnN (k - N.of_nat n * B) (skipnN (N.of_nat n * B) m)).
  Proof.
    induction n as [|n IH]; intros h m k H Hk.
    - cbn [transf]. change (N.of_nat 0 * B) with 0. rewrite N.sub_0_r. reflexivity.
    - cbn [transf].
      assert (HBk : B <= k) by (destruct HB as [[-> _]|[-> _]]; lia).
      rewrite (firstnN_split B k m) by lia.
      rewrite feed_block; [| exact Bn_pos | ].
      2:{ pose proof (len_firstnN B m ltac:(lia)) as E. unfold len in E. lia. }
      rewrite IH; [ | destruct HB as [[-> _]|[-> _]]; lia | rewrite len_skipnN; lia ].
      rewrite skipnN_skipnN. f_equal.
      replace (B + N.of_nat n * B) with (N.of_nat (S n) * B) by (destruct HB as [[-> _]|[-> _]]; lia).
      f_equal. destruct HB as [[-> _]|[-> _]]; lia.
  Qed.

  (** one sha256_update / sha512_update call absorbs exactly the first [ulen] bytes it is given *)
  Lemma sha2_update_ok c m ulen :
    wf2 c -> ulen <= len m -> ulen <= 2147483648 ->
    let c' := sha2_update St compress B c m ulen in
    wf2 c' /\ feedB (c_h c) (c_block c) (firstnN ulen m) = (c_h c', c_block c') /\
    u64 (c_tot c' + c_len c') = u64 (c_tot c + c_len c + ulen).
  Proof.
    intros [Hl Hlt] Hum Hm. unfold sha2_update.
    assert (Htmp : u32 (B + two32 - c_len c) = B - c_len c).
    { unfold u32, two32. destruct HB as [[-> _]|[-> _]]; lia. }
    rewrite Htmp.
    assert (Hsum : u32 (c_len c + ulen) = c_len c + ulen).
    { apply u32_small. unfold two32. destruct HB as [[-> _]|[-> _]]; lia. }
    rewrite Hsum.
    assert (Hfb : firstnN (c_len c) (c_block c) = c_block c) by (apply firstnN_all; lia).
    rewrite Hfb.
    destruct (N.ltb_spec (c_len c + ulen) B) as [Hs|Hs].
    - (* everything stays in the block buffer *)
      assert (Hr : (ulen <? B - c_len c) = true) by (apply N.ltb_lt; lia).
      rewrite Hr.
      pose proof (len_firstnN ulen m Hum) as Hlf.
      cbv zeta. unfold wf2. cbn [c_h c_tot c_len c_block]. split; [|split].
      + split; [rewrite len_app; lia | lia].
      + apply feed_small; [exact Bn_pos|]. unfold len in *. lia.
      + f_equal. lia.
    - assert (Hr : (ulen <? B - c_len c) = false) by (apply N.ltb_ge; lia).
      rewrite Hr. cbv zeta. unfold wf2. cbn [c_h c_tot c_len c_block].
      set (rem := B - c_len c).
      assert (Hnew : u32 (ulen + two32 - rem) = ulen - rem).
      { unfold u32, two32, rem. destruct HB as [[-> _]|[-> _]]; lia. }
      rewrite Hnew.
      set (new_len := ulen - rem).
      set (nb := new_len / B).
      assert (Hnb : u32 (nb * B) = nb * B).
      { apply u32_small. unfold two32, nb, new_len, rem. destruct HB as [[-> _]|[-> _]]; lia. }
      assert (Hnb1 : u32 ((nb + 1) * B) = (nb + 1) * B).
      { apply u32_small. unfold two32, nb, new_len, rem. destruct HB as [[-> _]|[-> _]]; lia. }
      rewrite Hnb, Hnb1.
      assert (Hlsh : len (skipnN rem m) = len m - rem) by (apply len_skipnN).
      assert (Hlfi : len (firstnN rem m) = rem) by (apply len_firstnN; unfold rem; lia).
      assert (Hblk1 : firstnN B (c_block c ++ firstnN rem m) = c_block c ++ firstnN rem m).
      { apply firstnN_all. rewrite len_app, Hlfi. unfold rem. lia. }
      cbn [transf]. rewrite Hblk1.
      assert (Hnbk : N.of_nat (N.to_nat nb) * B <= new_len).
      { rewrite N2Nat.id. unfold nb. destruct HB as [[-> _]|[-> _]]; lia. }
      assert (Hr2 : new_len - nb * B = new_len mod B).
      { unfold nb. destruct HB as [[-> _]|[-> _]]; lia. }
      assert (Hrem2 : len (firstnN (new_len mod B) (skipnN (nb * B) (skipnN rem m))) = new_len mod B).
      { apply len_firstnN. rewrite len_skipnN, Hlsh. unfold new_len in *. lia. }
      split; [|split].
      + split; [ symmetry; exact Hrem2 | destruct HB as [[-> _]|[-> _]]; lia ].
      + rewrite (firstnN_split rem ulen m) by (unfold rem; lia).
        fold new_len. rewrite feed_app.
        rewrite (feed_fill St compress (N.to_nat B) Bn_pos (c_h c) (c_block c) (firstnN rem m)).
        * cbn [fst snd].
          rewrite (transf_feed (N.to_nat nb)); [ | exact Hnbk | rewrite Hlsh; unfold new_len; lia ].
          rewrite N2Nat.id, Hr2.
          rewrite feed_small; [reflexivity | exact Bn_pos |].
          cbn [length]. unfold len in Hrem2. destruct HB as [[-> _]|[-> _]]; lia.
        * unfold len, rem in *. lia.
        * intros E. rewrite E in Hlfi. rewrite len_nil in Hlfi. unfold rem in Hlfi. lia.
      + unfold u64, two64. unfold nb, new_len, rem. destruct HB as [[-> _]|[-> _]]; lia.
  Qed.

  (** [c] is the context reached after absorbing [msg] from the initial value [h0] *)
  Definition R2 (h0 : St) (c : sha2_ctx St) (msg : bytes) : Prop :=
    wf2 c /\ feedB h0 [] msg = (c_h c, c_block c) /\ u64 (c_tot c + c_len c) = u64 (len msg).

  Lemma R2_init h0 : R2 h0 (sha2_init St h0) [].
  Proof.
    unfold R2, wf2, sha2_init. cbn [c_h c_tot c_len c_block feed]. repeat split.
    destruct HB as [[-> _]|[-> _]]; lia.
  Qed.

  Lemma R2_update h0 c msg m ulen :
    R2 h0 c msg -> ulen <= len m -> ulen <= 2147483648 ->
    R2 h0 (sha2_update St compress B c m ulen) (msg ++ firstnN ulen m).
  Proof.
    intros [W [F T]] Hu Hm.
    destruct (sha2_update_ok c m ulen W Hu Hm) as [W' [F' T']].
    split; [exact W' | split].
    - rewrite feed_app, F. cbn [fst snd]. exact F'.
    - rewrite T'. rewrite len_app, (len_firstnN ulen m Hu).
      unfold u64 in *. change two64 with 18446744073709551616 in *. lia.
  Qed.

  (** the spec padding with the block size / length-field size of this instance *)
  Definition pad_gen (msg : bytes) : bytes :=
    msg ++ [128] ++ repeat 0 (N.to_nat (pad_zeros B LF (len msg))) ++ be_bytes (N.to_nat LF) (8 * len msg).

  Lemma final_block (blk lb : bytes) (clen pm : N) :
    len blk = clen -> clen + 9 <= pm -> len lb = 8 ->
    poke (pm - 8) lb (poke clen [128] (firstnN clen blk ++ repeat 0 (N.to_nat (pm - clen))))
    = blk ++ [128] ++ repeat 0 (N.to_nat (pm - clen - 9)) ++ lb.
  Proof.
    intros Hc Hpm Hlb. subst clen. rewrite (firstnN_all (len blk) blk) by lia.
    assert (E1 : poke (len blk) [128] (blk ++ repeat 0 (N.to_nat (pm - len blk)))
                 = blk ++ [128] ++ repeat 0 (N.to_nat (pm - len blk - 1))).
    { unfold poke. rewrite firstnN_app_exact. f_equal. f_equal.
      change (len [128]) with 1.
      rewrite skipnN_app_r by lia. unfold skipnN. rewrite skipn_repeat. f_equal. lia. }
    rewrite E1. unfold poke.
    rewrite skipnN_all.
    2:{ rewrite !len_app, len_repeat. change (len [128]) with 1. lia. }
    rewrite app_nil_r.
    rewrite firstnN_app_r by lia. rewrite <- app_assoc. f_equal.
    change (len [128]) with 1.
    rewrite firstnN_app_r by (change (len [128]) with 1; lia).
    rewrite <- app_assoc. f_equal. f_equal.
    unfold firstnN. rewrite firstn_repeat. f_equal. change (len [128]) with 1. lia.
  Qed.

  Lemma sha2_final_ok c msg h0 :
    R2 h0 c msg ->
    (LF = 16 -> len msg < 2 ^ 61) ->
    sha2_final St compress B RES c = fst (feedB h0 [] (pad_gen msg)).
  Proof.
    intros [[Hl Hlt] [Hfeed Htot]] Hguard.
    destruct (feed_len St compress (N.to_nat B) Bn_pos h0 [] msg Bn_pos) as [_ [q Hq]].
    rewrite Hfeed in Hq. cbn [snd length] in Hq.
    unfold sha2_final.
    set (nbk := 1 + (if B - RES <? c_len c mod B then 1 else 0)).
    assert (Hnbk : nbk = 1 \/ nbk = 2) by (unfold nbk; destruct (B - RES <? c_len c mod B); lia).
    assert (Hpm : u32 (nbk * B) = nbk * B).
    { apply u32_small. unfold two32. destruct HB as [[-> _]|[-> _]]; lia. }
    rewrite Hpm.
    assert (Hroom : c_len c + 9 <= nbk * B).
    { unfold nbk. destruct (N.ltb_spec (B - RES) (c_len c mod B));
        destruct HB as [[-> [-> _]]|[-> [-> _]]]; lia. }
    assert (Hms : u32 (nbk * B + two32 - c_len c) = nbk * B - c_len c).
    { unfold u32, two32. destruct HB as [[-> _]|[-> _]]; lia. }
    rewrite Hms.
    rewrite final_block; [ | lia | exact Hroom | apply len_be_bytes ].
    set (tail := [128] ++ repeat 0 (N.to_nat (nbk * B - c_len c - 9)) ++
                 be_bytes 8 (u64 ((c_tot c + c_len c) * 8))).
    (* the last transf consumes exactly the assembled blocks *)
    assert (Hlen : len (c_block c ++ tail) = N.of_nat (N.to_nat nbk) * B).
    { unfold tail. rewrite !len_app, len_repeat, len_be_bytes. change (len [128]) with 1.
      destruct HB as [[-> _]|[-> _]]; lia. }
    pose proof (transf_feed (N.to_nat nbk) (c_h c) (c_block c ++ tail) (len (c_block c ++ tail))
                            ltac:(lia) ltac:(lia)) as T.
    rewrite (firstnN_all (len (c_block c ++ tail))) in T by lia.
    rewrite (skipnN_all (N.of_nat (N.to_nat nbk) * B)) in T by lia.
    unfold firstnN in T at 1. rewrite firstn_nil in T. cbn [feed] in T.
    assert (T' : transf St compress B (N.to_nat nbk) (c_h c) (c_block c ++ tail)
                 = fst (feedB (c_h c) [] (c_block c ++ tail))) by (rewrite T; reflexivity).
    rewrite T'. rewrite feed_prefix; [ | exact Bn_pos | unfold len in *; lia ].
    (* the spec side *)
    unfold pad_gen. rewrite feed_app. rewrite Hfeed. cbn [fst snd].
    f_equal. f_equal. unfold tail. f_equal.
    assert (Hlb : be_bytes 8 (u64 ((c_tot c + c_len c) * 8)) = be_bytes 8 (8 * len msg)).
    { unfold u64 in *. change two64 with (2 ^ 64) in *.
      rewrite <- (be_bytes8_mod (8 * len msg)). f_equal.
      change (2 ^ 64) with 18446744073709551616 in *. lia. }
    rewrite Hlb.
    destruct HB as [[-> [-> ->]]|[-> [-> ->]]].
    - (* SHA-256: 64-byte blocks, 8-byte length *)
      change (N.to_nat 8) with 8%nat. f_equal. f_equal.
      unfold pad_zeros, nbk. unfold len in *.
      destruct (N.ltb_spec (64 - 9) (c_len c mod 64)); lia.
    - (* SHA-512: 128-byte blocks, 16-byte length of which the code writes the low 8 *)
      change (N.to_nat 16) with 16%nat.
      rewrite be_bytes16_small.
      2:{ specialize (Hguard eq_refl). change (2 ^ 61) with 2305843009213693952 in Hguard.
          change (2 ^ 64) with 18446744073709551616. lia. }
      rewrite app_assoc. f_equal. rewrite <- repeat_app. f_equal.
      unfold pad_zeros, nbk. unfold len in *.
      destruct (N.ltb_spec (128 - 17) (c_len c mod 128)); lia.
  Qed.
End Sha2Proofs.

(* ---------------------------------------------------------------- sha1.c *)
Lemma land_504 y : N.land (8 * y) 504 = 8 * (y mod 64).
Proof.
  replace (8 * y) with (N.shiftl y 3) by (rewrite N.shiftl_mul_pow2; change (2 ^ 3) with 8; lia).
  change 504 with (N.shiftl 63 3). rewrite <- N.shiftl_land.
  change 63 with (N.ones 6). rewrite N.land_ones. rewrite N.shiftl_mul_pow2.
  change (2 ^ 3) with 8. change (2 ^ 6) with 64. lia.
Qed.

Lemma be_bytes4_explicit v :
  be_bytes 4 v = [N.shiftr v 24 mod 256; N.shiftr v 16 mod 256; N.shiftr v 8 mod 256; N.shiftr v 0 mod 256].
Proof. reflexivity. Qed.

Lemma be_bytes_44 c0 c1 :
  c0 < two32 -> c1 < two32 -> be_bytes 8 (c0 + two32 * c1) = be_bytes 4 c1 ++ be_bytes 4 c0.
Proof.
  intros H0 H1. rewrite be_bytes8_explicit, !be_bytes4_explicit. rewrite !N.shiftr_div_pow2.
  unfold two32 in *.
  change (2 ^ 56) with 72057594037927936.
  change (2 ^ 48) with 281474976710656. change (2 ^ 40) with 1099511627776. change (2 ^ 32) with 4294967296.
  change (2 ^ 24) with 16777216. change (2 ^ 16) with 65536. change (2 ^ 8) with 256. change (2 ^ 0) with 1.
  cbn [app].
  repeat (apply (f_equal2 (@cons N)); [lia|]). reflexivity.
Qed.

Lemma count_add c0 c1 T L :
  c0 + 4294967296 * c1 = (8 * T) mod 18446744073709551616 -> c0 < 4294967296 -> c1 < 4294967296 ->
  L <= 2147483648 ->
  let l3 := (L * 8) mod 4294967296 in
  let c0' := (c0 + l3) mod 4294967296 in
  let c1a := if c0' <? l3 then (c1 + 1) mod 4294967296 else c1 in
  let c1' := (c1a + L / 536870912) mod 4294967296 in
  c0' + 4294967296 * c1' = (8 * (T + L)) mod 18446744073709551616 /\ c0' < 4294967296 /\ c1' < 4294967296.
Proof.
  intros Hc H0 H1 HL l3 c0' c1a c1'.
  assert (A1 : l3 + 4294967296 * (L / 536870912) = 8 * L) by (unfold l3; lia).
  assert (Hl3 : l3 < 4294967296) by (unfold l3; lia).
  assert (A2 : exists carry, c0 + l3 = c0' + 4294967296 * carry /\ carry <= 1 /\ c1a = (c1 + carry) mod 4294967296).
  { unfold c1a. destruct (N.ltb_spec c0' l3) as [C|C].
    - exists 1. unfold c0' in *. lia.
    - exists 0. unfold c0' in *. split; [|split]; [lia|lia|]. rewrite N.add_0_r. symmetry. apply N.mod_small. exact H1. }
  destruct A2 as [carry [A2 [A3 A4]]].
  assert (A5 : c0' < 4294967296) by (unfold c0'; lia).
  assert (A6 : c1' = (c1 + carry + L / 536870912) mod 4294967296).
  { unfold c1'. rewrite A4. generalize (L / 536870912). intros z. lia. }
  split; [|split]; [ | exact A5 | unfold c1'; lia ].
  rewrite A6. generalize dependent (L / 536870912). intros z _ A1 _.
  clearbody c0' l3. clear c1a A4.
  assert (E : 8 * (T + L) = 8 * T + (l3 + 4294967296 * z)) by lia.
  rewrite E. clear E A1. lia.
Qed.

Section Sha1Proofs.
  Variable St : Type.
  Variable compress : St -> bytes -> St.
  Variable h0 : St.
  Notation feed64 := (feed St compress 64).

  Lemma pos64 : (0 < 64)%nat. Proof. lia. Qed.

  (** the context after absorbing a message of [T] bytes: 64-bit bit count in two words,
      [T mod 64] pending bytes *)
  Definition wf1 (c : sha1_ctx St) (T : N) : Prop :=
    s_count0 c + two32 * s_count1 c = (8 * T) mod 2 ^ 64 /\
    s_count0 c < two32 /\ s_count1 c < two32 /\ len (s_buffer c) = T mod 64.

  Lemma wf1_j c T : wf1 c T -> N.land (N.shiftr (s_count0 c) 3) 63 = T mod 64.
  Proof.
    intros [Hc [H0 [H1 _]]]. rewrite N.shiftr_div_pow2. change 63 with (N.ones 6).
    rewrite N.land_ones. change (2 ^ 3) with 8. change (2 ^ 6) with 64.
    unfold two32 in *. change (2 ^ 64) with 18446744073709551616 in Hc. lia.
  Qed.

  Lemma wf1_padtest c T :
    wf1 c T -> (N.land (s_count0 c) SHA1_PAD_MASK =? SHA1_PAD_TARGET) = (T mod 64 =? 56).
  Proof.
    intros [Hc [H0 [H1 _]]].
    change SHA1_PAD_MASK with 504. change SHA1_PAD_TARGET with 448.
    unfold two32 in *. change (2 ^ 64) with 18446744073709551616 in Hc.
    assert (E : s_count0 c = 8 * (s_count0 c / 8)) by lia.
    rewrite E, land_504.
    destruct (N.eqb_spec (8 * (s_count0 c / 8 mod 64)) 448), (N.eqb_spec (T mod 64) 56); try reflexivity; lia.
  Qed.

  Lemma sha1_loop_ok fuel : forall st i rest ulen,
    ulen - i <= len rest -> i <= ulen -> ulen <= 2147483648 -> (length rest <= fuel)%nat ->
    feed64 st [] (firstnN (ulen - i) rest) =
      (fst (fst (sha1_loop St compress fuel st i rest ulen)),
       firstnN (ulen - snd (fst (sha1_loop St compress fuel st i rest ulen)))
               (snd (sha1_loop St compress fuel st i rest ulen))).
  Proof.
    induction fuel as [|f IH]; intros st i rest ulen Hl Hi Hu Hf; cbn [sha1_loop].
    - destruct rest; [|cbn [length] in Hf; lia]. cbn [fst snd]. unfold firstnN. rewrite !firstn_nil. reflexivity.
    - assert (E63 : u32 (i + 63) = i + 63) by (apply u32_small; unfold two32; lia).
      assert (E64 : u32 (i + 64) = i + 64) by (apply u32_small; unfold two32; lia).
      rewrite E63, E64.
      destruct (N.ltb_spec (i + 63) ulen) as [Hlt|Hge].
      + rewrite (firstnN_split 64 (ulen - i) rest) by lia.
        rewrite feed_block; [ | exact pos64 | ].
        2:{ pose proof (len_firstnN 64 rest ltac:(lia)) as E. unfold len in E. lia. }
        replace (ulen - i - 64) with (ulen - (i + 64)) by lia.
        apply IH; [ rewrite len_skipnN; lia | lia | lia | ].
        unfold skipnN. rewrite skipn_length. unfold len in Hl. lia.
      + cbn [fst snd]. pose proof (len_firstnN (ulen - i) rest Hl) as E.
        rewrite feed_small; [ reflexivity | exact pos64 | cbn [length]; unfold len in E; lia ].
  Qed.

  (** one SHA1_Update call absorbs exactly the first [ulen] bytes it is given *)
  Lemma sha1_update_feed c m ulen T :
    wf1 c T -> ulen <= len m -> ulen <= 2147483648 ->
    feed64 (s_state c) (s_buffer c) (firstnN ulen m) =
      (s_state (sha1_update St compress c m ulen), s_buffer (sha1_update St compress c m ulen)).
  Proof.
    intros W Hum Hm. pose proof (wf1_j c T W) as Hj. destruct W as [Hc [H0 [H1 Hb]]].
    unfold sha1_update. rewrite Hj.
    assert (Hfb : firstnN (T mod 64) (s_buffer c) = s_buffer c) by (apply firstnN_all; lia).
    rewrite Hfb.
    assert (Hsum : u32 (T mod 64 + ulen) = T mod 64 + ulen) by (apply u32_small; unfold two32; lia).
    rewrite Hsum.
    destruct (N.ltb_spec 63 (T mod 64 + ulen)) as [Hbig|Hsmall].
    - set (i0 := 64 - T mod 64).
      assert (Hlfi : len (firstnN i0 m) = i0) by (apply len_firstnN; unfold i0; lia).
      assert (Hb1 : firstnN 64 (s_buffer c ++ firstnN i0 m) = s_buffer c ++ firstnN i0 m).
      { apply firstnN_all. rewrite len_app, Hlfi. unfold i0. lia. }
      rewrite Hb1.
      pose proof (sha1_loop_ok (length m) (compress (s_state c) (s_buffer c ++ firstnN i0 m)) i0
                               (skipnN i0 m) ulen) as L.
      destruct (sha1_loop St compress (length m) (compress (s_state c) (s_buffer c ++ firstnN i0 m)) i0
                          (skipnN i0 m) ulen) as [[st2 i2] rest2].
      cbn [fst snd] in L. cbn [s_state s_buffer].
      rewrite (firstnN_split i0 ulen m) by (unfold i0; lia). rewrite feed_app.
      rewrite (feed_fill St compress 64 pos64 (s_state c) (s_buffer c) (firstnN i0 m)).
      + cbn [fst snd]. apply L; [ rewrite len_skipnN; lia | unfold i0; lia | lia | ].
        unfold skipnN. rewrite skipn_length. lia.
      + unfold len, i0 in *. lia.
      + intros E. rewrite E in Hlfi. rewrite len_nil in Hlfi. unfold i0 in Hlfi. lia.
    - cbn [s_state s_buffer]. pose proof (len_firstnN ulen m Hum) as E.
      apply feed_small; [exact pos64|]. unfold len in *. lia.
  Qed.

  Lemma sha1_update_count c m ulen T :
    wf1 c T -> ulen <= 2147483648 ->
    let c' := sha1_update St compress c m ulen in
    s_count0 c' + two32 * s_count1 c' = (8 * (T + ulen)) mod 2 ^ 64 /\
    s_count0 c' < two32 /\ s_count1 c' < two32.
  Proof.
    intros [Hc [H0 [H1 _]]] Hm. unfold sha1_update.
    set (l3 := u32 (N.shiftl ulen 3)).
    set (c0 := u32 (s_count0 c + l3)).
    set (c1 := if c0 <? l3 then u32 (s_count1 c + 1) else s_count1 c).
    set (c1' := u32 (c1 + N.shiftr ulen 29)).
    assert (G : c0 + two32 * c1' = (8 * (T + ulen)) mod 2 ^ 64 /\ c0 < two32 /\ c1' < two32).
    { unfold c1', c1, c0, l3. rewrite N.shiftl_mul_pow2, N.shiftr_div_pow2.
      change (2 ^ 3) with 8. change (2 ^ 29) with 536870912.
      change (2 ^ 64) with 18446744073709551616 in *. unfold u32, two32 in *.
      exact (count_add (s_count0 c) (s_count1 c) T ulen Hc H0 H1 Hm). }
    destruct (63 <? u32 (N.land (N.shiftr (s_count0 c) 3) 63 + ulen)).
    - destruct (sha1_loop St compress _ _ _ _ _) as [[st2 i2] rest2]. cbn [s_count0 s_count1]. exact G.
    - cbn [s_count0 s_count1]. exact G.
  Qed.

  (** [c] is the context reached after absorbing [msg] *)
  Definition R1 (c : sha1_ctx St) (msg : bytes) : Prop :=
    wf1 c (len msg) /\ feed64 h0 [] msg = (s_state c, s_buffer c).

  Lemma R1_init : R1 (sha1_init St h0) [].
  Proof. unfold R1, wf1, sha1_init. cbn. repeat split; reflexivity. Qed.

  Lemma R1_update c msg m ulen :
    R1 c msg -> ulen <= len m -> ulen <= 2147483648 ->
    R1 (sha1_update St compress c m ulen) (msg ++ firstnN ulen m).
  Proof.
    intros [W F] Hu Hm.
    pose proof (sha1_update_feed c m ulen _ W Hu Hm) as U.
    pose proof (sha1_update_count c m ulen _ W Hm) as [C0 [C1 C2]].
    assert (F' : feed64 h0 [] (msg ++ firstnN ulen m) =
                 (s_state (sha1_update St compress c m ulen), s_buffer (sha1_update St compress c m ulen))).
    { rewrite feed_app, F. cbn [fst snd]. exact U. }
    split; [|exact F'].
    unfold wf1. rewrite len_app, (len_firstnN ulen m Hu). repeat split; try assumption.
    destruct (feed_len St compress 64 pos64 h0 [] (msg ++ firstnN ulen m) pos64) as [A [q Hq]].
    rewrite F' in A, Hq. cbn [snd length] in A, Hq. rewrite app_length in Hq.
    pose proof (len_firstnN ulen m Hu) as E. unfold len in *. lia.
  Qed.

  Definition kz (t : N) : N := (120 - t mod 64) mod 64.

  Lemma sha1_pad_loop_ok fuel : forall c msg,
    R1 c msg -> (N.to_nat (kz (len msg)) <= fuel)%nat ->
    R1 (sha1_pad_loop St compress fuel c) (msg ++ repeat 0 (N.to_nat (kz (len msg)))).
  Proof.
    induction fuel as [|f IH]; intros c msg HR Hf.
    - replace (N.to_nat (kz (len msg))) with 0%nat by lia. cbn [repeat sha1_pad_loop].
      rewrite app_nil_r. exact HR.
    - cbn [sha1_pad_loop]. rewrite (wf1_padtest c (len msg) (proj1 HR)).
      destruct (N.eqb_spec (len msg mod 64) 56) as [E|E].
      + replace (N.to_nat (kz (len msg))) with 0%nat by (unfold kz; lia). cbn [repeat].
        rewrite app_nil_r. exact HR.
      + assert (K : N.to_nat (kz (len msg)) = S (N.to_nat (kz (len (msg ++ [0]))))).
        { rewrite len_app. change (len [0]) with 1. unfold kz. lia. }
        rewrite K. cbn [repeat].
        change (0 :: repeat 0 (N.to_nat (kz (len (msg ++ [0])))))
          with ([0] ++ repeat 0 (N.to_nat (kz (len (msg ++ [0]))))).
        rewrite app_assoc. apply IH; [ | lia ].
        change [0] with (firstnN 1 [0]) at 2. apply R1_update; [exact HR | change (len [0]) with 1; lia | lia ].
  Qed.

  Lemma sha1_final_ok c msg :
    R1 c msg -> sha1_final St compress c = fst (feed64 h0 [] (pad64 msg)).
  Proof.
    intros HR. unfold sha1_final.
    set (fc := be_bytes 4 (s_count1 c) ++ be_bytes 4 (s_count0 c)).
    assert (Hfc : fc = be_bytes 8 (8 * len msg)).
    { destruct HR as [[Hc [H0 [H1 _]]] _]. unfold fc. rewrite <- be_bytes_44 by assumption.
      rewrite Hc. apply be_bytes8_mod. }
    assert (R2 : R1 (sha1_update St compress c [128] 1) (msg ++ [128])).
    { change [128] with (firstnN 1 [128]) at 2. apply R1_update; [exact HR | change (len [128]) with 1; lia | lia]. }
    assert (R3 := sha1_pad_loop_ok 64 _ _ R2 ltac:(unfold kz; lia)).
    assert (R4 : R1 (sha1_update St compress (sha1_pad_loop St compress 64 (sha1_update St compress c [128] 1)) fc 8)
                    ((msg ++ [128] ++ repeat 0 (N.to_nat (kz (len (msg ++ [128]))))) ++ fc)).
    { assert (Lfc : len fc = 8) by (rewrite Hfc; apply len_be_bytes).
      rewrite <- (firstnN_all 8 fc) at 2 by lia.
      rewrite app_assoc.
      apply R1_update; [exact R3 | lia | lia]. }
    destruct R4 as [_ F4].
    assert (P : pad64 msg = (msg ++ [128] ++ repeat 0 (N.to_nat (kz (len (msg ++ [128]))))) ++ fc).
    { unfold pad64. rewrite Hfc. rewrite <- !app_assoc. f_equal. f_equal. f_equal. f_equal. f_equal.
      rewrite len_app. change (len [128]) with 1. unfold kz, pad_zeros. lia. }
    rewrite P, F4. reflexivity.
  Qed.

  (** the unbounded C loop "while ((count[0] & 504) != 448)" stops within 64 iterations *)
  Lemma sha1_final_terminates c msg :
    R1 c msg ->
    N.land (s_count0 (sha1_pad_loop St compress 64 (sha1_update St compress c [128] 1))) SHA1_PAD_MASK
      = SHA1_PAD_TARGET.
  Proof.
    intros HR.
    assert (R2 : R1 (sha1_update St compress c [128] 1) (msg ++ [128])).
    { change [128] with (firstnN 1 [128]) at 2. apply R1_update; [exact HR | change (len [128]) with 1; lia | lia]. }
    assert (R3 := sha1_pad_loop_ok 64 _ _ R2 ltac:(unfold kz; lia)).
    apply N.eqb_eq. rewrite (wf1_padtest _ _ (proj1 R3)). apply N.eqb_eq.
    rewrite !len_app, len_repeat. change (len [128]) with 1. unfold kz. lia.
  Qed.
End Sha1Proofs.

