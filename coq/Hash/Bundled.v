(** Model of the bundled checksum backend: the buffering, length bookkeeping and padding of
    src/lib/hash/bundled/sha2/sha2.c (sha256_/sha512_ init, update, final),
    src/lib/hash/bundled/sha1/sha1.c (SHA1_Init, SHA1_Update, SHA1_Final), the dispatch of
    src/lib/hash/bundled/libsha.c and the digest_size handling of src/lib/hash/hash.c.
    C unsigned arithmetic is explicit: [u32] for [unsigned int] / [sha1_quadbyte], [u64] for
    [uint64].  The model is generic in the compression function; the instances use the
    FIPS compression functions of ShaSpec (the C compression functions are compared with
    them block by block in the correspondence run).
    Buffers: the block buffer of a context is the list of its valid bytes (the first
    [len] bytes); message pointers are suffix lists.  Definitions only. *)
From ZV Require Import Base.Bytes Hash.ShaSpec Gen.GenConsts Gen.GenSha.
Local Open Scope N_scope.

Definition two32 : N := 4294967296.
Definition u32 (x : N) : N := x mod two32.

Definition firstnN (n : N) (l : bytes) : bytes := firstn (N.to_nat n) l.
Definition skipnN (n : N) (l : bytes) : bytes := skipn (N.to_nat n) l.

(** memory write of the bytes [v] at offset [off] of the array [l] *)
Definition poke (off : N) (v l : bytes) : bytes := firstnN off l ++ v ++ skipnN (off + len v) l.

(* ====================================================================== sha2.c *)
Section Sha2.
  Variable St : Type.
  Variable compress : St -> bytes -> St.
  Variable B : N.     (* SHA256_BLOCK_SIZE / SHA512_BLOCK_SIZE *)
  Variable RES : N.   (* the 9 / 17 of  block_nb = 1 + ((BLOCK_SIZE - 9) < (len % BLOCK_SIZE)) *)

  (** sha256_ctx / sha512_ctx: [uint64 tot_len; unsigned int len; block[2*B]; h[8]] *)
  Record sha2_ctx := { c_h : St; c_tot : N; c_len : N; c_block : bytes }.

  (** shaNNN_transf(ctx, message, block_nb) *)
  Fixpoint transf (n : nat) (h : St) (m : bytes) : St :=
    match n with
    | O => h
    | S k => transf k (compress h (firstnN B m)) (skipnN B m)
    end.

  Definition sha2_init (h0 : St) : sha2_ctx := {| c_h := h0; c_tot := 0; c_len := 0; c_block := [] |}.

  (** shaNNN_update(ctx, message, len): [ulen] is the value of the [unsigned int len] parameter *)
  Definition sha2_update (c : sha2_ctx) (message : bytes) (ulen : N) : sha2_ctx :=
    let tmp_len := u32 (B + two32 - c_len c) in
    let rem_len := if ulen <? tmp_len then ulen else tmp_len in
    (* memcpy(&ctx->block[ctx->len], message, rem_len) *)
    let block1 := firstnN (c_len c) (c_block c) ++ firstnN rem_len message in
    if u32 (c_len c + ulen) <? B then
      {| c_h := c_h c; c_tot := c_tot c; c_len := u32 (c_len c + ulen); c_block := block1 |}
    else
      let new_len := u32 (ulen + two32 - rem_len) in
      let block_nb := new_len / B in
      let shifted := skipnN rem_len message in
      let h1 := transf 1 (c_h c) block1 in
      let h2 := transf (N.to_nat block_nb) h1 shifted in
      let rem_len2 := new_len mod B in
      (* memcpy(ctx->block, &shifted_message[block_nb << 6], rem_len) *)
      let block2 := firstnN rem_len2 (skipnN (u32 (block_nb * B)) shifted) in
      {| c_h := h2; c_tot := u64 (c_tot c + u32 ((block_nb + 1) * B)); c_len := rem_len2; c_block := block2 |}.

  (** shaNNN_final up to the last transf; the digest is the big-endian dump of the result *)
  Definition sha2_final (c : sha2_ctx) : St :=
    let block_nb := 1 + (if (B - RES) <? (c_len c mod B) then 1 else 0) in
    let len_b := u64 ((c_tot c + c_len c) * 8) in
    let pm_len := u32 (block_nb * B) in
    (* memset(ctx->block + ctx->len, 0, pm_len - ctx->len) *)
    let blk0 := firstnN (c_len c) (c_block c) ++ repeat 0 (N.to_nat (u32 (pm_len + two32 - c_len c))) in
    (* ctx->block[ctx->len] = 0x80 *)
    let blk1 := poke (c_len c) [128] blk0 in
    (* UNPACK64(len_b, ctx->block + pm_len - 8) *)
    let blk2 := poke (pm_len - 8) (be_bytes 8 len_b) blk1 in
    transf (N.to_nat block_nb) (c_h c) blk2.
End Sha2.

Arguments c_h {St}. Arguments c_tot {St}. Arguments c_len {St}. Arguments c_block {St}.

(* ====================================================================== sha1.c *)
Section Sha1.
  Variable St : Type.
  Variable compress : St -> bytes -> St.   (* SHA1_Transform(state, buffer) *)

  (** SHA_CTX: [state[5]; count[2]; buffer[64]] *)
  Record sha1_ctx := { s_state : St; s_count0 : N; s_count1 : N; s_buffer : bytes }.

  Definition sha1_init (h0 : St) : sha1_ctx :=
    {| s_state := h0; s_count0 := 0; s_count1 := 0; s_buffer := [] |}.

  (** for ( ; i + 63 < len; i += 64) SHA1_Transform(state, &data[i]);   [rest] = &data[i] *)
  Fixpoint sha1_loop (fuel : nat) (st : St) (i : N) (rest : bytes) (ulen : N) : St * N * bytes :=
    match fuel with
    | O => (st, i, rest)
    | S f => if u32 (i + 63) <? ulen
             then sha1_loop f (compress st (firstnN 64 rest)) (u32 (i + 64)) (skipnN 64 rest) ulen
             else (st, i, rest)
    end.

  Definition sha1_update (c : sha1_ctx) (data : bytes) (ulen : N) : sha1_ctx :=
    let j := N.land (N.shiftr (s_count0 c) 3) 63 in
    let l3 := u32 (N.shiftl ulen 3) in
    (* if ((context->count[0] += len << 3) < (len << 3)) context->count[1]++; *)
    let c0 := u32 (s_count0 c + l3) in
    let c1 := if c0 <? l3 then u32 (s_count1 c + 1) else s_count1 c in
    (* context->count[1] += (len >> 29); *)
    let c1' := u32 (c1 + N.shiftr ulen 29) in
    if 63 <? u32 (j + ulen) then
      let i0 := 64 - j in
      let buf1 := firstnN j (s_buffer c) ++ firstnN i0 data in
      let st1 := compress (s_state c) (firstnN 64 buf1) in
      let '(st2, i, rest) := sha1_loop (length data) st1 i0 (skipnN i0 data) ulen in
      (* j = 0; memcpy(&context->buffer[0], &data[i], len - i) *)
      {| s_state := st2; s_count0 := c0; s_count1 := c1'; s_buffer := firstnN (ulen - i) rest |}
    else
      (* i = 0; memcpy(&context->buffer[j], &data[0], len) *)
      {| s_state := s_state c; s_count0 := c0; s_count1 := c1';
         s_buffer := firstnN j (s_buffer c) ++ firstnN ulen data |}.

  (** while ((context->count[0] & 504) != 448) SHA1_Update(context, "\0", 1);
      the C loop has no bound; [sha1_final_terminates] (BundledProofs) shows 64 is never reached *)
  Fixpoint sha1_pad_loop (fuel : nat) (c : sha1_ctx) : sha1_ctx :=
    match fuel with
    | O => c
    | S f => if N.land (s_count0 c) SHA1_PAD_MASK =? SHA1_PAD_TARGET then c
             else sha1_pad_loop f (sha1_update c [0] 1)
    end.

  Definition sha1_final (c : sha1_ctx) : St :=
    let finalcount := be_bytes 4 (s_count1 c) ++ be_bytes 4 (s_count0 c) in
    let c1 := sha1_update c [128] 1 in
    let c2 := sha1_pad_loop 64 c1 in
    let c3 := sha1_update c2 finalcount 8 in
    s_state c3.
End Sha1.

Arguments s_state {St}. Arguments s_count0 {St}. Arguments s_count1 {St}. Arguments s_buffer {St}.

(* ====================================================================== libsha.c, hash.c *)
Inductive hash_type := H_SHA1 | H_SHA256 | H_SHA512 | H_SHA512_128.

Definition hstate := list N.

Inductive lib_ctx :=
| L_SHA1 (c : sha1_ctx hstate)
| L_SHA256 (c : sha2_ctx hstate)
| L_SHA512 (c : sha2_ctx hstate).

Definition upd256 := sha2_update hstate sha256_compress SHA256_BLOCK_SIZE.
Definition upd512 := sha2_update hstate sha512_compress SHA512_BLOCK_SIZE.
Definition upd1 := sha1_update hstate sha1_compress.

(** lib_hash_init: ZCK_HASH_SHA512 and ZCK_HASH_SHA512_128 share the SHA-512 context *)
Definition lib_hash_init (t : hash_type) : lib_ctx :=
  match t with
  | H_SHA1 => L_SHA1 (sha1_init hstate gen_sha1_h0)
  | H_SHA256 => L_SHA256 (sha2_init hstate gen_sha256_h0)
  | H_SHA512 | H_SHA512_128 => L_SHA512 (sha2_init hstate gen_sha512_h0)
  end.

(** one call into SHA1_Update / sha256_update / sha512_update: the [size_t] size is converted
    to the [unsigned int] parameter *)
Definition lib_hash_update_part (c : lib_ctx) (message : bytes) (size : N) : lib_ctx :=
  match c with
  | L_SHA1 x => L_SHA1 (upd1 x message (u32 size))
  | L_SHA256 x => L_SHA256 (upd256 x message (u32 size))
  | L_SHA512 x => L_SHA512 (upd512 x message (u32 size))
  end.

(** while(size > LIBSHA_MAX_UPDATE) { part(message, MAX); message += MAX; size -= MAX; }
    part(message, size) *)
Fixpoint lib_update_loop (fuel : nat) (c : lib_ctx) (m : bytes) : lib_ctx :=
  match fuel with
  | O => lib_hash_update_part c m (len m)
  | S f => if LIBSHA_MAX_UPDATE <? len m
           then lib_update_loop f (lib_hash_update_part c m LIBSHA_MAX_UPDATE) (skipnN LIBSHA_MAX_UPDATE m)
           else lib_hash_update_part c m (len m)
  end.

(** [LIBSHA_MAX_UPDATE = 0] is generated for a tree whose lib_hash_update has no such loop *)
Definition lib_hash_update (c : lib_ctx) (m : bytes) : lib_ctx :=
  if LIBSHA_MAX_UPDATE =? 0 then lib_hash_update_part c m (len m)
  else lib_update_loop (length m) c m.

(** hash.c hash_update: (NULL, 0) is accepted and does nothing; the library never passes an
    empty non-NULL buffer (that is an error return, no digest) *)
Definition hash_update (c : lib_ctx) (m : bytes) : lib_ctx :=
  match m with
  | [] => c
  | _ => lib_hash_update c m
  end.

(** lib_hash_final: always the full digest of the underlying algorithm *)
Definition lib_hash_final (c : lib_ctx) : bytes :=
  match c with
  | L_SHA1 x => out32 (sha1_final hstate sha1_compress x)
  | L_SHA256 x => out32 (sha2_final hstate sha256_compress SHA256_BLOCK_SIZE SHA256_FINAL_RESERVE x)
  | L_SHA512 x => out64 (sha2_final hstate sha512_compress SHA512_BLOCK_SIZE SHA512_FINAL_RESERVE x)
  end.

(** hash_setup *)
Definition digest_size (t : hash_type) : N :=
  match t with
  | H_SHA1 => DIGEST_SIZE_SHA1
  | H_SHA256 => DIGEST_SIZE_SHA256
  | H_SHA512 => DIGEST_SIZE_SHA512
  | H_SHA512_128 => DIGEST_SIZE_SHA512_128
  end.

(** what the library uses of a finished hash: the first [digest_size] bytes of the buffer
    returned by hash_finalize (memcmp / memcpy / get_digest_string with digest_size) *)
Definition zck_digest (t : hash_type) (frags : list bytes) : bytes :=
  firstnN (digest_size t) (lib_hash_final (fold_left hash_update frags (lib_hash_init t))).

(** the specification side *)
Definition spec_digest (t : hash_type) (msg : bytes) : bytes :=
  match t with
  | H_SHA1 => sha1 msg
  | H_SHA256 => sha256 msg
  | H_SHA512 => sha512 msg
  | H_SHA512_128 => sha512_128 msg
  end.
