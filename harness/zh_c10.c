/* C10: drive the real zck_get_missing_range / zck_get_range_count / zck_get_range_char /
 * zck_get_range on a target whose index is built directly in memory.
 *
 * case lines
 *   M <hdr> <limit> <n> <len> <valid> ...            table with running-sum starts
 *   T <hdr> <limit> <n> <start> <len> <valid> ...    table with arbitrary starts
 *   C <n> <start> <end> ...                          hand-built zckRange for zck_get_range_char
 *   G <start> <end>                                  zck_get_range
 * result lines
 *   R <count> <items> I <index> S <string>           items "s-e;s-e", index "num:size;..." ("-" = empty)
 *   S <string>                                       ("" printed as "-", NULL as "NULL")
 */
#include "zh_common.h"
#include <zck.h>
#include "zck_private.h"
#define ZH_RESET_ERR(z) do { free((z)->msg); (z)->msg = NULL; (z)->error_state = 0; } while(0)

static char *next_tok(char **p) {
    char *s = *p;
    while(*s == ' ') s++;
    if(!*s) return NULL;
    char *e = s;
    while(*e && *e != ' ') e++;
    if(*e) *e++ = 0;
    *p = e;
    return s;
}
static unsigned long long tok_u(char **p) { char *t = next_tok(p); return t ? strtoull(t, NULL, 10) : 0; }
static long long tok_i(char **p) { char *t = next_tok(p); return t ? strtoll(t, NULL, 10) : 0; }

static void put_str(const char *s) {
    if(s == NULL) fputs("NULL", stdout);
    else if(!*s) fputs("-", stdout);
    else fputs(s, stdout);
}

static char zero_digest[64];

int main(void) {
    zck_set_log_level(ZCK_LOG_NONE);
    zckCtx *zck = zck_create();
    if(!zck) return 2;
    zck->mode = ZCK_MODE_READ;
    char *line;
    while((line = zh_readline(stdin))) {
        char *p = line;
        char *kind = next_tok(&p);
        if(!kind) { printf("BADCASE\n"); fflush(stdout); continue; }
        if(kind[0] == 'M' || kind[0] == 'T') {
            unsigned long long hdr = tok_u(&p);
            long long limit = tok_i(&p);
            size_t n = tok_u(&p);
            zckChunk *tab = calloc(n ? n : 1, sizeof(zckChunk));
            size_t run = 0;
            for(size_t i = 0; i < n; i++) {
                size_t start = run;
                if(kind[0] == 'T') start = tok_u(&p);
                size_t len = tok_u(&p);
                int valid = (int)tok_i(&p);
                tab[i].start = start;
                tab[i].comp_length = len;
                tab[i].length = len;
                tab[i].valid = valid;
                tab[i].number = i;
                tab[i].digest = zero_digest;
                tab[i].digest_size = 16;
                tab[i].zck = zck;
                tab[i].next = (i + 1 < n) ? &tab[i+1] : NULL;
                run = start + len;
            }
            ZH_RESET_ERR(zck);
            zck->lead_size = hdr < 28 ? hdr : 28;
            zck->header_length = hdr - zck->lead_size;
            zck->index.first = n ? &tab[0] : NULL;
            zck->index.last = n ? &tab[n-1] : NULL;
            zck->index.count = n;
            zck->index.digest_size = 16;
            if((unsigned long long)zck_get_header_length(zck) != hdr) { printf("BADHDR\n"); fflush(stdout); }
            zckRange *range = zck_get_missing_range(zck, (int)limit);
            if(!range) {
                printf("NULLRANGE\n");
            } else {
                /* render first: a fault in zck_get_range_char must not leave a partial line */
                char *s = zck_get_range_char(zck, range);
                printf("R %d ", zck_get_range_count(range));
                int first = 1;
                for(zckRangeItem *ri = range->first; ri; ri = ri->next) {
                    printf("%s%llu-%llu", first ? "" : ";", (unsigned long long)ri->start, (unsigned long long)ri->end);
                    first = 0;
                }
                if(first) printf("-");
                printf(" I ");
                first = 1;
                for(zckChunk *c = range->index.first; c; c = c->next) {
                    printf("%s%llu:%llu", first ? "" : ";", (unsigned long long)(c->src ? c->src->number : 999999999ULL),
                           (unsigned long long)c->comp_length);
                    first = 0;
                }
                if(first) printf("-");
                printf(" S ");
                put_str(s);
                printf("\n");
                free(s);
                zck_range_free(&range);
            }
            zck->index.first = NULL;
            zck->index.last = NULL;
            zck->index.count = 0;
            free(tab);
        } else if(kind[0] == 'C') {
            size_t n = tok_u(&p);
            zckRangeItem *items = calloc(n ? n : 1, sizeof(zckRangeItem));
            for(size_t i = 0; i < n; i++) {
                items[i].start = tok_u(&p);
                items[i].end = tok_u(&p);
                items[i].next = (i + 1 < n) ? &items[i+1] : NULL;
                items[i].prev = i ? &items[i-1] : NULL;
            }
            zckRange range;
            memset(&range, 0, sizeof(range));
            range.count = n;
            range.first = n ? &items[0] : NULL;
            ZH_RESET_ERR(zck);
            char *s = zck_get_range_char(zck, &range);
            printf("S ");
            put_str(s);
            printf("\n");
            free(s);
            free(items);
        } else if(kind[0] == 'G') {
            unsigned long long s0 = tok_u(&p), e0 = tok_u(&p);
            char *s = zck_get_range(s0, e0);
            printf("S ");
            put_str(s);
            printf("\n");
            free(s);
        } else printf("BADCASE\n");
        fflush(stdout);
    }
    return 0;
}
