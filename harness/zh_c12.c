/* C12: scenarios under single/double I/O faults (wrappers in iowrap.h).
   W <comp> <ops> <fault>      writer: ops = comma list of w<hex> | e ; then zck_close
   R <file hex> <bufsize> <fault>   open, read to end, close
   V <file hex> <fault>             zck_validate_checksums
   C <src hex> <tgt hex> <fault>    zck_copy_chunks(src, tgt); tgt = header (+ partial body)
   D <tgt hex> <payload hex> <piece> <fault>   missing range + zck_write_chunk_cb pieces
   fault = - | op:k:kind:short[+op:k:kind:short]   (second one = double fault, armed after the first fired) */
#include "zh_common.h"
#include "iowrap.h"
#include <openssl/evp.h>
#include <zck.h>
#include "zck_private.h"

static void sha256_hex(const unsigned char *d, size_t n, char *out) {
    unsigned char md[32]; unsigned int l = 0;
    EVP_MD_CTX *c = EVP_MD_CTX_new(); EVP_DigestInit_ex(c, EVP_sha256(), NULL);
    EVP_DigestUpdate(c, d, n); EVP_DigestFinal_ex(c, md, &l); EVP_MD_CTX_free(c);
    for(int i = 0; i < 32; i++) sprintf(out + 2 * i, "%02x", md[i]);
}
static unsigned char *slurp(int fd, size_t *n) {
    off_t e = __real_lseek(fd, 0, SEEK_END); __real_lseek(fd, 0, SEEK_SET);
    unsigned char *b = malloc(e + 1); size_t o = 0; ssize_t r;
    while(o < (size_t)e && (r = __real_read(fd, b + o, e - o)) > 0) o += r;
    *n = o; return b;
}
static void print_file(const char *tag, int fd) {
    size_t n; unsigned char *b = slurp(fd, &n); char h[65]; sha256_hex(b, n, h);
    printf(" %s=%s/%zu", tag, h, n); free(b);
}

/* second fault of a double-fault case */
static int f2_op = -1, f2_kind = 0; static long f2_k = 0, f2_short = 1;
static void set_fault(const char *spec) {
    zh_fault_reset(); zh_fault_op = -1; f2_op = -1;
    if(!strcmp(spec, "-")) return;
    char op[16], kind[16], op2[16], kind2[16]; long k, sh, k2, sh2;
    int n = sscanf(spec, "%15[^:]:%ld:%15[^:]:%ld+%15[^:]:%ld:%15[^:]:%ld", op, &k, kind, &sh, op2, &k2, kind2, &sh2);
#define OPN(o) (!strcmp(o, "read") ? 0 : !strcmp(o, "write") ? 1 : 2)
#define KN(x) (!strcmp(x, "eio") ? 1 : !strcmp(x, "enospc") ? 2 : !strcmp(x, "eintr") ? 3 : 4)
    if(n >= 4) { zh_fault_op = OPN(op); zh_fault_k = k; zh_fault_kind = KN(kind); zh_fault_short = sh; }
    if(n == 8) { f2_op = OPN(op2); f2_k = k2; f2_kind = KN(kind2); f2_short = sh2; }
}
/* trace of armed writes: used fault-free to extract the payload sequence */
static int trace_on = 0, t_temp = -1, t_out = -1;
static void tracer(int op, int fd, const void *buf, size_t n, ssize_t ret) {
    if(zh_fired && f2_op >= 0) {       /* chain the second fault relative to now */
        zh_fault_op = f2_op; zh_fault_kind = f2_kind; zh_fault_short = f2_short;
        zh_fault_k = zh_count[f2_op] + f2_k; f2_op = -1; zh_fired = 0;
    }
    if(!trace_on || op != 1) return;
    printf(" %c:", fd == t_temp ? 't' : fd == t_out ? 'o' : 'x'); zh_puthex(stdout, buf, n);
}

static zckCtx *open_read(int fd) { zckCtx *z = zck_create(); if(!zck_init_read(z, fd)) { zck_free(&z); return NULL; } return z; }

static int verify_valid(zckCtx *tgt, int fd) {
    /* every chunk flagged valid must hash to its digest on disk (faults disarmed) */
    size_t n; unsigned char *b = slurp(fd, &n); int ok = 1;
    for(zckChunk *c = tgt->index.first; c; c = c->next) {
        if(c->valid != 1 || c->comp_length == 0) continue;
        size_t off = tgt->data_offset + c->start;
        if(off + c->comp_length > n) { ok = 0; break; }
        zckHash h = {0};
        if(!hash_init(tgt, &h, &tgt->chunk_hash_type) || !hash_update(tgt, &h, (char*)b + off, c->comp_length)) { ok = 0; break; }
        char *d = hash_finalize(tgt, &h);
        if(!d || memcmp(d, c->digest, c->digest_size)) ok = 0;
        free(d);
    }
    free(b); return ok;
}
static void print_flags(zckCtx *z) {
    printf(" flags=");
    for(zckChunk *c = z->index.first; c; c = c->next) printf("%c", c->valid == 1 ? 'V' : c->valid == 0 ? 'm' : 'F');
}

int main(void) {
    zck_set_log_level(ZCK_LOG_NONE);
    zh_trace = tracer;
    char *line;
    while((line = zh_readline(stdin))) {
        size_t L = strlen(line) + 1;
        char *a = malloc(L), *b = malloc(L), *c = malloc(L), *d = malloc(L);
        int retry_mode = 0;
        if(line[0] == 'W' && line[1] == 'c') { retry_mode = 1; memmove(line + 1, line + 2, strlen(line + 2) + 1); }
        if(sscanf(line, "W %s %s %s", a, b, c) == 3) {
            int comp = atoi(a);
            int out = zh_memfd("", 0);
            zckCtx *z = zck_create();
            set_fault(c); trace_on = !strcmp(c, "-");
            printf("W");
            int okw = 1;
            zh_armed = 1;
            if(!zck_init_write(z, out)) okw = 0;
            t_temp = z->temp_fd; t_out = out;
            if(okw && (!zck_set_ioption(z, ZCK_COMP_TYPE, comp) || !zck_set_ioption(z, ZCK_MANUAL_CHUNK, 1))) okw = 0;
            char *save = NULL;
            for(char *o = strtok_r(b, ",", &save); o && okw; o = strtok_r(NULL, ",", &save)) {
                int tries = 0, done_op = 0;
                while(!done_op) {
                    if(o[0] == 'e') { done_op = zck_end_chunk(z) >= 0; }
                    else { size_t n; unsigned char *raw = zh_unhex(o + 1, &n);
                           done_op = zck_write(z, (char*)raw, n) == (ssize_t)n; free(raw); }
                    if(done_op) break;
                    /* a caller following the error API: a cleared error means "recoverable, try again" */
                    if(retry_mode && tries++ < 1 && zck_clear_error(z)) continue;
                    okw = 0; break;
                }
            }
            if(retry_mode && !okw) zck_clear_error(z);
            int cl = zck_close(z);
            zh_armed = 0; trace_on = 0;
            printf(" calls=%ld/%ld/%ld fired=%d writes_ok=%d close=%d", zh_count[0], zh_count[1], zh_count[2], zh_fired, okw, cl);
            print_file("out", out);
            printf("\n");
            zck_free(&z); close(out);
        } else if(sscanf(line, "R %s %s %s", a, b, c) == 3) {
            size_t n; unsigned char *raw = zh_unhex(a, &n); int fd = zh_memfd(raw, n); free(raw);
            size_t bs = atol(b); set_fault(c);
            zh_armed = 1;
            zckCtx *z = open_read(fd);
            printf("R open=%d", z != NULL);
            if(z) {
                char *buf = malloc(bs); unsigned char *acc = malloc(1 << 22); size_t tot = 0; ssize_t r;
                while((r = zck_read(z, buf, bs)) > 0 && tot + r < (1 << 22)) { memcpy(acc + tot, buf, r); tot += r; }
                int cl = (r == 0) ? zck_close(z) : 0;
                zh_armed = 0;
                char h[65]; sha256_hex(acc, tot, h);
                printf(" rd=%zd close=%d content=%s/%zu", r, cl, h, tot);
                free(buf); free(acc); zck_free(&z);
            }
            zh_armed = 0;
            printf(" calls=%ld/%ld/%ld fired=%d\n", zh_count[0], zh_count[1], zh_count[2], zh_fired);
            close(fd);
        } else if(sscanf(line, "V %s %s", a, b) == 2) {
            size_t n; unsigned char *raw = zh_unhex(a, &n); int fd = zh_memfd(raw, n); free(raw);
            zckCtx *z = open_read(fd);
            printf("V open=%d", z != NULL);
            if(z) { set_fault(b); zh_armed = 1; int v = zck_validate_checksums(z); zh_armed = 0; printf(" v=%d", v); print_flags(z);
                    printf(" ok=%d", verify_valid(z, fd)); zck_free(&z); }
            printf(" calls=%ld/%ld/%ld fired=%d\n", zh_count[0], zh_count[1], zh_count[2], zh_fired);
            close(fd);
        } else if(sscanf(line, "C %s %s %s", a, b, c) == 3) {
            size_t n, m; unsigned char *raw = zh_unhex(a, &n); int sfd = zh_memfd(raw, n); free(raw);
            raw = zh_unhex(b, &m); int tfd = zh_memfd(raw, m); free(raw);
            zckCtx *s = open_read(sfd), *t = open_read(tfd);
            printf("C open=%d%d", s != NULL, t != NULL);
            if(s && t) { set_fault(c); zh_armed = 1; int k = zck_copy_chunks(s, t); zh_armed = 0; printf(" k=%d", k); print_flags(t);
                         printf(" ok=%d", verify_valid(t, tfd)); print_file("tgt", tfd); }
            printf(" calls=%ld/%ld/%ld fired=%d\n", zh_count[0], zh_count[1], zh_count[2], zh_fired);
            if(s) zck_free(&s); if(t) zck_free(&t); close(sfd); close(tfd);
        } else if(sscanf(line, "D %s %s %s %s", a, b, c, d) == 4) {
            size_t m, pn; unsigned char *raw = zh_unhex(a, &m); int tfd = zh_memfd(raw, m); free(raw);
            unsigned char *pay = zh_unhex(b, &pn); size_t piece = atol(c);
            zckCtx *t = open_read(tfd);
            printf("D open=%d", t != NULL);
            if(t) {
                zckDL *dl = zck_dl_init(t);
                zckRange *rg = zck_get_missing_range(t, -1);
                zck_dl_set_range(dl, rg);
                set_fault(d); zh_armed = 1;
                printf(" rets=");
                for(size_t o = 0; o < pn; o += piece) {
                    size_t l = pn - o < piece ? pn - o : piece;
                    size_t r = zck_write_chunk_cb(pay + o, 1, l, dl);
                    printf("%c", r == l ? '1' : '0');
                    if(r != l) break;
                }
                zh_armed = 0;
                print_flags(t); printf(" ok=%d", verify_valid(t, tfd));
                zck_dl_set_range(dl, NULL); zck_range_free(&rg); zck_dl_free(&dl); zck_free(&t);
            }
            printf(" calls=%ld/%ld/%ld fired=%d\n", zh_count[0], zh_count[1], zh_count[2], zh_fired);
            free(pay); close(tfd);
        } else printf("BADCASE\n");
        fflush(stdout);
        free(a); free(b); free(c); free(d);
    }
    return 0;
}
