/* C12, download part: the C05 driver of the real callbacks, built with the read/write/lseek wrappers
 * (-Wl,--wrap=...) so that opts fault=<op>.<k>.<kind>.<n> makes the k-th call on the target fail */
#define ZH_IOWRAP 1
#include "zh_c05.c"
