/* C17 uses the same driver of the real callbacks as C05 */
#include "zh_c05.c"
