/* C08: local chunk reuse.  One case per line:
     K <nsrc> <src hex>{nsrc} <target hex> <ops>
   Sources are stored in temp files opened READ-ONLY, the target in a temp file opened
   read-write (as zckdl does); all are opened with zck_init_read.  ops: comma list of
     f     zck_find_valid_chunks(target)          (pre-marks what the target already holds)
     z     zck_reset_failed_chunks(target)
     c<k>  zck_copy_chunks(source k, target)
     m<k>  zck_find_matching_chunks(source k, target)
     H<k>  zck_generate_hashdb(source k)   (rebuilds the lookup tables of the source; no visible effect)
     M<j><k> zck_find_matching_chunks(source j, source k)   (only the flags of source k change)
   After every op: return value, valid flags, pairing (tgt->src: '-' unset, '=' itself,
   <k>:<n> chunk n of source k), and the whole target file in hex.  At the end, per source,
   sha256/length of the file as it is on disk now.
     open=1,1 f=-1[1,0,0]{-,-,-}T=<hex> c0=1[1,1,-1]{-,-,-}T=<hex> src0=<sha256>/<len>        */
#include "zh_common.h"
#include <zck.h>
#include "zck_private.h"
#include <openssl/sha.h>

#define MAXSRC 8
static void on_alarm(int s) { (void)s; printf("HANG\n"); fflush(stdout); _exit(98); }

static int store(const char *dir, const char *hex, char *path, size_t psz, int flags) {
    size_t n; unsigned char *raw = zh_unhex(hex, &n);
    snprintf(path, psz, "%s/zh8XXXXXX", dir ? dir : "/tmp");
    int wfd = mkstemp(path);
    if(wfd < 0) { perror("mkstemp"); exit(2); }
    size_t off = 0;
    while(off < n) { ssize_t w = write(wfd, raw + off, n - off); if(w <= 0) { perror("write"); exit(2); } off += w; }
    close(wfd); free(raw);
    return open(path, flags);
}

static void file_sha(const char *path) {
    int cfd = open(path, O_RDONLY); SHA256_CTX sc; SHA256_Init(&sc);
    unsigned char b[65536]; ssize_t r; size_t tot = 0;
    while((r = read(cfd, b, sizeof b)) > 0) { SHA256_Update(&sc, b, r); tot += r; }
    unsigned char dg[32]; SHA256_Final(dg, &sc); close(cfd);
    for(int i = 0; i < 32; i++) printf("%02x", dg[i]);
    printf("/%zu", tot);
}

static void dump(zckCtx *tgt, zckCtx **src, int nsrc, const char *tpath) {
    printf("[");
    for(zckChunk *c = tgt->index.first; c; c = c->next) printf("%s%d", c == tgt->index.first ? "" : ",", c->valid);
    printf("]{");
    for(zckChunk *c = tgt->index.first; c; c = c->next) {
        if(c != tgt->index.first) printf(",");
        if(c->src == NULL) printf("-");
        else if(c->src == c) printf("=");
        else {
            int k; for(k = 0; k < nsrc; k++) if(src[k] && c->src->zck == src[k]) break;
            printf("%d:%d", k, c->src->number);
        }
    }
    printf("}T=");
    int cfd = open(tpath, O_RDONLY); unsigned char b[65536]; ssize_t r; int any = 0;
    while((r = read(cfd, b, sizeof b)) > 0) { zh_puthex(stdout, b, r); any = 1; }
    if(!any) printf("-");
    close(cfd);
}

/* a write-mode context holding the same chunks as the read context r (same options), not closed - the state in which
   test/zck_cmp_uncomp.c pairs a freshly chunked image with a published file; r is freed */
static zckCtx *rewrite_as_writer(zckCtx *r) {
    zckCtx *w = zck_create();
    int nul = open("/dev/null", O_WRONLY);
    int ok = w && zck_init_write(w, nul);
    ok = ok && zck_set_ioption(w, ZCK_COMP_TYPE, r->comp.type);
    ok = ok && zck_set_ioption(w, ZCK_HASH_FULL_TYPE, zck_get_full_hash_type(r));
    ok = ok && zck_set_ioption(w, ZCK_HASH_CHUNK_TYPE, zck_get_chunk_hash_type(r));
    if(ok && r->has_uncompressed_source) ok = zck_set_ioption(w, ZCK_UNCOMP_HEADER, 1);
    ok = ok && zck_set_ioption(w, ZCK_MANUAL_CHUNK, 1);
    int first = 1;
    for(zckChunk *c = zck_get_first_chunk(r); c && ok; c = zck_get_next_chunk(c)) {
        ssize_t n = zck_get_chunk_size(c);
        char *buf = malloc(n > 0 ? n : 1);
        if(n > 0 && zck_get_chunk_data(c, buf, n) != n) ok = 0;
        if(ok && first) { if(n > 0) ok = zck_set_soption(w, ZCK_COMP_DICT, buf, n); }
        else if(ok) { if(n > 0 && zck_write(w, buf, n) != n) ok = 0; if(ok && zck_end_chunk(w) < 0) ok = 0; }
        first = 0;
        free(buf);
    }
    zck_free(&r);
    if(!ok) { zck_free(&w); return NULL; }
    return w;
}

int main(void) {
    zck_set_log_level(ZCK_LOG_NONE);
    zh_apply_limits();
    signal(SIGALRM, on_alarm);
    char *line;
    const char *dir = getenv("ZH_TMP");
    while((line = zh_readline(stdin))) {
        char *save = NULL, *tok = strtok_r(line, " ", &save);
        if(!tok || strcmp(tok, "K")) { printf("BADCASE\n"); fflush(stdout); continue; }
        tok = strtok_r(NULL, " ", &save);
        int nsrc = tok ? atoi(tok) : -1;
        if(nsrc < 0 || nsrc > MAXSRC) { printf("BADCASE\n"); fflush(stdout); continue; }
        alarm(30);
        char spath[MAXSRC][4096], tpath[4096]; int sfd[MAXSRC], tfd; zckCtx *src[MAXSRC], *tgt;
        int bad = 0;
        for(int k = 0; k < nsrc; k++) {
            tok = strtok_r(NULL, " ", &save);
            if(!tok) { bad = 1; nsrc = k; break; }
            int wmode = tok[0] == 'W';      /* W<hex>: the source is a WRITE-mode context that has just written this file's chunks */
            sfd[k] = store(dir, tok + wmode, spath[k], sizeof spath[k], O_RDONLY);
            src[k] = zck_create();
            if(!zck_init_read(src[k], sfd[k])) { zck_free(&src[k]); src[k] = NULL; }
            if(wmode && src[k]) src[k] = rewrite_as_writer(src[k]);
        }
        char *th = strtok_r(NULL, " ", &save), *ops = strtok_r(NULL, " ", &save);
        if(bad || !th || !ops) { printf("BADCASE\n"); fflush(stdout); alarm(0); continue; }
        tfd = store(dir, th, tpath, sizeof tpath, O_RDWR);
        tgt = zck_create();
        int opened = zck_init_read(tgt, tfd);
        printf("open=%d", opened);
        for(int k = 0; k < nsrc; k++) printf(",%d", src[k] != NULL);
        char *osave = NULL;
        for(char *o = strtok_r(ops, ",", &osave); o && opened; o = strtok_r(NULL, ",", &osave)) {
            int k = atoi(o + 1);
            switch(o[0]) {
            case 'f': printf(" f=%d", zck_find_valid_chunks(tgt)); break;
            case 'z': zck_reset_failed_chunks(tgt); printf(" z=1"); break;
            case 'c': if(k < nsrc && src[k]) printf(" c%d=%d", k, zck_copy_chunks(src[k], tgt)); else printf(" c%d=nosrc", k); break;
            case 'H': if(k < nsrc && src[k]) printf(" H%d=%d", k, zck_generate_hashdb(src[k]) ? 1 : 0); else printf(" H%d=nosrc", k); break;
            case 'M': {   /* M<j><k>: zck_find_matching_chunks(source j, source k): sets flags on source k from the indexes alone */
                int j = o[1] - '0', k2 = o[2] - '0';
                if(j >= 0 && j < nsrc && k2 >= 0 && k2 < nsrc && src[j] && src[k2]) printf(" M%d%d=%d", j, k2, zck_find_matching_chunks(src[j], src[k2]));
                else printf(" M%d%d=nosrc", j, k2);
                break; }
            case 'm': if(k < nsrc && src[k]) printf(" m%d=%d", k, zck_find_matching_chunks(src[k], tgt)); else printf(" m%d=nosrc", k); break;
            default: printf(" ?=0");
            }
            dump(tgt, src, nsrc, tpath);
        }
        for(int k = 0; k < nsrc; k++) { printf(" src%d=", k); file_sha(spath[k]); }
        printf("\n"); fflush(stdout);
        zck_free(&tgt); close(tfd); unlink(tpath);
        for(int k = 0; k < nsrc; k++) { if(src[k]) zck_free(&src[k]); close(sfd[k]); unlink(spath[k]); }
        alarm(0);
    }
    return 0;
}
