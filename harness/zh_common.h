/* helpers shared by the C side of the correspondence harness */
#ifndef ZH_COMMON_H
#define ZH_COMMON_H
#include <stdio.h>
#include <stdlib.h>
#include <stdint.h>
#include <string.h>
#include <signal.h>
#include <setjmp.h>
#include <unistd.h>
#include <fcntl.h>
#include <errno.h>
#include <sys/mman.h>
#include <sys/types.h>
#include <sys/stat.h>
#include <sys/resource.h>

static int zh_hexval(int c) {
    if(c >= '0' && c <= '9') return c - '0';
    if(c >= 'a' && c <= 'f') return c - 'a' + 10;
    if(c >= 'A' && c <= 'F') return c - 'A' + 10;
    return -1;
}

/* "-" is the empty string */
static unsigned char *zh_unhex(const char *h, size_t *len) {
    if(strcmp(h, "-") == 0) { *len = 0; return calloc(1, 1); }
    size_t n = strlen(h) / 2;
    unsigned char *out = malloc(n + 1);
    for(size_t i = 0; i < n; i++)
        out[i] = (unsigned char)(zh_hexval(h[2*i]) * 16 + zh_hexval(h[2*i+1]));
    *len = n;
    return out;
}

static void zh_puthex(FILE *f, const void *p, size_t n) {
    const unsigned char *b = p;
    if(n == 0) { fputc('-', f); return; }
    for(size_t i = 0; i < n; i++) fprintf(f, "%02x", b[i]);
}

/* a buffer of n bytes whose last byte is immediately followed by an inaccessible page */
typedef struct { unsigned char *base; size_t maplen; unsigned char *p; } zh_guarded;
static zh_guarded zh_guard_alloc(size_t n) {
    zh_guarded g;
    long ps = sysconf(_SC_PAGESIZE);
    size_t pages = (n + ps - 1) / ps + 1;
    if(n == 0) pages = 2;
    g.maplen = pages * ps;
    g.base = mmap(NULL, g.maplen, PROT_READ | PROT_WRITE, MAP_PRIVATE | MAP_ANONYMOUS, -1, 0);
    if(g.base == MAP_FAILED) { perror("mmap"); exit(2); }
    mprotect(g.base + g.maplen - ps, ps, PROT_NONE);
    g.p = g.base + g.maplen - ps - n;
    return g;
}
static void zh_guard_free(zh_guarded g) { munmap(g.base, g.maplen); }

static sigjmp_buf zh_jmp;
static volatile int zh_jmp_armed = 0;
static void zh_segv(int sig) {
    if(zh_jmp_armed) siglongjmp(zh_jmp, sig);
    _exit(96);
}
static void zh_install_segv(void) {
    struct sigaction sa;
    memset(&sa, 0, sizeof(sa));
    sa.sa_handler = zh_segv;
    sa.sa_flags = SA_NODEFER;
    sigaction(SIGSEGV, &sa, NULL);
    sigaction(SIGBUS, &sa, NULL);
    sigaction(SIGFPE, &sa, NULL);
}

static char *zh_readline(FILE *f) {
    static char *buf = NULL; static size_t cap = 0;
    ssize_t n = getline(&buf, &cap, f);
    if(n < 0) return NULL;
    while(n > 0 && (buf[n-1] == '\n' || buf[n-1] == '\r')) buf[--n] = 0;
    return buf;
}

/* in-memory file: anonymous temp file holding the given bytes */
static int zh_memfd(const void *data, size_t n) {
    char tmpl[] = "/tmp/zhXXXXXX";
    const char *dir = getenv("ZH_TMP");
    char path[4096];
    if(dir) snprintf(path, sizeof(path), "%s/zhXXXXXX", dir); else strcpy(path, tmpl);
    int fd = mkstemp(path);
    if(fd < 0) { perror("mkstemp"); exit(2); }
    unlink(path);
    size_t off = 0;
    while(off < n) {
        ssize_t w = write(fd, (const char*)data + off, n - off);
        if(w <= 0) { perror("write"); exit(2); }
        off += w;
    }
    lseek(fd, 0, SEEK_SET);
    return fd;
}

/* ZH_AS_LIMIT_MB caps the address space (non-sanitized builds only): crafted length fields
   make the library ask for huge buffers, which must fail instead of thrashing */
static void zh_apply_limits(void) {
    const char *m = getenv("ZH_AS_LIMIT_MB");
    if(m) {
        struct rlimit rl; rl.rlim_cur = rl.rlim_max = (rlim_t)atol(m) * 1024 * 1024;
        setrlimit(RLIMIT_AS, &rl);
    }
}
#endif
