/* C05 / C17: drive the REAL zck_header_cb / zck_write_chunk_cb with a given fragment list
 * against a target zckCtx built in memory.  Same case lines and result lines as
 * ocaml/drv_c05.ml (see there for the format). */
#include "zh_common.h"
#ifdef ZH_IOWRAP
/* C12: built with -Wl,--wrap=read,write,lseek; opts fault=<op>.<k>.<kind>.<n> makes the k-th such call on the
   target fail or transfer a short count while the callbacks run */
#include "iowrap.h"
#endif
#include <zck.h>
#include "zck_private.h"
#include <openssl/evp.h>

#define MAXCH 64
typedef struct {
    int ht, doff, nch;
    size_t len[MAXCH]; int flag0[MAXCH]; int flag[MAXCH]; unsigned seed[MAXCH];
    size_t start[MAXCH]; unsigned char *data[MAXCH]; unsigned char digest[MAXCH][64];
    int nridx; int ridx[MAXCH * 2];
    int nhdr; unsigned char *hdr[64]; size_t hdrlen[64];
    unsigned char *body; size_t nbody;
    unsigned char *init; size_t ninit;
    int clr, autor;
    int dsz;
    char fault[64];
} zcase;

static void prng_bytes(unsigned seed, unsigned char *out, size_t n) {
    uint32_t x = (uint32_t)((uint64_t)seed * 2654435761ull + 1ull);
    if(x == 0) x = 1;
    for(size_t i = 0; i < n; i++) {
        x ^= x << 13; x ^= x >> 17; x ^= x << 5;
        out[i] = x & 0xff;
    }
}

static void md(int ht, const void *p, size_t n, unsigned char *out) {
    const EVP_MD *m = ht == 0 ? EVP_sha1() : ht == 1 ? EVP_sha256() : EVP_sha512();
    unsigned int l = 0;
    EVP_MD_CTX *c = EVP_MD_CTX_new();
    EVP_DigestInit_ex(c, m, NULL);
    EVP_DigestUpdate(c, p, n);
    EVP_DigestFinal_ex(c, out, &l);
    EVP_MD_CTX_free(c);
}

static void sha256hex(const void *p, size_t n, char *out) {
    unsigned char d[64];
    md(1, p, n, d);
    for(int i = 0; i < 32; i++) sprintf(out + 2 * i, "%02x", d[i]);
}

typedef struct { char rets[4096]; int nret; int verdict; char line[8192]; char key[8192]; } zres;

static int fd = -1;

typedef struct { zckCtx *zck; zckChunk *chk[MAXCH]; } ztarget;

/* target file + target context with the chunk table of the case */
static void setup_target(zcase *c, ztarget *t) {
    if(fd < 0) fd = zh_memfd("", 0);
    if(ftruncate(fd, 0) != 0 || pwrite(fd, c->init, c->ninit, 0) != (ssize_t)c->ninit) { perror("init"); exit(2); }
    lseek(fd, 0, SEEK_SET);
    zckCtx *zck = zck_create();
    zck->mode = ZCK_MODE_READ;
    zck->fd = fd;
    zck->temp_fd = -1;
    if(!set_chunk_hash_type(zck, c->ht)) { printf("BADCASE hash\n"); exit(2); }
    zck->data_offset = c->doff;
    zck->lead_size = c->doff;
    zck->header_length = 0;
    for(int i = 0; i < c->nch; i++) {
        /* the uncompressed size plays no role on the download path: give it values that differ from
           the stored size (larger for odd, smaller for even chunks) so that any use of it shows */
        size_t orig = c->len[i] == 0 ? 0 : ((i % 2) ? c->len[i] * 3 + 5 : c->len[i] / 2 + 1);
        if(!index_new_chunk(zck, &zck->index, (char*)c->digest[i], c->dsz, NULL, c->len[i], orig, NULL,
                            c->flag0[i] == 1)) { printf("BADCASE index\n"); exit(2); }
        t->chk[i] = zck->index.last;
        t->chk[i]->valid = c->flag0[i] == 2 ? -1 : c->flag0[i];
    }
    /* data checksum of the complete, correct file (used by the validity scan when every chunk is good) */
    if(!set_full_hash_type(zck, c->ht)) { printf("BADCASE fullhash\n"); exit(2); }
    {
        size_t tot = 0;
        for(int i = 0; i < c->nch; i++) tot += c->len[i];
        unsigned char *all = malloc(tot + 1), dg[64];
        size_t o = 0;
        for(int i = 0; i < c->nch; i++) { memcpy(all + o, c->data[i], c->len[i]); o += c->len[i]; }
        md(c->ht, all, tot, dg);
        zck->full_hash_digest = malloc(64);
        memcpy(zck->full_hash_digest, dg, 64);
        free(all);
    }
    t->zck = zck;
}

static int vstring(zcase *c, ztarget *t, char *v, size_t cap) {
    struct stat st; fstat(fd, &st);
    size_t L = st.st_size;
    unsigned char *f = malloc(L + 1);
    if(pread(fd, f, L, 0) != (ssize_t)L) { perror("pread"); exit(2); }
    int vp = 0;
    v[0] = 0;
    for(int i = 0; i < c->nch; i++) {
        size_t o = c->doff + c->start[i], n = c->len[i];
        size_t have = o >= L ? 0 : (L - o < n ? L - o : n);
        size_t ihave = o >= c->ninit ? 0 : (c->ninit - o < n ? c->ninit - o : n);
        char cl;
        int allz = have == n; for(size_t j = 0; j < have && allz; j++) if(f[o + j]) allz = 0;
        if(n == 0) cl = 'E';
        else if(have == n && memcmp(f + o, c->data[i], n) == 0) cl = 'T';
        else if(allz) cl = 'Z';
        else if(have == ihave && memcmp(f + o, c->init + o, have) == 0) cl = 'I';
        else cl = 'O';
        vp += snprintf(v + vp, cap - vp, "%s%d%c", i ? "," : "", t->chk[i]->valid, cl);
    }
    free(f);
    return vp;
}

/* feed header lines and the body cut at the given positions; returns 1 when every callback took its bytes */
static int feed_transfer(zcase *c, ztarget *t, zckDL *dl, unsigned char **hdr, size_t *hdrlen, int nhdr,
                         unsigned char *body, size_t nbody, const size_t *cuts, int ncuts, zres *r) {
    for(int i = 0; i < nhdr; i++) {
        char *b = malloc(hdrlen[i] ? hdrlen[i] : 1);   /* exact size: ASan sees over-reads */
        memcpy(b, hdr[i], hdrlen[i]);
        zck_header_cb(b, 1, hdrlen[i], dl);
        free(b);
    }
    size_t prev = 0;
    int all_ok = 1;
    for(int k = 0; k <= ncuts; k++) {
        size_t endp = k < ncuts ? cuts[k] : nbody;
        if(endp <= prev) continue;
        size_t n = endp - prev;
        char *b = malloc(n);
        memcpy(b, body + prev, n);
        size_t ret = zck_write_chunk_cb(b, 1, n, dl);
        free(b);
        prev = endp;
        int ok = ret == n;
        if(r->nret < (int)sizeof(r->rets) - 1) r->rets[r->nret++] = ok ? '1' : '0';
        if(!ok) {
            all_ok = 0;
            r->verdict = 0;
            if(c->clr) { zck_clear_error(t->zck); continue; }
            break;
        }
    }
    return all_ok;
}

/* final file, masked file, flags and chunk classes */
static void finish_result(zcase *c, ztarget *t, zres *r, int ridx_bad) {
    r->rets[r->nret] = 0;
    struct stat st; fstat(fd, &st);
    size_t L = st.st_size;
    unsigned char *f = malloc(L + 1), *m = malloc(L + 1);
    if(pread(fd, f, L, 0) != (ssize_t)L) { perror("pread"); exit(2); }
    memcpy(m, f, L);
    for(int k = 0; k < c->nridx; k++) {
        int tt = c->ridx[k];
        if(c->flag[tt] == 1) continue;
        size_t o = c->doff + c->start[tt];
        for(size_t i = o; i < o + c->len[tt] && i < L; i++) m[i] = 0;
    }
    char fh[65], mh[65], v[2048]; int vp = 0;
    sha256hex(f, L, fh); sha256hex(m, L, mh);
    for(int i = 0; i < c->nch; i++) {
        size_t o = c->doff + c->start[i], n = c->len[i];
        size_t have = o >= L ? 0 : (L - o < n ? L - o : n);
        size_t ihave = o >= c->ninit ? 0 : (c->ninit - o < n ? c->ninit - o : n);
        char cl;
        int allz = have == n; for(size_t j = 0; j < have && allz; j++) if(f[o + j]) allz = 0;
        if(n == 0) cl = 'E';
        else if(have == n && memcmp(f + o, c->data[i], n) == 0) cl = 'T';
        else if(allz) cl = 'Z';
        else if(have == ihave && memcmp(f + o, c->init + o, have) == 0) cl = 'I';
        else cl = 'O';
        vp += snprintf(v + vp, sizeof(v) - vp, "%s%d%c", i ? "," : "", t->chk[i]->valid, cl);
    }
    if(c->nch == 0) v[0] = 0;
    snprintf(r->line, sizeof(r->line), "R=%s L=%zu F=%s M=%s V=%s%s", r->rets, L, fh, mh, v, ridx_bad ? " RIDX-MISMATCH" : "");
    snprintf(r->key, sizeof(r->key), "%s L=%zu F=%s V=%s", r->verdict ? "true" : "false", L, fh, v);
    free(f); free(m);
}

/* one complete transfer with the given cut positions (sorted, 0 < cut < nbody) */
static void run_partition(zcase *c, const size_t *cuts, int ncuts, zres *r) {
    ztarget t;
    setup_target(c, &t);
    zckCtx *zck = t.zck;
    zckRange *range = NULL;
    int ridx_bad = 0;
    if(c->autor) {
        range = zck_get_missing_range(zck, -1);
        int k = 0;
        for(zckChunk *e = range ? range->index.first : NULL; e; e = e->next, k++)
            if(k >= c->nridx || e->src != t.chk[c->ridx[k]]) ridx_bad = 1;
        if(k != c->nridx) ridx_bad = 1;
    } else {
        range = zmalloc(sizeof(zckRange));
        for(int k = 0; k < c->nridx; k++) {
            zckChunk *tc = t.chk[c->ridx[k]];
            if(!index_new_chunk(zck, &range->index, tc->digest, tc->digest_size, tc->digest_uncompressed,
                                tc->comp_length, tc->comp_length, tc, false)) { printf("BADCASE ridx\n"); exit(2); }
        }
    }
    for(int i = 0; i < c->nch; i++)
        t.chk[i]->valid = c->flag[i] == 2 ? -1 : c->flag[i];
    zckDL *dl = zck_dl_init(zck);
    zck_dl_set_range(dl, range);
    r->nret = 0; r->verdict = 1;
#ifdef ZH_IOWRAP
    if(c->fault[0]) {
        char op[16], kind[16]; long k, sh;
        if(sscanf(c->fault, "%15[^.].%ld.%15[^.].%ld", op, &k, kind, &sh) == 4) {
            zh_fault_op = !strcmp(op, "read") ? 0 : !strcmp(op, "write") ? 1 : 2;
            zh_fault_k = k;
            zh_fault_kind = !strcmp(kind, "eio") ? 1 : !strcmp(kind, "enospc") ? 2 : !strcmp(kind, "eintr") ? 3 : 4;
            zh_fault_short = sh;
            zh_fault_reset();
            zh_armed = 1;
        }
    }
#endif
    feed_transfer(c, &t, dl, c->hdr, c->hdrlen, c->nhdr, c->body, c->nbody, cuts, ncuts, r);
#ifdef ZH_IOWRAP
    zh_armed = 0;
#endif
    finish_result(c, &t, r, ridx_bad);
    zck_dl_free(&dl);
    zck_range_free(&range);
    zck->fd = -1;
    zck_free(&zck);
}

/* several transfers on ONE zckDL, driven like src/zck_dl.c: before every request zck_dl_reset,
 * zck_get_missing_range, zck_dl_set_range; afterwards zck_dl_set_range(NULL) + zck_range_free.
 * spec = t/t/...  t = hdrs:body:parts */
static int split(char *s, char sep, char **out, int max);
static void run_session(zcase *c, char *spec, zres *r) {
    ztarget t;
    setup_target(c, &t);
    zckDL *dl = zck_dl_init(t.zck);
    r->nret = 0; r->verdict = 1;
    char *tr[64]; int ntr = 0;
    static char snaps[4096]; int sp = 0;
    zckRange *range = NULL;
    snaps[0] = 0;
    tr[ntr++] = spec;
    for(char *p = spec; *p; p++) if(*p == '/') { *p = 0; if(ntr < 64) tr[ntr++] = p + 1; }
    for(int k = 0; k < ntr; k++) {
        char *f1 = tr[k], *f2 = strchr(f1, ':'), *f3 = f2 ? strchr(f2 + 1, ':') : NULL;
        if(!f2 || !f3) { printf("BADCASE transfer\n"); exit(2); }
        *f2++ = 0; *f3++ = 0;
        char *f4 = strchr(f3, ':');
        if(f4) *f4++ = 0;
        if(k && r->nret < (int)sizeof(r->rets) - 1) r->rets[r->nret++] = '/';
        for(char *st = f4; st && *st; st++) {
            if(*st == 'r') {
                /* the client re-checks its file, as src/zck_dl.c does before downloading */
                int rv = zck_find_valid_chunks(t.zck);
                (void)rv;
                zck_reset_failed_chunks(t.zck);
            } else if(*st == 'e') {
                zck_clear_error(t.zck);
            }
        }
        int cont = k > 0 && f4 && strchr(f4, 'n') != NULL;   /* n: the transfer in progress goes on (no reset, same range) */
        if(!cont) {
            zck_dl_set_range(dl, NULL);
            if(range) zck_range_free(&range);
            zck_dl_reset(dl);
            range = zck_get_missing_range(t.zck, -1);
            if(range == NULL) {
                /* the context is in error state: there is no request; whatever arrives must be refused cleanly */
                if(r->nret < (int)sizeof(r->rets) - 1) r->rets[r->nret++] = 'E';
            }
            if(!zck_dl_set_range(dl, range)) { printf("BADCASE range\n"); exit(2); }
        }
        char *hp[64]; unsigned char *hdr[64]; size_t hdrlen[64];
        int nh = split(f1, ',', hp, 64);
        for(int i = 0; i < nh; i++) hdr[i] = zh_unhex(hp[i], &hdrlen[i]);
        size_t nbody; unsigned char *body = zh_unhex(f2, &nbody);
        size_t *cuts = malloc(sizeof(size_t) * (nbody + 2)); int nc = 0;
        if(f3[0] == 'k') {
            size_t kk = strtoul(f3 + 1, NULL, 10);
            for(size_t p = kk; kk > 0 && p < nbody; p += kk) cuts[nc++] = p;
        } else if(f3[0] == 'c') {
            char *cp[4096]; int m = split(f3 + 1, '.', cp, 4096);
            for(int i = 0; i < m; i++) { size_t v = strtoul(cp[i], NULL, 10); if(v > 0 && v < nbody) cuts[nc++] = v; }
            for(int i = 1; i < nc; i++) for(int j = i; j > 0 && cuts[j-1] > cuts[j]; j--) { size_t tmp = cuts[j]; cuts[j] = cuts[j-1]; cuts[j-1] = tmp; }
            int u = 0; for(int i = 0; i < nc; i++) if(u == 0 || cuts[u-1] != cuts[i]) cuts[u++] = cuts[i];
            nc = u;
        }
        feed_transfer(c, &t, dl, hdr, hdrlen, nh, body, nbody, cuts, nc, r);
        for(int i = 0; i < nh; i++) free(hdr[i]);
        free(body); free(cuts);
        sp += snprintf(snaps + sp, sizeof(snaps) - sp, "%s", k ? ";" : "");
        sp += vstring(c, &t, snaps + sp, sizeof(snaps) - sp);
    }
    zck_dl_set_range(dl, NULL);
    if(range) zck_range_free(&range);
    finish_result(c, &t, r, 0);
    {
        size_t ll = strlen(r->line);
        snprintf(r->line + ll, sizeof(r->line) - ll, " I=%s", snaps);
    }
    zck_dl_free(&dl);
    t.zck->fd = -1;
    zck_free(&t.zck);
}

static int split(char *s, char sep, char **out, int max) {
    int n = 0;
    if(strcmp(s, "-") == 0 || !*s) return 0;
    out[n++] = s;
    for(char *p = s; *p; p++)
        if(*p == sep) { *p = 0; if(n < max) out[n++] = p + 1; }
    return n;
}

int main(void) {
    zck_set_log_level(ZCK_LOG_NONE);
    char *line;
    while((line = zh_readline(stdin))) {
        char *tok[16]; int nt = 0;
        char *copy = strdup(line);
        for(char *p = strtok(copy, " "); p && nt < 16; p = strtok(NULL, " ")) tok[nt++] = p;
        int session = nt == 6 && strcmp(tok[0], "S") == 0;
        if(session) {
            /* S ht doff chunks transfers opts  ->  same slots as X with an empty request / body */
            tok[9] = tok[5]; tok[8] = tok[4]; tok[4] = "-"; tok[5] = "-"; tok[6] = "-"; tok[7] = "-";
            nt = 10;
        } else if(nt != 10 || strcmp(tok[0], "X") != 0) { printf("BADCASE\n"); fflush(stdout); free(copy); continue; }
        zcase *c = calloc(1, sizeof(zcase));
        c->ht = atoi(tok[1]); c->doff = atoi(tok[2]);
        c->dsz = c->ht == 0 ? 20 : c->ht == 1 ? 32 : c->ht == 2 ? 64 : 16;
        char *parts[256];
        int n = split(tok[3], ',', parts, MAXCH);
        c->nch = n;
        size_t pos = 0;
        for(int i = 0; i < n; i++) {
            unsigned long l; int fl; unsigned sd;
            sscanf(parts[i], "%lu.%d.%u", &l, &fl, &sd);
            c->len[i] = l; c->flag0[i] = fl; c->flag[i] = fl; c->seed[i] = sd;
            c->start[i] = pos; pos += l;
            c->data[i] = malloc(l + 1);
            prng_bytes(sd, c->data[i], l);
            if(l == 0) memset(c->digest[i], 0, 64); else md(c->ht, c->data[i], l, c->digest[i]);
        }
        n = split(tok[4], ',', parts, MAXCH * 2);
        c->nridx = n;
        for(int i = 0; i < n; i++) c->ridx[i] = atoi(parts[i]);
        n = split(tok[5], ',', parts, MAXCH);
        for(int i = 0; i < n; i++) { int a, b; sscanf(parts[i], "%d.%d", &a, &b); c->flag[a] = b; }
        n = split(tok[6], ',', parts, 64);
        c->nhdr = n;
        for(int i = 0; i < n; i++) c->hdr[i] = zh_unhex(parts[i], &c->hdrlen[i]);
        c->body = zh_unhex(tok[7], &c->nbody);
        size_t trunc = (size_t)-1;
        n = split(tok[9], ',', parts, 16);
        for(int i = 0; i < n; i++) {
            if(strncmp(parts[i], "trunc", 5) == 0) trunc = strtoul(parts[i] + 5, NULL, 10);
            else if(strcmp(parts[i], "clr") == 0) c->clr = 1;
            else if(strcmp(parts[i], "auto") == 0) c->autor = 1;
            else if(strncmp(parts[i], "fault=", 6) == 0) snprintf(c->fault, sizeof(c->fault), "%s", parts[i] + 6);
        }
        c->ninit = c->doff + pos;
        c->init = malloc(c->ninit + 1);
        for(int i = 0; i < c->doff; i++) c->init[i] = (unsigned char)((i * 131 + 17) & 255);
        for(int i = 0; i < c->nch; i++) {
            if(c->flag0[i] == 1) memcpy(c->init + c->doff + c->start[i], c->data[i], c->len[i]);
            else memset(c->init + c->doff + c->start[i], 0xee, c->len[i]);
        }
        if(trunc < c->ninit) c->ninit = trunc;
        zres *r = malloc(sizeof(zres)), *b = malloc(sizeof(zres));
        char *ps = tok[8];
        if(session) {
            /* what may be filled: every chunk that is missing at the start and has bytes */
            c->nridx = 0;
            /* ... plus, when the session re-scans the target (step r: flags recomputed from the file, failed -> missing),
               every chunk that was flagged failed from the start */
            int rescans = strchr(ps, 'r') != NULL;
            for(int i = 0; i < c->nch; i++)
                if(c->len[i] > 0 && (c->flag0[i] == 0 || (rescans && c->flag0[i] == 2))) c->ridx[c->nridx++] = i;
            run_session(c, ps, r);
            printf("%s\n", r->line);
        } else if(strcmp(ps, "all1") == 0 || strcmp(ps, "all2") == 0) {
            run_partition(c, NULL, 0, b);
            long total = 0, agree = 0; char first[9000] = "";
            size_t cuts[2];
            for(size_t a = 1; a < c->nbody; a++) {
                cuts[0] = a;
                run_partition(c, cuts, 1, r);
                total++;
                if(strcmp(r->key, b->key) == 0) agree++;
                else if(!first[0]) snprintf(first, sizeof(first), "%zu:%s", a, r->line);
            }
            if(strcmp(ps, "all2") == 0)
                for(size_t a = 1; a < c->nbody; a++)
                    for(size_t bb = a + 1; bb < c->nbody; bb++) {
                        cuts[0] = a; cuts[1] = bb;
                        run_partition(c, cuts, 2, r);
                        total++;
                        if(strcmp(r->key, b->key) == 0) agree++;
                        else if(!first[0]) snprintf(first, sizeof(first), "%zu.%zu:%s", a, bb, r->line);
                    }
            printf("B[%s] N=%ld AG=%ld D[%s]\n", b->line, total, agree, first);
        } else {
            size_t *cuts = malloc(sizeof(size_t) * (c->nbody + 2)); int nc = 0;
            if(ps[0] == 'k') {
                size_t k = strtoul(ps + 1, NULL, 10);
                for(size_t p = k; k > 0 && p < c->nbody; p += k) cuts[nc++] = p;
            } else if(ps[0] == 'c') {
                char *cp[4096]; int m = split(ps + 1, '.', cp, 4096);
                for(int i = 0; i < m; i++) { size_t v = strtoul(cp[i], NULL, 10); if(v > 0 && v < c->nbody) cuts[nc++] = v; }
                /* sort + unique */
                for(int i = 1; i < nc; i++) for(int j = i; j > 0 && cuts[j-1] > cuts[j]; j--) { size_t t = cuts[j]; cuts[j] = cuts[j-1]; cuts[j-1] = t; }
                int u = 0; for(int i = 0; i < nc; i++) if(u == 0 || cuts[u-1] != cuts[i]) cuts[u++] = cuts[i];
                nc = u;
            }
            run_partition(c, cuts, nc, r);
            printf("%s\n", r->line);
            free(cuts);
        }
        fflush(stdout);
        for(int i = 0; i < c->nch; i++) free(c->data[i]);
        for(int i = 0; i < c->nhdr; i++) free(c->hdr[i]);
        free(c->body); free(c->init); free(c); free(r); free(b); free(copy);
    }
    return 0;
}
