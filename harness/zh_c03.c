/* C03: public API call sequences on arbitrary bytes offered as a zchunk file, run under
   ASan/UBSan with a watchdog.  One case per line:
     F <file hex> <src hex|-> <ops>
   ops: comma list: r<size> read to end with that buffer size | p<size> one zck_read | v validate_checksums |
        d validate_data_checksum | f find_valid_chunks | g<k> chunk data | c<k> stored chunk data |
        m missing range + range string | l lengths | k copy chunks from src | h hashdb |
        q zck_close | i iterate getters                                                  */
#include "zh_common.h"
#include <zck.h>

static void on_alarm(int s) { (void)s; printf("HANG\n"); fflush(stdout); _exit(98); }

static zckChunk *nth(zckCtx *zck, long k) {
    zckChunk *c = zck_get_first_chunk(zck);
    while(c && k-- > 0) c = zck_get_next_chunk(c);
    return c;
}

int main(void) {
    zck_set_log_level(ZCK_LOG_NONE);
    zh_apply_limits();
    signal(SIGALRM, on_alarm);
    char *line;
    while((line = zh_readline(stdin))) {
        char *fh = malloc(strlen(line) + 1), *sh = malloc(strlen(line) + 1), *ops = malloc(strlen(line) + 1);
        if(sscanf(line, "F %s %s %s", fh, sh, ops) != 3) { printf("BADCASE\n"); fflush(stdout); continue; }
        alarm(20);
        size_t n, sn = 0; unsigned char *raw = zh_unhex(fh, &n);
        int fd = zh_memfd(raw, n); free(raw);
        zckCtx *zck = zck_create(), *src = NULL; int sfd = -1;
        int opened = zck_init_read(zck, fd);
        if(strcmp(sh, "-")) {
            unsigned char *sraw = zh_unhex(sh, &sn);
            sfd = zh_memfd(sraw, sn); free(sraw);
            src = zck_create();
            if(!zck_init_read(src, sfd)) { zck_free(&src); src = NULL; }
        }
        printf("open=%d", opened);
        char *save = NULL;
        for(char *o = strtok_r(ops, ",", &save); o && opened; o = strtok_r(NULL, ",", &save)) {
            long a = atol(o + 1);
            switch(o[0]) {
            case 'r': {
                size_t bs = a > 0 ? (size_t)a : 1; char *buf = malloc(bs); ssize_t r; size_t tot = 0; long calls = 0;
                while((r = zck_read(zck, buf, bs)) > 0 && calls++ < 2000000) tot += r;
                printf(" r=%zd/%zu", r, tot); free(buf); break; }
            case 'p': {   /* one zck_read call (may stop inside a chunk) */
                size_t bs = a > 0 ? (size_t)a : 1; char *buf = malloc(bs);
                printf(" p=%zd", zck_read(zck, buf, bs)); free(buf); break; }
            case 'v': printf(" v=%d", zck_validate_checksums(zck)); break;
            case 'd': printf(" d=%d", zck_validate_data_checksum(zck)); break;
            case 'f': printf(" f=%d", zck_find_valid_chunks(zck)); break;
            case 'g': case 'c': {
                zckChunk *c = nth(zck, a);
                if(!c) { printf(" %c=nochunk", o[0]); break; }
                ssize_t want = o[0] == 'g' ? zck_get_chunk_size(c) : zck_get_chunk_comp_size(c);
                size_t bs = want < 0 ? 16 : (want > (1 << 20) ? (1 << 20) : (size_t)want);
                char *buf = malloc(bs ? bs : 1);
                ssize_t r = o[0] == 'g' ? zck_get_chunk_data(c, buf, bs) : zck_get_chunk_comp_data(c, buf, bs);
                printf(" %c=%zd", o[0], r); free(buf); break; }
            case 'm': {
                zckRange *rg = zck_get_missing_range(zck, (int)a - 1);
                if(rg) { char *s = zck_get_range_char(zck, rg); printf(" m=%d/%zu", zck_get_range_count(rg), s ? strlen(s) : 0); free(s); zck_range_free(&rg); }
                else printf(" m=null");
                break; }
            case 'l': printf(" l=%zd/%zd/%zd", zck_get_data_length(zck), zck_get_length(zck), zck_get_chunk_count(zck)); break;
            case 'k': if(src) printf(" k=%d", zck_copy_chunks(src, zck)); else printf(" k=nosrc"); break;
            case 'h': printf(" h=%d", src ? zck_find_matching_chunks(src, zck) : -1); break;
            case 'x': printf(" x=%d", src ? zck_find_matching_chunks(zck, src) : -1); break;   /* the pairing the other way round */
            case 'q': printf(" q=%d", zck_close(zck)); break;
            case 'i': {
                long cnt = 0; for(zckChunk *c = zck_get_first_chunk(zck); c; c = zck_get_next_chunk(c)) {
                    char *d = zck_get_chunk_digest(c); free(d); cnt += zck_get_chunk_valid(c) != 2; (void)zck_get_chunk_start(c); }
                printf(" i=%ld", cnt); break; }
            default: printf(" ?");
            }
        }
        printf("\n"); fflush(stdout);
        zck_free(&zck); if(src) zck_free(&src);
        close(fd); if(sfd >= 0) close(sfd);
        alarm(0);
        free(fh); free(sh); free(ops);
    }
    return 0;
}
