/* C09: validity scan.  One case per line:
     S <file hex> <ops>
   The bytes are stored in a temp file that is then re-opened READ-ONLY (a write through the
   library's descriptor would fail), the header is read through the public API, and the ops
   (a string over v = zck_validate_checksums, d = zck_validate_data_checksum,
   f = zck_find_valid_chunks, r = read to end with zck_read) are applied in order.
   After every op: return value, the valid flag of every chunk, and the reader-visible state
   (file position, check_full_hash open?, check_chunk_hash open?).  For r: last return code of
   zck_read, total bytes, sha256 of the content.  At the end: sha256 + length of the file as it
   is on disk now.
     open=1 n=3 p=309,1,0 v=1[1,1,1]p=309,1,0 r=0/12/ab12..[1,1,1]p=321,0,0 end=<sha256>/<len> */
#include "zh_common.h"
#include <zck.h>
#include "zck_private.h"
#include <openssl/sha.h>

static void on_alarm(int s) { (void)s; printf("HANG\n"); fflush(stdout); _exit(98); }

static void flags(zckCtx *zck) {
    printf("[");
    int first = 1;
    /* the table itself (the getters refuse to answer once the context is in an error state) */
    for(zckChunk *c = zck->index.first; c; c = c->next) {
        printf("%s%d", first ? "" : ",", c->valid);
        first = 0;
    }
    printf("]");
}
static void state(zckCtx *zck, int fd) {
    printf("p=%lld,%d,%d", (long long)lseek(fd, 0, SEEK_CUR), zck->check_full_hash.ctx != NULL,
           zck->check_chunk_hash.ctx != NULL);
}
static void sha_hex(const unsigned char *d) { for(int i = 0; i < 32; i++) printf("%02x", d[i]); }

int main(void) {
    zck_set_log_level(ZCK_LOG_NONE);
    zh_apply_limits();
    signal(SIGALRM, on_alarm);
    char *line;
    const char *dir = getenv("ZH_TMP");
    while((line = zh_readline(stdin))) {
        char *fh = malloc(strlen(line) + 1), *ops = malloc(strlen(line) + 1);
        if(sscanf(line, "S %s %s", fh, ops) != 2) { printf("BADCASE\n"); fflush(stdout); free(fh); free(ops); continue; }
        alarm(30);
        size_t n; unsigned char *raw = zh_unhex(fh, &n);
        char path[4096];
        snprintf(path, sizeof(path), "%s/zh9XXXXXX", dir ? dir : "/tmp");
        int wfd = mkstemp(path);
        if(wfd < 0) { perror("mkstemp"); exit(2); }
        size_t off = 0;
        while(off < n) { ssize_t w = write(wfd, raw + off, n - off); if(w <= 0) { perror("write"); exit(2); } off += w; }
        close(wfd);
        free(raw);
        int fd = open(path, O_RDONLY);
        zckCtx *zck = zck_create();
        int opened = zck_init_read(zck, fd);
        printf("open=%d", opened);
        if(opened) {
            printf(" n=%zd ", zck_get_chunk_count(zck)); state(zck, fd);
            for(char *o = ops; *o; o++) {
                switch(*o) {
                case 'v': printf(" v=%d", zck_validate_checksums(zck)); break;
                case 'd': printf(" d=%d", zck_validate_data_checksum(zck)); break;
                case 'f': printf(" f=%d", zck_find_valid_chunks(zck)); break;
                case 'r': {
                    char *buf = malloc(4096); ssize_t r; size_t tot = 0; long calls = 0;
                    SHA256_CTX sc; SHA256_Init(&sc);
                    while((r = zck_read(zck, buf, 4096)) > 0 && calls++ < 4000000) { SHA256_Update(&sc, buf, r); tot += r; }
                    unsigned char dg[32]; SHA256_Final(dg, &sc);
                    printf(" r=%zd/%zu/", r, tot); sha_hex(dg);
                    /* the verdict of a full read is given by zck_close (data checksum): taken when the read
                       is the last operation of the sequence and the only read in it */
                    if(o[1] == 0 && strchr(ops, 'r') == o) printf("/c%d", r == 0 ? zck_close(zck) : 0);
                    free(buf); break; }
                case '-': continue;
                default: printf(" ?");
                }
                flags(zck); state(zck, fd);
            }
        }
        /* the file as it is now */
        {
            int cfd = open(path, O_RDONLY); SHA256_CTX sc; SHA256_Init(&sc);
            unsigned char b[65536]; ssize_t r; size_t tot = 0;
            while((r = read(cfd, b, sizeof b)) > 0) { SHA256_Update(&sc, b, r); tot += r; }
            unsigned char dg[32]; SHA256_Final(dg, &sc); close(cfd);
            printf(" end="); sha_hex(dg); printf("/%zu", tot);
        }
        printf("\n"); fflush(stdout);
        zck_free(&zck);
        close(fd); unlink(path);
        alarm(0);
        free(fh); free(ops);
    }
    return 0;
}
