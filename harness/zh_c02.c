/* C02 / C15 / C14: reader-side call sequences against the real library (ASan/UBSan build).
   One case per line:
     F <file hex> <ops>
   ops, comma separated:
     R<s1>:<s2>:...  zck_read until a call returns 0 or an error, cycling through the buffer sizes
     r<size>         one zck_read
     q               zck_close
     g<k>            zck_get_chunk_data of chunk k with a buffer of the declared (uncompressed) size
     G<k>:<size>     the same with a given buffer size
     P<k>:<size>     as G, and prints a 4th field: sha256/64 of the first min(returned, declared size)
                     bytes, the part that belongs to the requested chunk
     c<k>            zck_get_chunk_comp_data of chunk k with a buffer of the stored size
     M<hex>          open the file given in hex as a second context (kept open to the end of the case) and
                     pair the two: zck_find_matching_chunks(other, this) and (this, other); prints M=<r1><r2>
                     or M=noopen.  Pairing marks chunks valid from an index comparison alone - reads and
                     requests afterwards must behave exactly as without it
     (a line "T <sample size> <capacity> <samples hex>" trains a zstd-format dictionary and prints dict=<hex>)
   Output: open=<0|1> then per op  <op>=<return value>/<bytes handed out by successful calls>/<sha256/64 of them>!<error state>
   (for R the bytes are those returned by all successful calls BEFORE the terminating 0 or error). */
#include "zh_common.h"
#include <zck.h>
#include <openssl/evp.h>
#include <zdict.h>

static void on_alarm(int s) { (void)s; printf(" HANG\n"); fflush(stdout); _exit(98); }

static zckChunk *nth(zckCtx *zck, long k) {
    zckChunk *c = zck_get_first_chunk(zck);
    while(c && k-- > 0) c = zck_get_next_chunk(c);
    return c;
}

static void h16(EVP_MD_CTX *ctx, char *out) {
    unsigned char d[EVP_MAX_MD_SIZE]; unsigned int n = 0;
    EVP_DigestFinal_ex(ctx, d, &n);
    for(int i = 0; i < 8; i++) sprintf(out + 2 * i, "%02x", d[i]);
}

static void hash_one(const void *p, size_t n, char *out) {
    EVP_MD_CTX *ctx = EVP_MD_CTX_new();
    EVP_DigestInit_ex(ctx, EVP_sha256(), NULL);
    if(n) EVP_DigestUpdate(ctx, p, n);
    h16(ctx, out);
    EVP_MD_CTX_free(ctx);
}

int main(void) {
    zck_set_log_level(ZCK_LOG_NONE);
    zh_apply_limits();
    signal(SIGALRM, on_alarm);
    char *line;
    while((line = zh_readline(stdin))) {
        char *fh = malloc(strlen(line) + 1), *ops = malloc(strlen(line) + 1);
        /* T <sample size> <capacity> <hex of equally sized samples>: train a zstd dictionary
           (a dictionary in zstd's own format, as zck_gen_zdict produces) */
        if(line[0] == 'T') {
            size_t ss = 0, cap = 0, n;
            if(sscanf(line, "T %zu %zu %s", &ss, &cap, fh) != 3 || ss == 0) { printf("BADCASE\n"); fflush(stdout); free(fh); free(ops); continue; }
            unsigned char *raw = zh_unhex(fh, &n);
            unsigned ns = (unsigned)(n / ss); size_t *sizes = malloc(sizeof(size_t) * (ns + 1));
            for(unsigned i = 0; i < ns; i++) sizes[i] = ss;
            char *d = malloc(cap);
            size_t r = ZDICT_trainFromBuffer(d, cap, raw, sizes, ns);
            if(ZDICT_isError(r)) printf("dict=ERR %s\n", ZDICT_getErrorName(r));
            else { printf("dict="); zh_puthex(stdout, d, r); printf(" hs=%zu\n", ZDICT_getDictHeaderSize(d, r)); }
            fflush(stdout); free(raw); free(sizes); free(d); free(fh); free(ops); continue;
        }
        if(sscanf(line, "F %s %s", fh, ops) != 2) { printf("BADCASE\n"); fflush(stdout); free(fh); free(ops); continue; }
        alarm(60);
        size_t n; unsigned char *raw = zh_unhex(fh, &n);
        int fd = zh_memfd(raw, n); free(raw);
        zckCtx *zck = zck_create();
        int opened = zck_init_read(zck, fd);
        printf("open=%d", opened);
        char *save = NULL, hx[17];
        zckCtx *others[8]; int ofds[8]; int nothers = 0;
        for(char *o = strtok_r(ops, ",", &save); o && opened; o = strtok_r(NULL, ",", &save)) {
            switch(o[0]) {
            case 'R': {
                size_t sizes[64]; int ns = 0;
                for(char *p = o + 1; *p && ns < 64; ) { sizes[ns++] = strtoull(p, &p, 10); if(*p == ':') p++; }
                if(ns == 0) { sizes[0] = 32768; ns = 1; }
                size_t mx = 1; for(int i = 0; i < ns; i++) if(sizes[i] > mx) mx = sizes[i];
                char *buf = malloc(mx);
                EVP_MD_CTX *ctx = EVP_MD_CTX_new(); EVP_DigestInit_ex(ctx, EVP_sha256(), NULL);
                ssize_t r; size_t tot = 0; long calls = 0;
                while((r = zck_read(zck, buf, sizes[calls % ns])) > 0) {
                    EVP_DigestUpdate(ctx, buf, r); tot += r;
                    if(++calls > 50000000) break;
                }
                h16(ctx, hx); EVP_MD_CTX_free(ctx);
                printf(" R=%zd/%zu/%s!%d", r, tot, hx, zck_is_error(zck)); free(buf); break; }
            case 'r': {
                size_t bs = strtoull(o + 1, NULL, 10); char *buf = malloc(bs ? bs : 1);
                ssize_t r = zck_read(zck, buf, bs);
                hash_one(buf, r > 0 ? (size_t)r : 0, hx);
                printf(" r=%zd/%zu/%s!%d", r, r > 0 ? (size_t)r : 0, hx, zck_is_error(zck)); free(buf); break; }
            case 'q': printf(" q=%d!%d", zck_close(zck), zck_is_error(zck)); break;
            case 'v': printf(" v=%d!%d", zck_validate_checksums(zck), zck_is_error(zck)); break;
            case 'f': printf(" f=%d!%d", zck_find_valid_chunks(zck), zck_is_error(zck)); break;
            case 'e': printf(" e=%d!%d", zck_clear_error(zck) ? 1 : 0, zck_is_error(zck)); break;
            case 'M': {
                size_t on; unsigned char *oraw = zh_unhex(o + 1, &on);
                int ofd = zh_memfd(oraw, on); free(oraw);
                zckCtx *oth = zck_create();
                if(nothers >= 8 || !zck_init_read(oth, ofd)) { printf(" M=noopen"); zck_free(&oth); close(ofd); break; }
                others[nothers] = oth; ofds[nothers++] = ofd;
                int r1 = zck_find_matching_chunks(oth, zck) ? 1 : 0;
                int r2 = zck_find_matching_chunks(zck, oth) ? 1 : 0;
                printf(" M=%d%d", r1, r2); break; }
            case 'g': case 'c': case 'G': case 'P': {
                char *p; long k = strtol(o + 1, &p, 10);
                zckChunk *c = nth(zck, k);
                if(!c) { printf(" %c=nochunk", o[0]); break; }
                ssize_t want = o[0] == 'c' ? zck_get_chunk_comp_size(c) : zck_get_chunk_size(c);
                if((o[0] == 'G' || o[0] == 'P') && *p == ':') want = (ssize_t)strtoull(p + 1, NULL, 10);
                size_t bs = want < 0 ? 0 : (size_t)want;
                char *buf = malloc(bs ? bs : 1);
                ssize_t r = o[0] == 'c' ? zck_get_chunk_comp_data(c, buf, bs) : zck_get_chunk_data(c, buf, bs);
                hash_one(buf, r > 0 ? (size_t)r : 0, hx);
                printf(" %c=%zd/%zu/%s", o[0], r, r > 0 ? (size_t)r : 0, hx);
                if(o[0] == 'P') {   /* also the part that belongs to the requested chunk: the first <declared size> bytes */
                    ssize_t decl = zck_get_chunk_size(c); size_t pre = r > 0 ? (size_t)r : 0;
                    if(decl >= 0 && pre > (size_t)decl) pre = (size_t)decl;
                    char hp[17]; hash_one(buf, pre, hp); printf("/%s", hp);
                }
                printf("!%d", zck_is_error(zck)); free(buf); break; }
            default: printf(" ?");
            }
        }
        printf("\n"); fflush(stdout);
        zck_free(&zck);
        for(int j = 0; j < nothers; j++) { zck_free(&others[j]); close(ofds[j]); }
        close(fd);
        alarm(0);
        free(fh); free(ops);
    }
    return 0;
}
