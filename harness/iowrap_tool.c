/* linked into the command-line tools for the C12 tool-level fault runs */
#include "iowrap.h"
__attribute__((constructor)) static void zh_init(void) { zh_fault_env(); }
