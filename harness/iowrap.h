/* read/write/lseek wrappers (link with -Wl,--wrap=read,--wrap=write,--wrap=lseek):
   the k-th armed call of one operation fails with an errno or transfers a short count.
   Configured through zh_fault_* or the environment ZH_FAULT=<op>:<k>:<kind>[:<short>]
   op = read|write|lseek, kind = eio|enospc|eintr|short.  Calls on fds 0-2 are never counted.
   kind = kill (write only): the k-th armed write transfers <short> bytes (all of them when <short>
   is not smaller than the request, half of them when <short> is -1) and the process then dies
   with _exit(137) - an interruption of the program after that many bytes reached the file. */
#ifndef IOWRAP_H
#define IOWRAP_H
#include <unistd.h>
#include <errno.h>
#include <string.h>
#include <stdlib.h>
#include <stdio.h>

ssize_t __real_read(int fd, void *buf, size_t n);
ssize_t __real_write(int fd, const void *buf, size_t n);
off_t __real_lseek(int fd, off_t off, int whence);

int zh_armed = 0;
int zh_fault_op = -1;       /* 0 read 1 write 2 lseek */
long zh_fault_k = 0;
int zh_fault_kind = 0;      /* 1 EIO 2 ENOSPC 3 EINTR 4 short */
long zh_fault_short = 1;
long zh_count[3] = {0, 0, 0};
int zh_fired = 0;
/* optional trace of armed write calls */
typedef void (*zh_trace_fn)(int op, int fd, const void *buf, size_t n, ssize_t ret);
zh_trace_fn zh_trace = NULL;

static void zh_fault_env(void) {
    const char *e = getenv("ZH_FAULT");
    if(!e) return;
    char op[16], kind[16]; long k, sh = 1;
    int n = sscanf(e, "%15[^:]:%ld:%15[^:]:%ld", op, &k, kind, &sh);
    if(n < 3) return;
    zh_fault_op = !strcmp(op, "read") ? 0 : !strcmp(op, "write") ? 1 : 2;
    zh_fault_k = k;
    zh_fault_kind = !strcmp(kind, "eio") ? 1 : !strcmp(kind, "enospc") ? 2 : !strcmp(kind, "eintr") ? 3 : !strcmp(kind, "kill") ? 5 : 4;
    zh_fault_short = sh;
    zh_armed = 1;
}
static void zh_fault_reset(void) { zh_count[0] = zh_count[1] = zh_count[2] = 0; zh_fired = 0; }

/* a second fault of a run (environment ZH_FAULT2, same syntax; used for the tools, whose only interface is the
   environment): when its call comes up, its kind and count stand in for the first one's */
static int zh2_op = -1, zh2_kind = 0, zh1_kind = 0, zh2_init = 0; static long zh2_k = 0, zh2_short = 1, zh1_short = 1;
static void zh_fault2_env(void) {
    zh2_init = 1; zh1_kind = zh_fault_kind; zh1_short = zh_fault_short;
    const char *e = getenv("ZH_FAULT2");
    if(!e) return;
    char op[16], kind[16]; long k, sh = 1;
    if(sscanf(e, "%15[^:]:%ld:%15[^:]:%ld", op, &k, kind, &sh) < 3) return;
    zh2_op = !strcmp(op, "read") ? 0 : !strcmp(op, "write") ? 1 : 2;
    zh2_k = k; zh2_short = sh;
    zh2_kind = !strcmp(kind, "eio") ? 1 : !strcmp(kind, "enospc") ? 2 : !strcmp(kind, "eintr") ? 3 : 4;
}

static int zh_hit(int op, int fd) {
    if(!zh_armed || fd <= 2) return 0;
    if(!zh2_init) zh_fault2_env();
    zh_count[op]++;
    if(op == zh_fault_op && zh_count[op] == zh_fault_k) {
        zh_fired = 1;
        if(zh2_op >= 0) { zh_fault_kind = zh1_kind; zh_fault_short = zh1_short; }
        return 1;
    }
    if(zh2_op >= 0 && op == zh2_op && zh_count[op] == zh2_k) { zh_fired = 1; zh_fault_kind = zh2_kind; zh_fault_short = zh2_short; return 1; }
    return 0;
}
static int zh_errno_of(void) { return zh_fault_kind == 1 ? EIO : zh_fault_kind == 2 ? ENOSPC : EINTR; }

ssize_t __wrap_read(int fd, void *buf, size_t n) {
    ssize_t r;
    if(zh_hit(0, fd)) {
        if(zh_fault_kind != 4) { errno = zh_errno_of(); r = -1; }
        else { size_t m = (size_t)zh_fault_short < n ? (size_t)zh_fault_short : n; r = __real_read(fd, buf, m); }
    } else r = __real_read(fd, buf, n);
    if(zh_trace && zh_armed && fd > 2) zh_trace(0, fd, buf, n, r);
    return r;
}
ssize_t __wrap_write(int fd, const void *buf, size_t n) {
    ssize_t r;
    if(zh_hit(1, fd)) {
        if(zh_fault_kind == 5) {
            size_t m = zh_fault_short < 0 ? n / 2 : ((size_t)zh_fault_short < n ? (size_t)zh_fault_short : n);
            if(m > 0) __real_write(fd, buf, m);
            _exit(137);
        }
        if(zh_fault_kind != 4) { errno = zh_errno_of(); r = -1; }
        else { size_t m = (size_t)zh_fault_short < n ? (size_t)zh_fault_short : n; r = __real_write(fd, buf, m); }
    } else r = __real_write(fd, buf, n);
    if(zh_trace && zh_armed && fd > 2) zh_trace(1, fd, buf, n, r);
    return r;
}
off_t __wrap_lseek(int fd, off_t off, int whence) {
    if(zh_hit(2, fd)) { errno = zh_errno_of(); return (off_t)-1; }
    return __real_lseek(fd, off, whence);
}
/* with _FILE_OFFSET_BITS=64 the library's lseek calls are lseek64 */
off_t __real_lseek64(int fd, off_t off, int whence);
off_t __wrap_lseek64(int fd, off_t off, int whence) {
    if(zh_hit(2, fd)) { errno = zh_errno_of(); return (off_t)-1; }
    return __real_lseek64(fd, off, whence);
}
#endif
