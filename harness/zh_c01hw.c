/* C01hw: write a file with the REAL library (zck_init_write, options, zck_write /
 * zck_end_chunk per fragment, zck_close) and print its bytes; then re-open it with the real
 * reader, validate the checksums and read the content back.
 *
 * case:   W <hash type> <chunk hash type> <uorder 0|1|2> <dict hex|-> <frag,frag,..|->
 *         uorder 0 = no ZCK_UNCOMP_HEADER, 1 = set before ZCK_HASH_CHUNK_TYPE,
 *         2 = set after it; compression type none, manual chunking; "-" = empty fragment
 * result: OK hl=<zck_get_header_length> file=<hex> | REAL read=<0|1> n=<index count>
 *         ERR <stage>
 */
#include "zh_common.h"
#include <zck.h>

static unsigned char *unhex_or_empty(const char *s, size_t *n) {
    if(strcmp(s, "-") == 0) { *n = 0; return calloc(1, 1); }
    return zh_unhex(s, n);
}

int main(void) {
    zck_set_log_level(ZCK_LOG_NONE);
    char *line;
    while((line = zh_readline(stdin))) {
        char *save = NULL;
        char *f[6]; int nf = 0;
        for(char *t = strtok_r(line, " ", &save); t && nf < 6; t = strtok_r(NULL, " ", &save)) f[nf++] = t;
        if(nf != 6 || strcmp(f[0], "W") != 0) { printf("BADCASE\n"); fflush(stdout); continue; }
        int ht = atoi(f[1]), cht = atoi(f[2]), uo = atoi(f[3]);
        size_t dlen = 0;
        unsigned char *dict = unhex_or_empty(f[4], &dlen);
        int has_dict = strcmp(f[4], "-") != 0;
        char *frags = strdup(f[5]);
        const char *stage = "init";
        unsigned char *content = malloc(strlen(frags) + 1); size_t clen = 0;

        int fd = zh_memfd("", 0);
        zckCtx *zck = zck_create();
        int bad = 0;
        if(!zck_init_write(zck, fd)) bad = 1;
        stage = "option";
        if(!bad && !zck_set_ioption(zck, ZCK_COMP_TYPE, ZCK_COMP_NONE)) bad = 1;
        if(!bad && !zck_set_ioption(zck, ZCK_MANUAL_CHUNK, 1)) bad = 1;
        if(!bad && !zck_set_ioption(zck, ZCK_HASH_FULL_TYPE, ht)) bad = 1;
        if(!bad && uo == 1 && !zck_set_ioption(zck, ZCK_UNCOMP_HEADER, 1)) bad = 1;
        if(!bad && !zck_set_ioption(zck, ZCK_HASH_CHUNK_TYPE, cht)) bad = 1;
        if(!bad && uo == 2 && !zck_set_ioption(zck, ZCK_UNCOMP_HEADER, 1)) bad = 1;
        if(!bad && has_dict && !zck_set_soption(zck, ZCK_COMP_DICT, (const char*)dict, dlen)) bad = 1;
        if(bad) { printf("ERR %s\n", stage); goto done; }

        if(strcmp(frags, "-") != 0) {
            /* strtok would skip nothing here: fragments are never empty strings ("-" stands
               for the empty fragment) */
            char *s2 = NULL;
            for(char *t = strtok_r(frags, ",", &s2); t; t = strtok_r(NULL, ",", &s2)) {
                size_t n; unsigned char *b = unhex_or_empty(t, &n);
                stage = "write";
                if(zck_write(zck, (const char*)b, n) != (ssize_t)n) { bad = 1; free(b); break; }
                memcpy(content + clen, b, n); clen += n;
                free(b);
                stage = "end_chunk";
                if(zck_end_chunk(zck) < 0) { bad = 1; break; }
            }
        }
        if(!bad) { stage = "close"; if(!zck_close(zck)) bad = 1; }
        if(bad) { printf("ERR %s\n", stage); goto done; }
        ssize_t hl = zck_get_header_length(zck);
        zck_free(&zck);
        {
            off_t size = lseek(fd, 0, SEEK_END);
            unsigned char *all = malloc(size + 1);
            lseek(fd, 0, SEEK_SET);
            size_t got = 0;
            while(got < (size_t)size) { ssize_t r = read(fd, all + got, size - got); if(r <= 0) break; got += r; }
            printf("OK hl=%zd file=", hl);
            if(got == 0) printf("-"); else zh_puthex(stdout, all, got);
            free(all);
            /* the real reader on the real file */
            lseek(fd, 0, SEEK_SET);
            zckCtx *rd = zck_create();
            int rok = 1; long cnt = -1;
            if(!zck_init_read(rd, fd)) rok = 0;
            if(rok) {
                cnt = zck_get_chunk_count(rd);
                unsigned char *buf = malloc(clen + 2);
                size_t g = 0;
                while(g < clen) { ssize_t r = zck_read(rd, (char*)buf + g, clen - g); if(r <= 0) { rok = 0; break; } g += r; }
                if(rok) { char extra; if(zck_read(rd, &extra, 1) != 0) rok = 0; }
                if(rok && memcmp(buf, content, clen) != 0) rok = 0;
                free(buf);
                if(rok && !zck_close(rd)) rok = 0;   /* validates the data checksum */
            }
            printf(" | REAL read=%d n=%ld\n", rok, cnt);
            zck_free(&rd);
        }
done:
        fflush(stdout);
        if(zck) zck_free(&zck);
        close(fd);
        free(dict); free(frags); free(content);
    }
    return 0;
}
