/* C19: N threads, each driving ITS OWN contexts through a full scenario (write two zchunk files,
 * read one back, validate checksums, copy chunks from a private source into a private target,
 * feed a multipart download response through zck_write_chunk_cb, provoke the unknown-type error
 * paths) on thread-private files.  Every thread's observations are compared with the serial
 * baseline computed first in the same process.
 *
 * stdin, one case per line; one result line per case:
 *   RUN <nthreads> <seed> <reps> <mask>     mask: 1 write/read  2 copy  4 download  8 error paths
 *        -> "OK n=.. reps=.. base=<digest of the serial records>"  |  "DIFF rep=.. thread=.. field=.. serial=.. concurrent=.."
 *   FORCED <seed>                           two threads, copy phase, schedule forced through the
 *        wrapped read()/write(): A reads a block (and hashes it), B reads a block, A writes, B writes
 *        -> "FORCED realised=<0|1> SAME" | "FORCED realised=<0|1> DIFF thread=.. field=.. serial=.. concurrent=.."
 *   RACE                                    detector self-test: a deliberate race inside the harness
 *        -> "RACE done 1"
 *
 * Linked with -Wl,--wrap=read,--wrap=write: inside RUN the wrappers add random yields between the
 * library's read and write system calls (not under serial baseline), inside FORCED they impose the
 * witness schedule of Conc/Interleave.v [witness_schedule]. */
#include "zh_common.h"
#include <pthread.h>
#include <semaphore.h>
#include <sched.h>
#include <time.h>
#include <stdbool.h>
#include <stdarg.h>
#include <openssl/sha.h>
#include <zck.h>
#include "zck_private.h"

#define MAXT 64
#define SC_WRITE 1
#define SC_COPY 2
#define SC_DL 4
#define SC_ERR 8

/* ---------------------------------------------------------------- wrapped system calls */
ssize_t __real_read(int fd, void *buf, size_t n);
ssize_t __real_write(int fd, const void *buf, size_t n);

static volatile int g_mode = 0;                 /* 0 pass-through, 1 jitter, 2 forced */
static __thread uint64_t t_rng = 0;             /* per-thread generator for the jitter */
static __thread int t_tid = -1;

/* forced schedule (threads 0 = A and 1 = B); the descriptors are published before arming */
static volatile int f_src[2] = {-1, -1}, f_tgt[2] = {-1, -1};
static volatile int f_armed[2] = {0, 0};
static int f_first_read[2], f_first_write[2];   /* each touched by its own thread only */
static sem_t s_a_at_write, s_b_at_write, s_a_done;
static volatile int f_timeouts = 0;

static uint64_t xs(uint64_t *s) {
    uint64_t x = *s; x ^= x << 13; x ^= x >> 7; x ^= x << 17; *s = x; return x;
}

static void timed_wait(sem_t *s) {
    struct timespec ts;
    clock_gettime(CLOCK_REALTIME, &ts);
    ts.tv_sec += 5;
    while(sem_timedwait(s, &ts) != 0) {
        if(errno == EINTR) continue;
        __sync_fetch_and_add(&f_timeouts, 1);
        return;
    }
}

static void jitter(void) {
    if(g_mode != 1 || t_tid < 0) return;
    uint64_t r = xs(&t_rng);
    if((r & 3) == 0) sched_yield();
    else if((r & 63) == 1) { struct timespec ts = {0, (long)((r >> 8) % 200000)}; nanosleep(&ts, NULL); }
}

/* forced schedule = Conc/Interleave.v [witness_schedule], continued to the end of both copies:
 *   A reads block 1 (and hashes it) . B reads block 1 (and hashes it) . A writes block 1 .
 *   A finishes its whole copy . B writes block 1 . B finishes its copy
 * B's first read of its source waits until A has ARRIVED at the first write to its target; A's
 * write waits until B has arrived at ITS first write; B's write waits until A's copy is over. */
ssize_t __wrap_read(int fd, void *buf, size_t n) {
    if(g_mode == 2 && t_tid == 1 && f_armed[1] && fd == f_src[1] && !f_first_read[1]) {
        f_first_read[1] = 1;
        timed_wait(&s_a_at_write);
        return __real_read(fd, buf, n);
    }
    jitter();
    ssize_t r = __real_read(fd, buf, n);
    jitter();
    return r;
}

ssize_t __wrap_write(int fd, const void *buf, size_t n) {
    if(g_mode == 2 && t_tid >= 0 && t_tid < 2 && f_armed[t_tid] && fd == f_tgt[t_tid] && !f_first_write[t_tid]) {
        f_first_write[t_tid] = 1;
        if(t_tid == 0) {
            sem_post(&s_a_at_write);
            timed_wait(&s_b_at_write);
        } else {
            sem_post(&s_b_at_write);
            timed_wait(&s_a_done);
        }
        return __real_write(fd, buf, n);
    }
    jitter();
    ssize_t r = __real_write(fd, buf, n);
    jitter();
    return r;
}

/* ---------------------------------------------------------------- helpers */
typedef struct { char *p; size_t n, cap; } sbuf;
static void sb_add(sbuf *b, const char *fmt, ...) {
    va_list ap; char tmp[1024];
    va_start(ap, fmt); int k = vsnprintf(tmp, sizeof(tmp), fmt, ap); va_end(ap);
    if(k < 0) k = 0; if(k >= (int)sizeof(tmp)) k = sizeof(tmp) - 1;
    if(b->n + k + 1 > b->cap) { b->cap = (b->n + k + 1) * 2; b->p = realloc(b->p, b->cap); }
    memcpy(b->p + b->n, tmp, k); b->n += k; b->p[b->n] = 0;
}

static void sha_hex(const void *d, size_t n, char out[65]) {
    unsigned char md[SHA256_DIGEST_LENGTH];
    SHA256(d, n, md);
    for(int i = 0; i < SHA256_DIGEST_LENGTH; i++) sprintf(out + 2*i, "%02x", md[i]);
    out[64] = 0;
}

/* whole file through its own descriptor, with the unwrapped read */
static unsigned char *slurp(const char *path, size_t *len) {
    int fd = open(path, O_RDONLY);
    if(fd < 0) { *len = 0; return calloc(1, 1); }
    struct stat st; fstat(fd, &st);
    unsigned char *b = malloc(st.st_size + 1);
    size_t off = 0;
    while(off < (size_t)st.st_size) {
        ssize_t r = __real_read(fd, b + off, st.st_size - off);
        if(r <= 0) break;
        off += r;
    }
    close(fd);
    *len = off;
    return b;
}

static void file_sha(const char *path, char out[65]) {
    size_t n; unsigned char *b = slurp(path, &n);
    sha_hex(b, n, out);
    free(b);
}

static void spit(const char *path, const void *d, size_t n, off_t total) {
    int fd = open(path, O_WRONLY | O_CREAT | O_TRUNC, 0600);
    size_t off = 0;
    while(off < n) { ssize_t w = __real_write(fd, (const char*)d + off, n - off); if(w <= 0) break; off += w; }
    if(total >= 0 && ftruncate(fd, total) != 0) perror("ftruncate");
    close(fd);
}

/* ---------------------------------------------------------------- per-thread scenario */
typedef struct {
    int tid, mask, jit, forced;
    uint64_t seed, rep;
    char dir[512];
    sbuf rec;                     /* "field=value\n" lines */
} job;

#define NCHUNK_MAX 8
typedef struct { unsigned char *p; size_t n; } blob;

static blob gen_chunk(uint64_t *s) {
    blob b;
    b.n = 20000 + xs(s) % 70000;
    b.p = malloc(b.n);
    size_t i = 0;
    while(i < b.n) {                      /* runs and noise: compressible, but not trivially */
        uint64_t r = xs(s);
        size_t run = 1 + (r & 31);
        unsigned char c = (unsigned char)(r >> 8);
        int noisy = (r >> 16) & 1;
        for(size_t k = 0; k < run && i < b.n; k++, i++) b.p[i] = noisy ? (unsigned char)(xs(s) >> 11) : c;
    }
    return b;
}

static const int HASHES[4] = { ZCK_HASH_SHA256, ZCK_HASH_SHA512_128, ZCK_HASH_SHA1, ZCK_HASH_SHA512 };

static int write_zck(job *j, const char *tag, const char *path, blob *chunks, int n, sbuf *r) {
    int fd = open(path, O_RDWR | O_CREAT | O_TRUNC, 0600);
    zckCtx *z = zck_create();
    int ok = z && zck_init_write(z, fd);
    ok = ok && zck_set_ioption(z, ZCK_MANUAL_CHUNK, 1);
    ok = ok && zck_set_ioption(z, ZCK_HASH_CHUNK_TYPE, HASHES[(j->tid / 2) % 4]);
    if(j->tid % 2) ok = ok && zck_set_ioption(z, ZCK_COMP_TYPE, ZCK_COMP_NONE);
    long long wsum = 0, esum = 0;
    for(int i = 0; ok && i < n; i++) {
        /* several zck_write calls per chunk */
        size_t off = 0;
        while(off < chunks[i].n) {
            size_t k = chunks[i].n - off; if(k > 30000) k = 30000;
            ssize_t w = zck_write(z, (const char*)chunks[i].p + off, k);
            if(w < 0) { ok = 0; break; }
            wsum += w; off += k;
        }
        ssize_t e = zck_end_chunk(z);
        if(e < 0) ok = 0; else esum += e;
    }
    int cl = ok ? zck_close(z) : 0;
    sb_add(r, "%s.ok=%d\n%s.wsum=%lld\n%s.esum=%lld\n%s.close=%d\n", tag, ok, tag, wsum, tag, esum, tag, cl);
    if(z && !cl) sb_add(r, "%s.err=%s\n", tag, zck_get_error(z));
    if(z) zck_free(&z);
    close(fd);
    char h[65]; file_sha(path, h);
    sb_add(r, "%s.sha=%s\n", tag, h);
    return ok && cl;
}

static void read_back(job *j, const char *tag, const char *path, const unsigned char *want, size_t want_n, sbuf *r) {
    int fd = open(path, O_RDONLY);
    zckCtx *z = zck_create();
    int ok = z && zck_init_read(z, fd);
    unsigned char *out = malloc(want_n + 65536);
    size_t got = 0; ssize_t k = 0;
    size_t step = 1000 + (j->seed % 60000);
    while(ok && got < want_n + 60000 && (k = zck_read(z, (char*)out + got, step)) > 0) got += k;
    char h[65]; sha_hex(out, got, h);
    sb_add(r, "%s.init=%d\n%s.got=%zu\n%s.last=%zd\n%s.same=%d\n%s.sha=%s\n", tag, ok, tag, got, tag, k, tag,
           got == want_n && memcmp(out, want, want_n) == 0, tag, h);
    free(out);
    int cl = z ? zck_close(z) : 0;
    sb_add(r, "%s.close=%d\n", tag, cl);
    if(z) zck_free(&z);
    close(fd);
    /* checksum validation on a fresh context */
    fd = open(path, O_RDONLY);
    z = zck_create();
    ok = z && zck_init_read(z, fd);
    int v = ok ? zck_validate_checksums(z) : -99;
    int d = ok ? zck_validate_data_checksum(z) : -99;
    sb_add(r, "%s.validate=%d\n%s.validate_data=%d\n", tag, v, tag, d);
    if(z) zck_free(&z);
    close(fd);
}

/* "a-b,c-d" + the bytes of the complete new file -> multipart/byteranges body */
static unsigned char *multipart_body(const char *ranges, const unsigned char *full, size_t full_n,
                                    const char *boundary, size_t *out_n) {
    size_t cap = full_n + 4096, n = 0;
    unsigned char *b = malloc(cap);
    const char *p = ranges;
    while(*p) {
        unsigned long long a = strtoull(p, (char**)&p, 10);
        if(*p == '-') p++;
        unsigned long long e = strtoull(p, (char**)&p, 10);
        if(*p == ',') p++;
        if(e >= full_n || a > e) break;
        char hdr[512];
        int k = snprintf(hdr, sizeof(hdr), "\r\n--%s\r\nContent-Type: application/octet-stream\r\n"
                         "Content-Range: bytes %llu-%llu/%zu\r\n\r\n", boundary, a, e, full_n);
        size_t need = n + k + (e - a + 1) + 256;
        if(need > cap) { cap = need * 2; b = realloc(b, cap); }
        memcpy(b + n, hdr, k); n += k;
        memcpy(b + n, full + a, e - a + 1); n += e - a + 1;
    }
    n += sprintf((char*)b + n, "\r\n--%s--\r\n", boundary);
    *out_n = n;
    return b;
}

static void copy_and_download(job *j, const char *oldp, const char *newp, const char *tgtp, sbuf *r) {
    size_t full_n; unsigned char *full = slurp(newp, &full_n);
    /* header of the new file, the rest zero-filled */
    int nfd = open(newp, O_RDONLY);
    zckCtx *nz = zck_create();
    ssize_t hlen = -1, tlen = -1;
    if(nz && zck_init_read(nz, nfd)) { hlen = zck_get_header_length(nz); tlen = zck_get_length(nz); }
    if(nz) zck_free(&nz);
    close(nfd);
    sb_add(r, "tgt.hlen=%zd\ntgt.tlen=%zd\n", hlen, tlen);
    if(hlen <= 0 || (size_t)tlen != full_n) { free(full); return; }
    spit(tgtp, full, hlen, tlen);

    int tfd = open(tgtp, O_RDWR);
    int sfd = open(oldp, O_RDONLY);
    zckCtx *tgt = zck_create(), *src = zck_create();
    int ok = tgt && src && zck_init_adv_read(tgt, tfd) && zck_init_read(src, sfd);
    ok = ok && zck_read_lead(tgt) && zck_read_header(tgt);
    sb_add(r, "tgt.open=%d\n", ok);
    if(!ok) goto out;
    sb_add(r, "tgt.find_valid=%d\n", zck_find_valid_chunks(tgt));
    sb_add(r, "tgt.missing0=%d\n", zck_missing_chunks(tgt));

    if(j->mask & SC_COPY) {
        if(j->forced && j->tid < 2) {
            f_src[j->tid] = sfd; f_tgt[j->tid] = tfd;
            __sync_synchronize();
            f_armed[j->tid] = 1;
        }
        int c = zck_copy_chunks(src, tgt);
        if(j->forced && j->tid < 2) { f_armed[j->tid] = 0; if(j->tid == 0) sem_post(&s_a_done); }
        zck_reset_failed_chunks(tgt);
        int valid = 0, total = 0;
        for(zckChunk *ch = zck_get_first_chunk(tgt); ch; ch = zck_get_next_chunk(ch)) {
            total++; if(zck_get_chunk_valid(ch) == 1) valid++;
        }
        char h[65]; file_sha(tgtp, h);
        sb_add(r, "copy.rc=%d\ncopy.missing=%d\ncopy.valid=%d/%d\ncopy.tgt_sha=%s\n", c, zck_missing_chunks(tgt), valid, total, h);
    }
    if(j->mask & SC_DL) {
        zckDL *dl = zck_dl_init(tgt);
        long long fed = 0, accepted = 0;
        int rounds = 0;
        uint64_t s = j->seed * 0x9e3779b97f4a7c15ULL + 77;
        while(dl && zck_missing_chunks(tgt) > 0 && rounds < 3) {
            rounds++;
            zck_dl_reset(dl);
            zckRange *range = zck_get_missing_range(tgt, -1);
            if(!range || !zck_dl_set_range(dl, range)) break;
            char *rs = zck_get_range_char(tgt, range);
            sb_add(r, "dl.range%d=%s\n", rounds, rs ? rs : "(null)");
            char bnd[64]; snprintf(bnd, sizeof(bnd), "zh19x%dx%llu", j->tid, (unsigned long long)(j->seed % 100000));
            char hdr[256];
            int hk = snprintf(hdr, sizeof(hdr), "Content-Type: multipart/byteranges; boundary=%s\r\n", bnd);
            size_t hr = zck_header_cb(hdr, 1, hk, dl);
            sb_add(r, "dl.header_cb%d=%zu\n", rounds, hr);
            size_t bn; unsigned char *body = multipart_body(rs ? rs : "", full, full_n, bnd, &bn);
            size_t off = 0;
            while(off < bn) {
                size_t k = 2000 + xs(&s) % 30000;      /* what a transfer library hands over */
                if(k > bn - off) k = bn - off;
                unsigned char *piece = malloc(k);       /* the callback may modify its input */
                memcpy(piece, body + off, k);
                size_t w = zck_write_chunk_cb(piece, 1, k, dl);
                free(piece);
                fed += k; accepted += w; off += k;
                if(w != k) break;
            }
            free(body);
            free(rs);
            zck_dl_set_range(dl, NULL);
            zck_range_free(&range);
            zck_reset_failed_chunks(tgt);
        }
        sb_add(r, "dl.rounds=%d\ndl.fed=%lld\ndl.accepted=%lld\ndl.bytes=%zd\ndl.missing=%d\n", rounds, fed, accepted,
               dl ? zck_dl_get_bytes_downloaded(dl) : -1, zck_missing_chunks(tgt));
        if(dl) zck_dl_free(&dl);
    }
    {
        int vd = zck_validate_data_checksum(tgt);
        char h[65], hn[65]; file_sha(tgtp, h); file_sha(newp, hn);
        sb_add(r, "final.validate_data=%d\nfinal.tgt_sha=%s\nfinal.equals_new=%d\n", vd, h, strcmp(h, hn) == 0);
        if(zck_is_error(tgt)) sb_add(r, "final.err=%s\n", zck_get_error(tgt));
    }
out:
    if(tgt) zck_free(&tgt);
    if(src) zck_free(&src);
    close(tfd); close(sfd);
    free(full);
}

/* the error paths that format the name of an unknown compression / hash type */
static void error_paths(job *j, const char *oldp, const char *badp, sbuf *r) {
    sbuf all = {0};
    int fd = open(badp, O_RDWR | O_CREAT | O_TRUNC, 0600);
    zckCtx *z = zck_create();
    int ok = z && zck_init_write(z, fd);
    for(int k = 0; ok && k < 40; k++) {
        int ct = 1000 + j->tid * 100 + k;
        bool a = zck_set_ioption(z, ZCK_COMP_TYPE, ct);
        sb_add(&all, "c%d:%d:%s;", ct, a, zck_get_error(z));
        zck_clear_error(z);
        int ht = 2000 + j->tid * 100 + k;
        bool b = zck_set_ioption(z, ZCK_HASH_FULL_TYPE, ht);
        sb_add(&all, "h%d:%d:%s;", ht, b, zck_get_error(z));
        zck_clear_error(z);
        sb_add(&all, "n:%s:%s;", zck_comp_name_from_type(ct + 5000), zck_hash_name_from_type(ht + 5000));
    }
    if(z) zck_free(&z);
    close(fd);
    /* a file whose lead announces an unsupported hash type */
    size_t n; unsigned char *b = slurp(oldp, &n);
    if(n > 6) {
        b[5] = (unsigned char)(0x80 | (20 + j->tid % 100));
        spit(badp, b, n, -1);
        fd = open(badp, O_RDONLY);
        z = zck_create();
        bool a = z && zck_init_read(z, fd);
        sb_add(&all, "lead:%d:%s;", a, z ? zck_get_error(z) : "");
        if(z) zck_free(&z);
        close(fd);
    }
    free(b);
    char h[65]; sha_hex(all.p ? all.p : "", all.n, h);
    /* the first message in clear, the rest as a digest */
    char first[160]; snprintf(first, sizeof(first), "%.150s", all.p ? all.p : "");
    for(char *c = first; *c; c++) if(*c == '\n' || *c == ' ') *c = '_';
    sb_add(r, "err.first=%s\nerr.sha=%s\n", first, h);
    free(all.p);
}

static void *scenario(void *arg) {
    job *j = arg;
    t_tid = j->tid;
    t_rng = (j->seed ^ (j->rep * 0x2545F4914F6CDD1DULL) ^ 0x1234567) | 1;
    uint64_t s = (j->seed * 6364136223846793005ULL + 1442695040888963407ULL) | 1;
    char oldp[600], newp[600], tgtp[600], badp[600];
    snprintf(oldp, sizeof(oldp), "%s/old.zck", j->dir);
    snprintf(newp, sizeof(newp), "%s/new.zck", j->dir);
    snprintf(tgtp, sizeof(tgtp), "%s/tgt.zck", j->dir);
    snprintf(badp, sizeof(badp), "%s/bad.zck", j->dir);
    /* data: old = c0..c(k-1); new = old with two chunks replaced and one appended */
    int k = 4 + xs(&s) % 3;
    blob oldc[NCHUNK_MAX], newc[NCHUNK_MAX + 1];
    for(int i = 0; i < k; i++) { oldc[i] = gen_chunk(&s); newc[i] = oldc[i]; }
    int r1 = 1 + xs(&s) % (k - 1), r2 = xs(&s) % k;
    newc[r1] = gen_chunk(&s);
    if(r2 != r1 && r2 != 0) newc[r2] = gen_chunk(&s);
    newc[k] = gen_chunk(&s);
    size_t old_n = 0;
    for(int i = 0; i < k; i++) old_n += oldc[i].n;
    unsigned char *old_all = malloc(old_n + 1);
    for(size_t i = 0, o = 0; i < (size_t)k; i++) { memcpy(old_all + o, oldc[i].p, oldc[i].n); o += oldc[i].n; }

    sbuf *r = &j->rec;
    int w1 = write_zck(j, "w_old", oldp, oldc, k, r);
    int w2 = write_zck(j, "w_new", newp, newc, k + 1, r);
    if(w1 && (j->mask & SC_WRITE)) read_back(j, "rd_old", oldp, old_all, old_n, r);
    if(w1 && w2 && (j->mask & (SC_COPY | SC_DL))) copy_and_download(j, oldp, newp, tgtp, r);
    if(w1 && (j->mask & SC_ERR)) error_paths(j, oldp, badp, r);

    for(int i = 0; i <= k; i++) {
        if(i < k && newc[i].p != oldc[i].p) free(newc[i].p);
        if(i < k) free(oldc[i].p);
    }
    free(newc[k].p);
    free(old_all);
    unlink(oldp); unlink(newp); unlink(tgtp); unlink(badp);
    t_tid = -1;
    return NULL;
}

/* first differing "field=value" line of two records */
static int first_diff(const char *a, const char *b, char *field, size_t fn, char *va, char *vb, size_t vn) {
    while(*a || *b) {
        const char *ea = strchr(a, '\n'), *eb = strchr(b, '\n');
        size_t la = ea ? (size_t)(ea - a) : strlen(a), lb = eb ? (size_t)(eb - b) : strlen(b);
        if(la != lb || memcmp(a, b, la) != 0) {
            const char *eq = memchr(a, '=', la);
            size_t k = eq ? (size_t)(eq - a) : la; if(k >= fn) k = fn - 1;
            memcpy(field, a, k); field[k] = 0;
            if(!eq) { const char *eq2 = memchr(b, '=', lb); k = eq2 ? (size_t)(eq2 - b) : lb; if(k >= fn) k = fn - 1; memcpy(field, b, k); field[k] = 0; }
            snprintf(va, vn, "%.*s", (int)(la > 200 ? 200 : la), a);
            snprintf(vb, vn, "%.*s", (int)(lb > 200 ? 200 : lb), b);
            for(char *c = va; *c; c++) if(*c == ' ') *c = '_';
            for(char *c = vb; *c; c++) if(*c == ' ') *c = '_';
            return 1;
        }
        a += la + (ea ? 1 : 0); b += lb + (eb ? 1 : 0);
    }
    return 0;
}

static char g_root[400];

/* RACE: two threads update a harness global without synchronisation - the detector must see it */
static long zh_selftest_racy;
static void *selftest_thread(void *a) { for(int i = 0; i < 1000; i++) zh_selftest_racy += (long)a; return NULL; }


static void mkjob(job *j, int tid, uint64_t seed, int mask, uint64_t rep, int forced, const char *kind) {
    memset(j, 0, sizeof(*j));
    j->tid = tid; j->mask = mask; j->rep = rep; j->forced = forced;
    j->seed = seed * 1000003ULL + (uint64_t)tid * 7919ULL + 17;
    snprintf(j->dir, sizeof(j->dir), "%s/%s_t%d", g_root, kind, tid);
    mkdir(j->dir, 0700);
}

static void run_concurrent(job *jobs, int n) {
    pthread_t th[MAXT];
    for(int t = 0; t < n; t++) pthread_create(&th[t], NULL, scenario, &jobs[t]);
    for(int t = 0; t < n; t++) pthread_join(th[t], NULL);
}

int main(void) {
    /* the process-wide logging settings are set ONCE, before any thread exists (the property's proviso);
     * debug level so that zck_log_v and its readers of the settings run in every thread */
    int nullfd = open("/dev/null", O_WRONLY);
    zck_set_log_fd(nullfd);
    zck_set_log_level(getenv("ZH_QUIET") ? ZCK_LOG_NONE : ZCK_LOG_DEBUG);
    const char *tmp = getenv("ZH_TMP");
    snprintf(g_root, sizeof(g_root), "%s/zh19_XXXXXX", tmp ? tmp : "/tmp");
    if(!mkdtemp(g_root)) { perror("mkdtemp"); return 2; }
    sem_init(&s_a_at_write, 0, 0); sem_init(&s_b_at_write, 0, 0); sem_init(&s_a_done, 0, 0);
    char *line;
    while((line = zh_readline(stdin))) {
        int n, reps, mask; unsigned long long seed;
        static job base[MAXT], conc[MAXT];
        if(sscanf(line, "RUN %d %llu %d %d", &n, &seed, &reps, &mask) == 4 && n >= 1 && n <= MAXT) {
            g_mode = 0;
            sbuf allb = {0};
            for(int t = 0; t < n; t++) {                 /* serial baseline, one thread after another */
                mkjob(&base[t], t, seed, mask, 0, 0, "s");
                pthread_t th; pthread_create(&th, NULL, scenario, &base[t]); pthread_join(th, NULL);
                sb_add(&allb, "%d:", t);
                char h[65]; sha_hex(base[t].rec.p, base[t].rec.n, h); sb_add(&allb, "%s;", h);
            }
            char bh[65]; sha_hex(allb.p, allb.n, bh); free(allb.p);
            int bad = 0;
            for(int rep = 1; rep <= reps && !bad; rep++) {
                for(int t = 0; t < n; t++) mkjob(&conc[t], t, seed, mask, rep, 0, "c");
                g_mode = 1;
                run_concurrent(conc, n);
                g_mode = 0;
                for(int t = 0; t < n; t++) {
                    char f[128], va[256], vb[256];
                    if(!bad && first_diff(base[t].rec.p, conc[t].rec.p, f, sizeof(f), va, vb, sizeof(va))) {
                        printf("DIFF rep=%d thread=%d field=%s serial=%s concurrent=%s\n", rep, t, f, va, vb);
                        bad = 1;
                    }
                    free(conc[t].rec.p);
                }
            }
            if(!bad) {
                /* non-triviality figures from thread 0's serial record */
                const char *r0 = base[0].rec.p;
                printf("OK n=%d reps=%d base=%.16s t0_final_equals_new=%d t0_dl_ok=%d t0_copy_ok=%d\n", n, reps, bh,
                       strstr(r0, "final.equals_new=1") != NULL, strstr(r0, "dl.missing=0") != NULL,
                       strstr(r0, "copy.rc=1") != NULL);
            }
            if(getenv("ZH_DUMP")) fprintf(stderr, "%s", base[0].rec.p);
            for(int t = 0; t < n; t++) free(base[t].rec.p);
        } else if(sscanf(line, "FORCED %llu", &seed) == 1) {
            int m = SC_COPY;
            g_mode = 0;
            for(int t = 0; t < 2; t++) {
                mkjob(&base[t], t, seed, m, 0, 0, "s");
                pthread_t th; pthread_create(&th, NULL, scenario, &base[t]); pthread_join(th, NULL);
            }
            for(int t = 0; t < 2; t++) { mkjob(&conc[t], t, seed, m, 1, 1, "f"); f_first_read[t] = f_first_write[t] = 0; f_armed[t] = 0; }
            f_timeouts = 0;
            sem_init(&s_a_at_write, 0, 0); sem_init(&s_b_at_write, 0, 0); sem_init(&s_a_done, 0, 0);
            g_mode = 2;
            run_concurrent(conc, 2);
            g_mode = 0;
            int realised = f_timeouts == 0 && f_first_read[1] && f_first_write[0] && f_first_write[1];
            int bad = 0;
            for(int t = 0; t < 2; t++) {
                char f[128], va[256], vb[256];
                if(!bad && first_diff(base[t].rec.p, conc[t].rec.p, f, sizeof(f), va, vb, sizeof(va))) {
                    printf("FORCED realised=%d DIFF thread=%d field=%s serial=%s concurrent=%s\n", realised, t, f, va, vb);
                    bad = 1;
                }
            }
            if(!bad) printf("FORCED realised=%d SAME\n", realised);
            for(int t = 0; t < 2; t++) { free(base[t].rec.p); free(conc[t].rec.p); }
        } else if(strcmp(line, "RACE") == 0) {
            pthread_t a, b;
            pthread_create(&a, NULL, selftest_thread, (void*)1); pthread_create(&b, NULL, selftest_thread, (void*)2);
            pthread_join(a, NULL); pthread_join(b, NULL);
            printf("RACE done %ld\n", zh_selftest_racy > 0 ? 1L : 0L);
        } else printf("BADCASE\n");
        fflush(stdout);
    }
    /* remove the per-thread directories */
    for(int t = 0; t < MAXT; t++) {
        const char *kinds[3] = {"s", "c", "f"};
        for(int k = 0; k < 3; k++) { char d[600]; snprintf(d, sizeof(d), "%s/%s_t%d", g_root, kinds[k], t); rmdir(d); }
    }
    rmdir(g_root);
    return 0;
}
