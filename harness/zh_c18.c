/* C18: drive the library's real hash_setup / hash_init / hash_update / hash_finalize (the
 * backend is whatever the variant was built with: OpenSSL for "plain", the bundled SHA code
 * for "bundled") and, in the bundled variant, the compression functions directly.
 *   H <type 0..3> <hex message> <cut,cut,...|->   digest (first digest_size bytes) of the
 *                                                  message fed in the pieces between the cuts
 *   C <1|256|512> <hex state> <hex block>         one SHA1_Transform/sha256_transf/sha512_transf
 *   L <type> <total bytes> <bytes per update>     long patterned message, fed piecewise
 *   B <type> <bytes>                              one single hash_update of <bytes> zero bytes */
#include "zh_common.h"
#include <zck.h>
#include "zck_private.h"
#ifndef ZCHUNK_OPENSSL
#include "hash/bundled/sha1/sha1.h"
#include "hash/bundled/sha2/sha2.h"
void sha256_transf(sha256_ctx *ctx, const unsigned char *message, unsigned int block_nb);
void sha512_transf(sha512_ctx *ctx, const unsigned char *message, unsigned int block_nb);
void SHA1_Transform(sha1_quadbyte state[5], const sha1_byte buffer[64]);
#endif

static zckCtx *zck;

static int start(zckHashType *ht, zckHash *h, int type) {
    memset(ht, 0, sizeof(*ht)); memset(h, 0, sizeof(*h));
    if(!hash_setup(zck, ht, type)) return 0;
    if(!hash_init(zck, h, ht)) return 0;
    return 1;
}
static void finish(zckHashType *ht, zckHash *h) {
    int ds = ht->digest_size;
    char *d = hash_finalize(zck, h);
    if(!d) { printf("ERR-final\n"); return; }
    zh_puthex(stdout, d, ds); printf("\n");
    free(d);
}

int main(void) {
    zck_set_log_level(ZCK_LOG_NONE);
    zck = zck_create();
    char *line;
    while((line = zh_readline(stdin))) {
        size_t ll = strlen(line);
        char *a = malloc(ll + 1), *b = malloc(ll + 1), *c = malloc(ll + 1);
        int type; unsigned long long total, per;
        if(sscanf(line, "H %d %s %s", &type, a, b) == 3) {
            size_t n; unsigned char *msg = zh_unhex(a, &n);
            zckHashType ht; zckHash h;
            if(!start(&ht, &h, type)) { printf("ERR-init\n"); goto next; }
            size_t pos = 0; int ok = 1;
            char *p = b;
            while(ok) {
                size_t cut = n; int last = 1;
                if(strcmp(b, "-") != 0 && *p) {
                    char *e; cut = strtoull(p, &e, 10);
                    if(cut > n) cut = n;
                    if(cut < pos) cut = pos;
                    last = 0;
                    p = (*e == ',') ? e + 1 : e;
                }
                /* the fragment in its own allocation so that a read past it is not hidden */
                size_t fl = cut - pos;
                if(fl == 0) ok = hash_update(zck, &h, NULL, 0);
                else {
                    char *frag = malloc(fl); memcpy(frag, msg + pos, fl);
                    ok = hash_update(zck, &h, frag, fl);
                    free(frag);
                }
                pos = cut;
                if(last) break;
            }
            if(!ok) printf("ERR-update\n"); else finish(&ht, &h);
            free(msg);
        } else if(sscanf(line, "C %d %s %s", &type, a, b) == 3) {
#ifndef ZCHUNK_OPENSSL
            size_t sn, bn; unsigned char *st = zh_unhex(a, &sn), *blk = zh_unhex(b, &bn);
            unsigned char out[64];
            if(type == 256 && sn == 32 && bn == 64) {
                sha256_ctx ctx; memset(&ctx, 0, sizeof(ctx));
                for(int i = 0; i < 8; i++)
                    ctx.h[i] = ((uint32)st[4*i] << 24) | ((uint32)st[4*i+1] << 16) | ((uint32)st[4*i+2] << 8) | st[4*i+3];
                sha256_transf(&ctx, blk, 1);
                for(int i = 0; i < 8; i++) { out[4*i] = ctx.h[i] >> 24; out[4*i+1] = ctx.h[i] >> 16; out[4*i+2] = ctx.h[i] >> 8; out[4*i+3] = ctx.h[i]; }
                zh_puthex(stdout, out, 32); printf("\n");
            } else if(type == 512 && sn == 64 && bn == 128) {
                sha512_ctx ctx; memset(&ctx, 0, sizeof(ctx));
                for(int i = 0; i < 8; i++) { uint64 v = 0; for(int k = 0; k < 8; k++) v = (v << 8) | st[8*i+k]; ctx.h[i] = v; }
                sha512_transf(&ctx, blk, 1);
                for(int i = 0; i < 8; i++) for(int k = 0; k < 8; k++) out[8*i+k] = (unsigned char)(ctx.h[i] >> (56 - 8*k));
                zh_puthex(stdout, out, 64); printf("\n");
            } else if(type == 1 && sn == 20 && bn == 64) {
                sha1_quadbyte s5[5];
                for(int i = 0; i < 5; i++)
                    s5[i] = ((uint32_t)st[4*i] << 24) | ((uint32_t)st[4*i+1] << 16) | ((uint32_t)st[4*i+2] << 8) | st[4*i+3];
                SHA1_Transform(s5, (const sha1_byte *)blk);
                for(int i = 0; i < 5; i++) { out[4*i] = s5[i] >> 24; out[4*i+1] = s5[i] >> 16; out[4*i+2] = s5[i] >> 8; out[4*i+3] = s5[i]; }
                zh_puthex(stdout, out, 20); printf("\n");
            } else printf("BADCASE\n");
            free(st); free(blk);
#else
            printf("NA\n");
#endif
        } else if(sscanf(line, "L %d %llu %llu", &type, &total, &per) == 3 && per > 0) {
            zckHashType ht; zckHash h;
            if(!start(&ht, &h, type)) { printf("ERR-init\n"); goto next; }
            unsigned char *buf = malloc(per);
            /* byte k of the message is (k * 31 + 7) & 0xff; per is a multiple of 256 */
            for(size_t i = 0; i < per; i++) buf[i] = (unsigned char)(i * 31 + 7);
            unsigned long long done = 0; int ok = 1;
            while(ok && done < total) {
                size_t n = (total - done < per) ? (size_t)(total - done) : (size_t)per;
                ok = hash_update(zck, &h, (char *)buf, n);
                done += n;
            }
            free(buf);
            if(!ok) printf("ERR-update\n"); else finish(&ht, &h);
        } else if(sscanf(line, "B %d %llu", &type, &total) == 2 && total > 0) {
            zckHashType ht; zckHash h;
            if(!start(&ht, &h, type)) { printf("ERR-init\n"); goto next; }
            void *m = mmap(NULL, total, PROT_READ, MAP_PRIVATE | MAP_ANONYMOUS | MAP_NORESERVE, -1, 0);
            if(m == MAP_FAILED) { printf("ERR-mmap\n"); goto next; }
            int ok = hash_update(zck, &h, m, total);
            munmap(m, total);
            if(!ok) printf("ERR-update\n"); else finish(&ht, &h);
        } else printf("BADCASE\n");
    next:
        free(a); free(b); free(c);
        fflush(stdout);
    }
    return 0;
}
