/* C07: pin options.  The static hex_to_int is reached by including zck.c */
#include "zh_common.h"
#include <zck.h>
#include "lib/zck.c"

int main(void) {
    zck_set_log_level(ZCK_LOG_NONE);
    char *line;
    while((line = zh_readline(stdin))) {
        int c;
        char *ops = malloc(strlen(line) + 1), *hex = malloc(strlen(line) + 1); char v[8];
        if(sscanf(line, "X %d", &c) == 1) {
            printf("%d\n", hex_to_int((char)c));
        } else if(sscanf(line, "P %s %7s %s", ops, v, hex) == 3) {
            size_t n; unsigned char *raw = zh_unhex(hex, &n);
            int fd = zh_memfd(raw, n); free(raw);
            zckCtx *zck = zck_create();
            /* op 'I' = zck_init_adv_read at that point of the sequence (a fresh context is in read mode already, so the pin
               options may legally be set first); without it the context is initialised before everything else */
            int inited = strstr(ops, "I") == NULL || strcmp(ops, "-") == 0;
            if(inited) zck_init_adv_read(zck, fd);
            char res[256]; int nres = 0;
            if(strcmp(ops, "-")) {
                char *save = NULL;
                for(char *o = strtok_r(ops, ",", &save); o; o = strtok_r(NULL, ",", &save)) {
                    int r;
                    if(o[0] == 't') r = zck_set_ioption(zck, ZCK_VAL_HEADER_HASH_TYPE, atoll(o + 1));
                    else if(o[0] == 'I') { r = zck_init_adv_read(zck, fd); inited = 1; }
                    else if(o[0] == 'e') r = zck_clear_error(zck);
                    else if(o[0] == 'v') r = zck_validate_lead(zck);
                    else if(o[0] == 'F') {   /* the file changes under the context (a partial download replaced by another file) */
                        size_t n2; unsigned char *r2 = zh_unhex(o + 1, &n2);
                        r = ftruncate(fd, 0) == 0 && pwrite(fd, r2, n2, 0) == (ssize_t)n2 && lseek(fd, 0, SEEK_SET) == 0;
                        free(r2); }
                    else if(o[0] == 's') r = zck_set_ioption(zck, ZCK_VAL_HEADER_LENGTH, atoll(o + 1));
                    else { size_t sl; unsigned char *s = zh_unhex(o + 1, &sl);
                           r = zck_set_soption(zck, ZCK_VAL_HEADER_DIGEST, (char*)s, sl); free(s); }
                    res[nres++] = r ? '1' : '0';
                }
            }
            res[nres] = 0;
            printf("set=%s prep=", nres ? res : "-");
            if(zck->prep_digest) {
                zckHashType ht = {0};
                if(zck->prep_hash_type >= 0 && hash_setup(NULL, &ht, zck->prep_hash_type)) zh_puthex(stdout, zck->prep_digest, ht.digest_size);
                else printf("?");
            } else printf("_");
            if(strcmp(v, "V") == 0) printf(" val=%d", zck_validate_lead(zck) ? 1 : 0); else printf(" val=-");
            if(zck_read_lead(zck) && zck_read_header(zck)) {
                char *hd = zck_get_header_digest(zck);
                printf(" open=OK ht=%d hdg=%s total=%zd\n", zck_get_full_hash_type(zck), hd, zck_get_header_length(zck));
                free(hd);
            } else printf(" open=ERR\n");
            zck_free(&zck); close(fd);
        } else printf("BADCASE\n");
        free(ops); free(hex);
        fflush(stdout);
    }
    return 0;
}
