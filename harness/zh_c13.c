/* header layer: open a byte string as a zchunk file through the public API and dump every getter */
#include "zh_common.h"
#include <zck.h>
#include "zck_private.h"

static void dump(zckCtx *zck) {
    char *hdg = zck_get_header_digest(zck), *ddg = zck_get_data_digest(zck);
    ssize_t lead = zck_get_lead_length(zck), hl = zck_get_header_length(zck);
    printf("OK d=%d ht=%d lead=%zd hlen=%zd hdg=%s ddg=%s fl=%zd comp=%d cht=%d n=%zd [",
           zck_is_detached_header(zck) ? 1 : 0, zck_get_full_hash_type(zck), lead, hl - lead,
           hdg, ddg, zck_get_flags(zck), (int)zck->comp.type, zck_get_chunk_hash_type(zck),
           zck_get_chunk_count(zck));
    free(hdg); free(ddg);
    int first = 1; ssize_t expect_no = 0;
    for(zckChunk *c = zck_get_first_chunk(zck); c; c = zck_get_next_chunk(c)) {
        char *d = zck_get_chunk_digest(c), *u = zck_get_chunk_digest_uncompressed(c);
        if(zck_get_chunk_number(c) != expect_no) printf("BADNUMBER ");
        expect_no++;
        printf("%s%s/%s/%zd/%zd/%zd", first ? "" : ",", d, u ? u : "_", zck_get_chunk_comp_size(c),
               zck_get_chunk_size(c), zck_get_chunk_start(c) - hl);
        first = 0; free(d); free(u);
    }
    printf("]");
    /* derived getters must be consistent with the chunk table */
    zckChunk *last = zck_get_first_chunk(zck);
    if(last) {
        while(zck_get_next_chunk(last)) last = zck_get_next_chunk(last);
        ssize_t dl = zck_get_data_length(zck);
        if(dl != (zck_get_chunk_start(last) - hl) + zck_get_chunk_comp_size(last)) printf(" BAD-DATA-LENGTH %zd", dl);
        if(zck_get_length(zck) != hl + dl) printf(" BAD-LENGTH");
    }
    /* the reported metadata must not depend on what was asked before: look chunks up by number (each twice, ascending
       then descending, then one past the end), build a download range, and compare with the iteration again */
    {
        ssize_t cnt = zck_get_chunk_count(zck);
        zckChunk *tab[64]; int nt = 0;
        for(zckChunk *c = zck_get_first_chunk(zck); c && nt < 64; c = zck_get_next_chunk(c)) tab[nt++] = c;
        int bad = 0;
        for(int k = 0; k < nt && !bad; k++)
            if(zck_get_chunk(zck, k) != tab[k] || zck_get_chunk(zck, k) != tab[k]) bad = 1;
        for(int k = nt - 1; k >= 0 && !bad; k--)
            if(zck_get_chunk(zck, k) != tab[k]) bad = 1;
        if(!bad && nt < 64 && zck_get_chunk(zck, nt) != NULL) bad = 1;
        if(!bad && nt > 0 && (zck_get_chunk(zck, nt - 1) != tab[nt - 1] || zck_get_chunk(zck, 0) != tab[0])) bad = 1;
        if(bad) printf(" BAD-GET-CHUNK-BY-NUMBER");
        for(int rep = 0; rep < 2; rep++) {
            zckRange *r = zck_get_missing_range(zck, -1);
            if(r) { char *rc = zck_get_range_char(zck, r); free(rc); zck_range_free(&r); }
        }
        ssize_t cnt2 = zck_get_chunk_count(zck); int n2 = 0;
        for(zckChunk *c = zck_get_first_chunk(zck); c && n2 < 64; c = zck_get_next_chunk(c)) { if(c != tab[n2]) bad = 2; n2++; }
        if(cnt2 != cnt || n2 != nt || bad == 2) printf(" BAD-COUNT-AFTER-RANGE %zd->%zd", cnt, cnt2);
        if(zck_is_error(zck)) printf(" BAD-ERROR-STATE-AFTER-GETTERS");
    }
    printf("\n");
}

static void open_bytes(const unsigned char *raw, size_t n, const char *pt, const char *pd, const char *ps) {
    int fd = zh_memfd(raw, n);
    zckCtx *zck = zck_create();
    int ok = zck_init_adv_read(zck, fd);
    /* pin type "L<t>": the options are set AFTER zck_read_lead (they are then never compared; the stored checksum
       must still be checked against the header bytes) */
    int late = pt[0] == 'L', lead_ok = 1;
    if(late) {
        pt++; lead_ok = ok && zck_read_lead(zck);
        if(!lead_ok) { printf("ERR\n"); zck_free(&zck); close(fd); return; }
    }
    if(ok && strcmp(pt, "-")) ok = zck_set_ioption(zck, ZCK_VAL_HEADER_HASH_TYPE, atol(pt));
    if(ok && strcmp(pd, "-")) ok = zck_set_soption(zck, ZCK_VAL_HEADER_DIGEST, pd, strlen(pd));
    if(ok && strcmp(ps, "-")) ok = zck_set_ioption(zck, ZCK_VAL_HEADER_LENGTH, atol(ps));
    if(!ok) printf("BADPIN\n");
    else if((late ? lead_ok : zck_read_lead(zck)) && zck_read_header(zck)) dump(zck);
    else {
        /* a caller that clears the error and simply tries again must not get further than the first time */
        int again = 0;
        if(zck_clear_error(zck)) {
            if(zck_read_header(zck)) again = 1;
            else if(zck_clear_error(zck) && zck_read_lead(zck) && zck_read_header(zck)) again = 2;
        }
        if(again) { printf("RETRY-OPENED%d ", again); dump(zck); }
        else printf("ERR\n");
    }
    zck_free(&zck);
    close(fd);
}

static void on_alarm(int sgn) { (void)sgn; printf("HANG\n"); fflush(stdout); _exit(98); }

int main(void) {
    zck_set_log_level(ZCK_LOG_NONE);
    zh_apply_limits();
    signal(SIGALRM, on_alarm);       /* watchdog: opening a header takes milliseconds */
    char *line;
    unsigned char *base = NULL; size_t base_n = 0;
    char cpt[32] = "-", cps[32] = "-"; char *cpd = strdup("-");
    while((line = zh_readline(stdin))) {
        alarm(15);
        char pt[32], ps[32];
        char *pd = malloc(strlen(line) + 1), *hex = malloc(strlen(line) + 1);
        unsigned long pos; unsigned int val;
        if(sscanf(line, "O %31s %s %31s %s", pt, pd, ps, hex) == 4) {
            size_t n; unsigned char *raw = zh_unhex(hex, &n);
            open_bytes(raw, n, pt, pd, ps);
            free(raw);
        } else if(sscanf(line, "B %s", hex) == 1) {
            free(base); base = zh_unhex(hex, &base_n); printf("BASE\n");
            strcpy(cpt, "-"); strcpy(cps, "-"); free(cpd); cpd = strdup("-");
        } else if(sscanf(line, "P %31s %s %31s", pt, pd, ps) == 3) {
            strcpy(cpt, pt); strcpy(cps, ps); free(cpd); cpd = strdup(pd); printf("PINS\n");
        } else if(sscanf(line, "m %lu %u", &pos, &val) == 2 && base) {
            unsigned char *b = malloc(base_n + 1); memcpy(b, base, base_n); b[pos] = (unsigned char)val;
            open_bytes(b, base_n, cpt, cpd, cps); free(b);
        } else if(sscanf(line, "i %lu %u", &pos, &val) == 2 && base) {
            unsigned char *b = malloc(base_n + 2); memcpy(b, base, pos); b[pos] = (unsigned char)val;
            memcpy(b + pos + 1, base + pos, base_n - pos);
            open_bytes(b, base_n + 1, cpt, cpd, cps); free(b);
        } else if(sscanf(line, "x %lu", &pos) == 1 && base) {
            unsigned char *b = malloc(base_n + 1); memcpy(b, base, pos); memcpy(b + pos, base + pos + 1, base_n - pos - 1);
            open_bytes(b, base_n - 1, cpt, cpd, cps); free(b);
        } else printf("BADCASE\n");
        free(pd); free(hex);
        fflush(stdout);
    }
    return 0;
}
