/* C01 library round trip: write a content through an op sequence under a configuration,
   close, reopen, validate, read back with a cycling list of buffer sizes, close.
   case: <comp 0|2> <zstd level|-1> <manual 0|1> <min|0> <max|0> <hash 0-3> <chunk hash 0-3> <uflag 0|1>
         <dict hex|-> <fd0 0|1> <ops W<hex>|E ,...|-> <read sizes ,...>
   result: one line of key=value pairs */
#include "zh_common.h"
#include <openssl/evp.h>
#include <zck.h>

static void sha256_hex(const unsigned char *d, size_t n, char *out) {
    unsigned char md[32]; unsigned int l = 0;
    EVP_MD_CTX *c = EVP_MD_CTX_new(); EVP_DigestInit_ex(c, EVP_sha256(), NULL);
    EVP_DigestUpdate(c, d, n); EVP_DigestFinal_ex(c, md, &l); EVP_MD_CTX_free(c);
    for(int i = 0; i < 32; i++) sprintf(out + 2 * i, "%02x", md[i]);
}
static void on_alarm(int s) { (void)s; printf(" HANG\n"); fflush(stdout); _exit(98); }

int main(void) {
    zck_set_log_level(ZCK_LOG_NONE);
    signal(SIGALRM, on_alarm);
    char *line;
    while((line = zh_readline(stdin))) {
        size_t L = strlen(line) + 1;
        char *dict = malloc(L), *ops = malloc(L), *rs = malloc(L);
        int comp, level, manual, ht, cht, uflag, fd0; long mn, mx;
        if(sscanf(line, "%d %d %d %ld %ld %d %d %d %s %d %s %s", &comp, &level, &manual, &mn, &mx, &ht, &cht, &uflag, dict, &fd0, ops, rs) != 12) {
            printf("BADCASE\n"); fflush(stdout); continue;
        }
        alarm(30);
        int saved0 = -1;
        int out = zh_memfd("", 0);
        if(fd0) { saved0 = dup(0); close(0); }          /* descriptor 0 is free while the writer is set up */
        zckCtx *z = zck_create();
        int ok = zck_init_write(z, out);
        printf("W init=%d", ok);
        if(ok) ok = zck_set_ioption(z, ZCK_COMP_TYPE, comp);
        if(ok && comp == 2 && level >= 0) ok = zck_set_ioption(z, ZCK_ZSTD_COMP_LEVEL, level);
        if(ok) ok = zck_set_ioption(z, ZCK_HASH_FULL_TYPE, ht) && zck_set_ioption(z, ZCK_HASH_CHUNK_TYPE, cht);
        if(ok && uflag) ok = zck_set_ioption(z, ZCK_UNCOMP_HEADER, 1);
        if(ok && manual) ok = zck_set_ioption(z, ZCK_MANUAL_CHUNK, 1);
        if(ok && mx) ok = zck_set_ioption(z, ZCK_CHUNK_MAX, mx);
        if(ok && mn) ok = zck_set_ioption(z, ZCK_CHUNK_MIN, mn);
        if(ok && strcmp(dict, "-")) { size_t dn; unsigned char *d = zh_unhex(dict, &dn); ok = zck_set_soption(z, ZCK_COMP_DICT, (char*)d, dn); free(d); }
        printf(" opts=%d", ok);
        int wok = ok;
        if(ok && strcmp(ops, "-")) {
            char *save = NULL;
            for(char *o = strtok_r(ops, ",", &save); o && wok; o = strtok_r(NULL, ",", &save)) {
                if(o[0] == 'E') { if(zck_end_chunk(z) < 0) wok = 0; }
                else if(o[0] == 'X') {   /* X<count>:<hex>  one zck_write of <hex> repeated <count> times */
                    char *p; long cnt = strtol(o + 1, &p, 10); size_t n; unsigned char *raw = zh_unhex(p + 1, &n);
                    unsigned char *big = malloc(n * cnt + 1);
                    for(long q = 0; q < cnt; q++) memcpy(big + q * n, raw, n);
                    if(zck_write(z, (char*)big, n * cnt) != (ssize_t)(n * cnt)) wok = 0;
                    free(big); free(raw); }
                else { size_t n; unsigned char *raw = zh_unhex(o + 1, &n);
                       if(zck_write(z, (char*)raw, n) != (ssize_t)n) wok = 0; free(raw); }
            }
        }
        int cl = ok ? zck_close(z) : 0;
        ssize_t nchunks = cl ? zck_get_chunk_count(z) : -1;
        zck_free(&z);
        if(fd0 && saved0 >= 0) { dup2(saved0, 0); close(saved0); }
        printf(" writes=%d close=%d chunks=%zd", wok, cl, nchunks);
        if(cl) {
            lseek(out, 0, SEEK_SET);
            zckCtx *r = zck_create();
            int op = zck_init_read(r, out);
            printf(" open=%d", op);
            if(op) {
                printf(" v=%d d=%d", zck_validate_checksums(r), zck_validate_data_checksum(r));
                size_t cap = 1 << 20, tot = 0; unsigned char *acc = malloc(cap);
                long sizes[64]; int ns = 0; char *save = NULL;
                for(char *t = strtok_r(rs, ",", &save); t && ns < 64; t = strtok_r(NULL, ",", &save)) sizes[ns++] = atol(t);
                ssize_t got = 0; int k = 0; size_t bs;
                char *buf = malloc(1 << 20);
                while(1) {
                    bs = sizes[k++ % ns]; if(bs > (1 << 20)) bs = 1 << 20; if(bs == 0) bs = 1;
                    got = zck_read(r, buf, bs);
                    if(got <= 0) break;
                    if(tot + got > cap) { cap *= 2; acc = realloc(acc, cap); }
                    memcpy(acc + tot, buf, got); tot += got;
                }
                char h[65]; sha256_hex(acc, tot, h);
                printf(" rd=%zd content=%s/%zu rclose=%d", got, h, tot, got == 0 ? zck_close(r) : 0);
                free(buf); free(acc);
            }
            zck_free(&r);
        }
        printf("\n"); fflush(stdout);
        close(out); alarm(0);
        free(dict); free(ops); free(rs);
    }
    return 0;
}
