/* C20: drive the real compint_* functions, each input flush against a PROT_NONE page */
#include "zh_common.h"
#include <zck.h>
#include "zck_private.h"
#define ZH_RESET_ERR(z) do { free((z)->msg); (z)->msg = NULL; (z)->error_state = 0; } while(0)

int main(void) {
    zck_set_log_level(ZCK_LOG_NONE);
    zh_install_segv();
    zckCtx *zck = zck_create();
    char *line;
    while((line = zh_readline(stdin))) {
        char mode[16], hex[4096], val[64];
        unsigned long cur, maxl;
        if(sscanf(line, "D %15s %4095s %lu %lu", mode, hex, &cur, &maxl) == 4) {
            size_t n; unsigned char *raw = zh_unhex(hex, &n);
            zh_guarded g = zh_guard_alloc(n);
            memcpy(g.p, raw, n);
            free(raw);
            ZH_RESET_ERR(zck);
            size_t length = cur, v = 0; int iv = 0; int ok;
            int sig;
            zh_jmp_armed = 1;
            if((sig = sigsetjmp(zh_jmp, 1)) == 0) {
                if(strcmp(mode, "int") == 0) {
                    ok = compint_to_int(zck, &iv, (char*)g.p + cur, &length, maxl);
                    v = (size_t)(unsigned int)iv;
                    if(ok && iv < 0) { printf("NEGATIVE-INT %d\n", iv); zh_jmp_armed = 0; zh_guard_free(g); continue; }
                } else {
                    ok = compint_to_size(zck, &v, (char*)g.p + cur, &length, maxl);
                }
                zh_jmp_armed = 0;
                if(ok) printf("OK %zu %zu\n", v, length);
                else printf("ERR\n");
            } else {
                zh_jmp_armed = 0;
                printf("OOB\n");
            }
            zh_guard_free(g);
        } else if(sscanf(line, "E %63s", val) == 1) {
            size_t v = strtoull(val, NULL, 10);
            zh_guarded g = zh_guard_alloc(MAX_COMP_SIZE);
            size_t length = 0;
            /* write at the start of a MAX_COMP_SIZE buffer flush against the guard */
            compint_from_size((char*)g.p, v, &length);
            zh_puthex(stdout, g.p, length); printf("\n");
            zh_guard_free(g);
        } else if(sscanf(line, "I %63s", val) == 1) {
            long v = strtol(val, NULL, 10);
            char buf[MAX_COMP_SIZE]; size_t length = 0;
            ZH_RESET_ERR(zck);
            if(compint_from_int(zck, buf, (int)v, &length)) { zh_puthex(stdout, buf, length); printf("\n"); }
            else printf("NEG\n");
        } else printf("BADCASE\n");
        fflush(stdout);
    }
    return 0;
}
