/* C16: drive the real writer (zck_write / zck_end_chunk / zck_close) with a configuration
 * and a segmentation of a content into write calls, then re-open the produced file and
 * print its chunk table.
 *
 * case line:   <none|zstd> <manual 0|1> <min|0> <max|0> <dict> <content> <ops>
 *   dict, content:  "-" (empty / no dictionary) | H:<hex> | F:<path of a file holding the bytes>
 *   ops: comma separated, consumed left to right over the content
 *        <n>      one zck_write of the next n bytes
 *        <k>x<n>  k writes of n bytes
 *        *<n>     writes of n bytes until the content is exhausted (last one shorter)
 *        R        one write of everything that is left (nothing if nothing is left)
 *        E        zck_end_chunk
 *        O<m|n|x><v>  zck_set_ioption(ZCK_MANUAL_CHUNK | ZCK_CHUNK_MIN | ZCK_CHUNK_MAX, v) after data was written, then zck_clear_error
 * result line: OK n=<chunks after the dict chunk> lens=<l1,l2,..|-> | dict=<ulen> clens=.. dig=.. udig=.. size=<file size> file=<sha256 of the file>
 *              ERR <stage> | HANG <stage>
 */
#include "zh_common.h"
#include <zck.h>
#include <openssl/sha.h>

static sigjmp_buf c16_jmp;
static void c16_alarm(int sig) { (void)sig; siglongjmp(c16_jmp, 1); }

static unsigned char *load_blob(const char *spec, size_t *len) {
    if(strcmp(spec, "-") == 0) { *len = 0; return calloc(1, 1); }
    if(spec[0] == 'H' && spec[1] == ':') return zh_unhex(spec + 2, len);
    if(spec[0] == 'F' && spec[1] == ':') {
        FILE *f = fopen(spec + 2, "rb");
        if(!f) { perror(spec + 2); exit(2); }
        fseek(f, 0, SEEK_END); long n = ftell(f); fseek(f, 0, SEEK_SET);
        unsigned char *b = malloc(n + 1);
        if(n > 0 && fread(b, 1, n, f) != (size_t)n) { perror("fread"); exit(2); }
        fclose(f); *len = n; return b;
    }
    fprintf(stderr, "bad blob spec\n"); exit(2);
}

static const char *stage = "";

/* returns 0 on success */
static int do_ops(zckCtx *zck, const unsigned char *data, size_t n, char *ops) {
    size_t pos = 0;
    char *save = NULL;
    for(char *tok = strtok_r(ops, ",", &save); tok; tok = strtok_r(NULL, ",", &save)) {
        if(strcmp(tok, "E") == 0) {
            stage = "end_chunk";
            if(zck_end_chunk(zck) < 0) return 1;
        } else if(tok[0] == 'O') {
            /* O<m|n|x><value>: a chunking option set in the middle of the stream (after data has been written): the library
               refuses it; the caller clears the error and carries on - the produced file must not depend on it */
            zck_ioption opt = tok[1] == 'm' ? ZCK_MANUAL_CHUNK : tok[1] == 'n' ? ZCK_CHUNK_MIN : ZCK_CHUNK_MAX;
            stage = "late option";
            (void)zck_set_ioption(zck, opt, atoll(tok + 2));
            if(!zck_clear_error(zck)) return 1;
        } else if(strcmp(tok, "R") == 0) {
            stage = "write";
            if(n - pos > 0 && zck_write(zck, (const char*)data + pos, n - pos) != (ssize_t)(n - pos)) return 1;
            pos = n;
        } else if(tok[0] == '*') {
            size_t k = strtoull(tok + 1, NULL, 10);
            if(k == 0) return 2;
            stage = "write";
            while(pos < n) {
                size_t w = n - pos < k ? n - pos : k;
                if(zck_write(zck, (const char*)data + pos, w) != (ssize_t)w) return 1;
                pos += w;
            }
        } else {
            size_t reps = 1, k;
            char *x = strchr(tok, 'x');
            if(x) { reps = strtoull(tok, NULL, 10); k = strtoull(x + 1, NULL, 10); }
            else k = strtoull(tok, NULL, 10);
            stage = "write";
            for(size_t r = 0; r < reps; r++) {
                if(pos + k > n) return 2;
                if(zck_write(zck, (const char*)data + pos, k) != (ssize_t)k) return 1;
                pos += k;
            }
        }
    }
    return 0;
}

static void sha256_fd(int fd, size_t *size, char *hex) {
    SHA256_CTX c; SHA256_Init(&c);
    unsigned char buf[65536], md[32];
    ssize_t r; size_t tot = 0;
    lseek(fd, 0, SEEK_SET);
    while((r = read(fd, buf, sizeof(buf))) > 0) { SHA256_Update(&c, buf, r); tot += r; }
    SHA256_Final(md, &c);
    for(int i = 0; i < 32; i++) sprintf(hex + 2*i, "%02x", md[i]);
    *size = tot;
}

typedef struct { char *p; size_t n, cap; } sbuf;
static void sb_add(sbuf *s, const char *t) {
    size_t l = strlen(t);
    if(s->n + l + 2 > s->cap) { s->cap = (s->cap + l + 64) * 2; s->p = realloc(s->p, s->cap); }
    memcpy(s->p + s->n, t, l + 1); s->n += l;
}

int main(void) {
    zck_set_log_level(ZCK_LOG_NONE);
    struct sigaction sa; memset(&sa, 0, sizeof(sa));
    sa.sa_handler = c16_alarm; sa.sa_flags = SA_NODEFER;
    sigaction(SIGALRM, &sa, NULL);
    int tmo = getenv("ZH_CASE_TIMEOUT") ? atoi(getenv("ZH_CASE_TIMEOUT")) : 20;
    char *line;
    while((line = zh_readline(stdin))) {
        char *save = NULL;
        char *f[7]; int nf = 0;
        for(char *t = strtok_r(line, " ", &save); t && nf < 7; t = strtok_r(NULL, " ", &save)) f[nf++] = t;
        if(nf != 7) { printf("BADCASE\n"); fflush(stdout); continue; }
        int zstd = strcmp(f[0], "zstd") == 0;
        int manual = atoi(f[1]);
        long mn = atol(f[2]), mx = atol(f[3]);
        size_t dlen, n;
        unsigned char *dict = load_blob(f[4], &dlen);
        unsigned char *data = load_blob(f[5], &n);
        int has_dict = strcmp(f[4], "-") != 0;
        char *ops = strdup(f[6]);

        int fd = zh_memfd("", 0);
        zckCtx *zck = zck_create();
        stage = "init";
        int bad = 0;
        if(!zck_init_write(zck, fd)) bad = 1;
        if(!bad && !zck_set_ioption(zck, ZCK_COMP_TYPE, zstd ? ZCK_COMP_ZSTD : ZCK_COMP_NONE)) bad = 1;
        if(!bad && manual && !zck_set_ioption(zck, ZCK_MANUAL_CHUNK, 1)) bad = 1;
        stage = "option";
        if(!bad && mx > 0 && !zck_set_ioption(zck, ZCK_CHUNK_MAX, mx)) bad = 1;
        if(!bad && mn > 0 && !zck_set_ioption(zck, ZCK_CHUNK_MIN, mn)) bad = 1;
        if(!bad && has_dict && !zck_set_soption(zck, ZCK_COMP_DICT, (const char*)dict, dlen)) bad = 1;
        if(bad) { printf("ERR %s\n", stage); goto done; }

        if(sigsetjmp(c16_jmp, 1)) {
            /* the library did not come back: leave the context alone */
            printf("HANG %s\n", stage);
            zck = NULL;
            goto done;
        }
        alarm(tmo);
        int r = do_ops(zck, data, n, ops);
        if(r == 0) { stage = "close"; if(!zck_close(zck)) r = 1; }
        alarm(0);
        if(r) { printf(r == 2 ? "BADCASE\n" : "ERR %s\n", stage); goto done; }
        zck_free(&zck);

        /* read the produced file back */
        {
            char filehex[65]; size_t fsize;
            sha256_fd(fd, &fsize, filehex);
            lseek(fd, 0, SEEK_SET);
            zckCtx *rd = zck_create();
            if(!zck_init_read(rd, fd)) { printf("ERR reopen\n"); zck_free(&rd); goto done; }
            sbuf lens = {0}, clens = {0}, dig = {0}, udig = {0};
            sb_add(&lens, ""); sb_add(&clens, ""); sb_add(&dig, ""); sb_add(&udig, "");
            long count = 0; long dictlen = -1;
            size_t total = 0;
            char tmp[128];
            for(zckChunk *c = zck_get_first_chunk(rd); c; c = zck_get_next_chunk(c)) {
                ssize_t ul = zck_get_chunk_size(c), cl = zck_get_chunk_comp_size(c);
                if(zck_get_chunk_number(c) == 0) { dictlen = ul; continue; }
                char *d = zck_get_chunk_digest(c);
                if(count) { sb_add(&lens, ","); sb_add(&clens, ","); sb_add(&dig, ","); }
                snprintf(tmp, sizeof(tmp), "%zd", ul); sb_add(&lens, tmp);
                snprintf(tmp, sizeof(tmp), "%zd", cl); sb_add(&clens, tmp);
                sb_add(&dig, d ? d : "?"); free(d);
                total += ul;
                count++;
            }
            /* decoded content, read sequentially (checksums are verified on the way), cut at
               the chunk table's uncompressed lengths */
            unsigned char *all = malloc(total + 1);
            size_t got = 0; int rok = 1;
            while(got < total) {
                ssize_t r2 = zck_read(rd, (char*)all + got, total - got);
                if(r2 <= 0) { rok = 0; break; }
                got += r2;
            }
            if(rok) { char extra; if(zck_read(rd, &extra, 1) != 0) rok = 0; }
            {
                size_t off = 0; long k = 0;
                for(zckChunk *c = zck_get_first_chunk(rd); c; c = zck_get_next_chunk(c)) {
                    if(zck_get_chunk_number(c) == 0) continue;
                    size_t ul = zck_get_chunk_size(c);
                    unsigned char md[32];
                    if(!rok) strcpy(tmp, "READFAIL");
                    else { SHA256(all + off, ul, md); for(int i = 0; i < 8; i++) sprintf(tmp + 2*i, "%02x", md[i]); }
                    if(k) sb_add(&udig, ",");
                    sb_add(&udig, tmp);
                    off += ul; k++;
                }
            }
            free(all);
            printf("OK n=%ld lens=%s | dict=%ld clens=%s dig=%s udig=%s size=%zu file=%s\n", count,
                   count ? lens.p : "-", dictlen, count ? clens.p : "-", count ? dig.p : "-",
                   count ? udig.p : "-", fsize, filehex);
            free(lens.p); free(clens.p); free(dig.p); free(udig.p);
            zck_free(&rd);
        }
done:
        fflush(stdout);
        if(zck) zck_free(&zck);
        close(fd);
        free(dict); free(data); free(ops);
    }
    return 0;
}
